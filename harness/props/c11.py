"""C11 — convention detection and binding are deterministic and stable."""
from __future__ import annotations

import contextlib
import copy as pycopy
import itertools

from harness import util
from harness.gen import datasets as G
from harness.gen import registry as R

ID = 'C11'
MODULE = 'EmsModel.Props.C11'
DRIVER = 'C11'
# theorems about what harness/trans_registrysrc.py reads from the source of the registry
EXTRA_MODULES = ['EmsModel.Props.C11Src']
REQUIRED = [
    'Ems.C11.conventions_generated', 'Ems.C11.match_generated', 'Ems.C11.guess_generated', 'Ems.C11.detection_generated',
    'Ems.C11.conventions_spec', 'Ems.C11.guess_spec', 'Ems.C11.guess_none_iff', 'Ems.C11.guess_error_iff',
    'Ems.C11.manual_wins_ties', 'Ems.C11.shoc_over_cf', 'Ems.C11.ugrid_needs_marker_and_mesh2d',
    'Ems.C11.guess_pure', 'Ems.C11.bound_stable', 'Ems.C11.rebind_refused', 'Ems.C11.copies_independent',
    'Ems.C11.guess_maximal', 'Ems.C11.access_attaches', 'Ems.C11.access_stable', 'Ems.C11.copy_fresh',
    'Ems.C11.no_shared_convention', 'Ems.C11.entry_points_spec', 'Ems.C11.match_conventions_spec',
    'Ems.C11.unmatched_refused', 'Ems.C11.first_registered_wins_ties',
]
RULE = ('(1) pristine datasets of the five detectable conventions from the shared generators; (1b) each of them again '
        'with its Conventions attribute (the list of conventions it declares) respelt: every separator (blank, '
        'comma with / without blank, semicolon, line break), string-list valued, 0-2 unrelated convention names '
        'listed before / between / after its own - still a dataset of its convention; (2) every single '
        'near-miss mutation of each (Conventions marker, ems_version, cf_role, topology_dimension, each SHOC '
        'coordinate variable, a SHOC standard dataset cut down to every proper subset of its four grids, '
        'units/standard_name/axis of the latitude/longitude variables, 1-D vs 2-D coordinates, '
        'j/i dimensions, decoy variables in front, hybrids carrying the markers of two conventions); (3) random raw '
        'recipes around the predicates incl. a malformed stream (non-string / unhashable attribute values); for each: '
        'check_dataset of the six shipped classes, registry.match_conventions, get_dataset_convention. (4) all orders '
        'of registering up to 3 extra classes (synthetic subclasses with chosen specificities, shipped classes '
        'registered manually, duplicates), registry state restored after each case; (4b) fresh registries over random '
        'entry-point lists (orders, duplicates, entry points that fail to load or are not conventions). (5) operation histories '
        '(access, construct, bind, construct+bind, copy in four spellings, register) of length <= 8 quick / <= 12 '
        'thorough on real xarray.Dataset objects, object identities canonicalised to first-occurrence ordinals. '
        'The feature record given to the model is read from the xarray object (attrs, variable order, dims), never '
        'through emsarray. Non-trivial = a near-miss / hybrid / tie / non-empty registration / history with a copy '
        'or a refused bind; distinct = distinct (feature line, registration, op list).')
TRUSTED = [
    'xarray: Dataset.variables / data_vars iterate in insertion order; Dataset.copy() (shallow, deep, copy.copy, '
    'copy.deepcopy) returns a new object without the accessor cache; the accessor cache returns the object made on '
    'first successful access (modelled in Core/Binding, cross-checked by the history runs)',
    'importlib.metadata entry-point order as seen by the registry (read live into Gen/Tables.lean)',
    'Python sorted(..., reverse=True) is stable (modelled by List.mergeSort, whose stability is proved in core Lean)',
]
ASSUMPTIONS = [
    'attribute values read by detection are str, numbers, None, tuples or lists (numpy arrays as values of '
    'units/standard_name/axis/cf_role/topology_dimension are outside the model)',
    'user-defined convention classes can be instantiated for any dataset (they extend a concrete shipped class)',
]
LEVEL_NOTE = ('theorems are about arbitrary registries (any class type, any check function), arbitrary feature records '
              'and arbitrary operation sequences; no size bound')


# --------------------------------------------------------------------------
# real-code side

def registry():
    from emsarray.conventions import _registry
    return _registry.registry


@contextlib.contextmanager
def registered(classes: list):
    """Register `classes` (in order) through the public API; restore the registry afterwards."""
    from emsarray.conventions import register_convention
    reg = registry()
    saved = list(reg.registered_conventions)
    try:
        list(reg.conventions)      # the registry has been used before: its cached list exists
        for c in classes:
            register_convention(c)
        yield
    finally:
        reg.registered_conventions = saved
        reg.__dict__.pop('conventions', None)


_ENTRY_POINTS: list = []


def entry_points() -> list:
    """the entry-point classes, read once per run through the public function (slow: scans metadata)"""
    if not _ENTRY_POINTS:
        from emsarray.conventions import _registry
        _ENTRY_POINTS.extend(_registry.entry_point_conventions())
    return list(_ENTRY_POINTS)


def cls_name(c) -> str:
    return c.__name__


def impl_check(cls, ds) -> str:
    try:
        r = cls.check_dataset(ds)
    except Exception:
        return 'ERR'
    return '-' if r is None else str(int(r))


def impl_match(ds) -> str:
    try:
        ms = registry().match_conventions(ds)
    except Exception:
        return 'ERR'
    return ','.join(f'{cls_name(c)}:{int(s)}' for c, s in ms) if ms else '-'


def impl_detect(ds) -> str:
    from emsarray.conventions import get_dataset_convention
    try:
        c = get_dataset_convention(ds)
    except Exception:
        return 'ERR'
    return 'NONE' if c is None else cls_name(c)


def impl_convs() -> str:
    return ','.join(cls_name(c) for c in registry().conventions)


@contextlib.contextmanager
def fake_entry_points(tokens: list, table: dict):
    """Make `entry_point_conventions()` see the given entry points: class tokens, `!load`
    (loading raises ImportError / AttributeError), `!notconv` (loads to a non-Convention)."""
    import logging
    from emsarray.conventions import _registry

    class EP:
        def __init__(self, k, tok):
            self.name, self.value, self.tok, self.k = f'ep{k}', f'fake:{tok}', tok, k

        def load(self):
            if self.tok == '!load':
                raise (ImportError if self.k % 2 else AttributeError)('cannot load')
            if self.tok == '!notconv':
                return [int, 'a string', object(), dict][self.k % 4]
            return table[self.tok]

    class FakeMetadata:
        @staticmethod
        def entry_points(group=None):
            assert group == 'emsarray.conventions'
            return [EP(k, t) for k, t in enumerate(tokens)]
    saved = _registry.metadata
    log = logging.getLogger(_registry.__name__)
    was = log.disabled
    try:
        _registry.metadata = FakeMetadata
        log.disabled = True
        yield
    finally:
        _registry.metadata = saved
        log.disabled = was


def entry_point_cases(ctx, ds, recipe: dict, feat: dict, items: list) -> None:
    """registries over arbitrary entry-point lists (order, duplicates, unusable entry points)"""
    from emsarray.conventions import _registry
    rng = ctx.rng
    fl = R.fline(feat)
    for _ in range(3):
        syn = {str(i): list(rng.choice(R.SPEC_POOL)) for i in range(2)}
        table = R.class_table(syn)
        pool = R.BUILTINS + ['S0', 'S1', '!load', '!notconv']
        eps = [rng.choice(pool) for _ in range(rng.randint(0, 7))]
        if rng.random() < 0.5:
            perm = list(R.BUILTINS)
            rng.shuffle(perm)
            eps = perm[:rng.randint(2, 6)] + eps[:3]
        reg_tokens = [rng.choice(['S0', 'S1'] + R.BUILTINS) for _ in range(rng.choice([0, 0, 1, 2]))]
        used = {t[1:] for t in reg_tokens + eps if t.startswith('S')}
        syn_used = {i: v for i, v in syn.items() if i in used}
        desc = {'recipe': recipe, 'reg': reg_tokens, 'syn': syn_used, 'eps': eps}
        with fake_entry_points(eps, table):
            try:
                scanned = list(_registry.entry_point_conventions())
                scan_out = ','.join(cls_name(c) for c in scanned) or '-'
            except Exception:
                scanned, scan_out = None, 'ERR'
            reg = _registry.ConventionRegistry()
            for t in reg_tokens:
                reg.add_convention(table[t])
            try:
                ms = reg.match_conventions(ds)
                m_out = ','.join(f'{cls_name(c)}:{int(v)}' for c, v in ms) if ms else '-'
            except Exception:
                ms, m_out = None, 'ERR'
            try:
                g = reg.guess_convention(ds)
                g_out = 'NONE' if g is None else cls_name(g)
            except Exception:
                g, g_out = None, 'ERR'
        el = 'eps=' + (','.join(eps) if eps else '-')
        rl, sl = R.reg_line(reg_tokens), R.syn_line(syn_used)
        line = f'scan {el}'
        items.append((line, scan_out, {**desc, 'op': line}))
        line = f'matchep {rl} {el} {sl} F={fl}'
        items.append((line, m_out, {**desc, 'op': line}))
        line = f'detectep {rl} {el} {sl} F={fl}'
        items.append((line, g_out, {**desc, 'op': line}))
        ctx.count('entry-point-case')
        ctx.nontrivial(('eps', tuple(eps), tuple(reg_tokens), fl))
        # direct oracle: each usable class once, in first-occurrence order; winner = first of maximal specificity
        want_scan = []
        for t in eps:
            if not t.startswith('!') and table[t] not in want_scan:
                want_scan.append(table[t])
        order = []
        for c in [table[t] for t in reg_tokens] + want_scan:
            if c not in order:
                order.append(c)
        try:
            res = [(c, c.check_dataset(ds)) for c in order]
        except Exception:
            res = None
        if res is not None and g_out != 'ERR':
            matches = [(c, v) for c, v in res if v is not None]
            want = None
            if matches:
                best = max(v for _, v in matches)
                want = next(c for c, v in matches if v == best)
            if g is not want:
                ctx.oracle_fail('wrong-winner', {**desc, 'op': line},
                                f'entry points {eps}, registered {reg_tokens}: matches '
                                f'{[(cls_name(c), int(v)) for c, v in matches]}, expected '
                                f'{None if want is None else cls_name(want)}, got {g_out}')


# --------------------------------------------------------------------------
# direct property oracle for detection (independent of the Lean model)

def convention_names(value) -> list | None:
    """The names listed by a `Conventions` global attribute: CF lets them be separated by blanks or by
    commas (some writers use semicolons); a string-array attribute holds one or more per element.
    None: the value is not a string / sequence of strings (nothing is said about it)."""
    import re
    import numpy as np
    if isinstance(value, np.ndarray):
        value = value.tolist()
    if isinstance(value, str):
        parts = [value]
    elif isinstance(value, (list, tuple)) and all(isinstance(x, str) for x in value):
        parts = list(value)
    else:
        return None
    return [n for p in parts for n in re.split(r'[\s,;]+', p) if n]


def declares_ugrid(ds) -> bool:
    """one of the listed convention names is UGRID (`UGRID`, `UGRID-1.0`, `UGRID/1.0`, …)"""
    names = convention_names(ds.attrs.get('Conventions'))
    return bool(names) and any(n.startswith('UGRID') for n in names)


def unambiguous_mesh2d(ds) -> bool:
    """there is a mesh topology data variable, and every variable carrying a cf_role that could be read as
    mesh_topology is a data variable with the plain integer topology_dimension 2"""
    import numpy as np
    found = False
    for name, v in ds.variables.items():
        role = v.attrs.get('cf_role')
        if role is None:
            continue
        if not isinstance(role, str):
            return False
        if role != 'mesh_topology':
            continue
        td = v.attrs.get('topology_dimension')
        if isinstance(td, (bool, np.bool_)) or not isinstance(td, (int, np.integer)) or int(td) != 2:
            return False
        if name not in ds.data_vars:
            return False
        found = True
    return found


def is_shoc_standard(ds) -> bool:
    """the dataset carries the latitude and the longitude variable of each of the four SHOC standard grids
    (names from the generator's own table, not from the convention class)"""
    return all(c in ds.variables for c in R.SHOC_COORDS)


def is_shoc_simple(ds) -> bool:
    """the ems_version marker and the two SHOC simple grid dimensions"""
    return 'ems_version' in ds.attrs and {'j', 'i'} <= set(ds.sizes)


def oracle_detect(ctx, ds, feat: dict, reg_tokens: list, table: dict, desc: dict, pristine: str | None = None,
                  rebuild: bool = True) -> str:
    """Brute-force statement of the detection clauses of C11 on the real code.
    Returns 'OK' or 'FAIL:<signature>' (also reported through ctx.oracle_fail)."""
    from emsarray.conventions import _registry, get_dataset_convention
    fails = []

    def fail(sig, msg):
        fails.append(sig)
        ctx.oracle_fail(sig, desc, msg)
    # registry order: registered first, then entry points, first occurrence kept
    order = []
    for c in [table[t] for t in reg_tokens] + entry_points():
        if c not in order:
            order.append(c)
    results = {}
    raised = False
    for c in order:
        try:
            results[c] = c.check_dataset(ds)
        except Exception:
            raised = True
    try:
        got = get_dataset_convention(ds)
        got_raised = False
    except Exception:
        got, got_raised = None, True
    if raised or got_raised:
        if raised != got_raised:
            fail('detection-error-mismatch', f'check_dataset raised: {raised}; get_dataset_convention raised: {got_raised}')
        return 'OK' if not fails else 'FAIL:' + fails[0]
    matches = [(c, s) for c, s in results.items() if s is not None]
    if not matches:
        if got is not None:
            fail('unmatched-dataset-accepted', f'nothing matches but {cls_name(got)} was chosen')
        else:
            try:
                R.build_raw(R.to_raw(ds)).ems
                fail('unmatched-not-refused', 'dataset.ems returned a convention for a dataset nothing matches')
            except Exception:
                pass
    else:
        best = max(s for _, s in matches)
        want = next(c for c, s in matches if s == best)
        if got is not want:
            sig = 'wrong-winner'
            if got is not None and results.get(got) == best:
                sig = 'manual-tie-lost' if (want in [table[t] for t in reg_tokens]) else 'tie-order'
            fail(sig, f'matches {[(cls_name(c), int(s)) for c, s in matches]}: expected {cls_name(want)}, '
                      f'got {None if got is None else cls_name(got)}')
    if got is not None:
        name = cls_name(got)
        shoc_matches = [cls_name(c) for c, s in matches if cls_name(c) in ('ShocSimple', 'ShocStandard')]
        # what makes a dataset a SHOC one, read from the content (not through check_dataset)
        for n_, is_ in (('ShocStandard', is_shoc_standard(ds)), ('ShocSimple', is_shoc_simple(ds))):
            if is_ and n_ not in shoc_matches:
                shoc_matches.append(n_)
        if name in ('CFGrid1D', 'CFGrid2D') and shoc_matches:
            fail('shoc-not-preferred', f'{shoc_matches} match but the generic {name} was chosen')
        # ... and the other direction: a SHOC convention handles only a dataset that is a SHOC one - SHOC
        # standard is the eight latitude / longitude variables of its four grids (face, left, back, node),
        # SHOC simple the ems_version marker with the j / i dimensions.  Anything less is not theirs to
        # take from the generic conventions (or from being refused).
        if name == 'ShocStandard' and not is_shoc_standard(ds):
            missing = [c for c in R.SHOC_COORDS if c not in ds.variables]
            fail('shoc-standard-without-its-coordinates',
                 f'ShocStandard chosen for a dataset without the coordinate variable(s) {missing}; '
                 f'other matches: {[(cls_name(c), int(s)) for c, s in matches if c is not got]}')
        if name == 'ShocSimple' and not is_shoc_simple(ds):
            fail('shoc-simple-without-marker-or-dimensions',
                 f'ShocSimple chosen; ems_version present: {"ems_version" in ds.attrs}, dimensions {sorted(map(str, ds.dims))}')
        if name in ('CFGrid1D', 'CFGrid2D'):
            # what these two conventions are: latitude and longitude coordinates that are both one- (two-)
            # dimensional; a dataset whose coordinates are anything else is not theirs to accept
            want_nd = 1 if name == 'CFGrid1D' else 2
            try:
                topo = got(ds).topology
                nds = (int(topo.latitude.ndim), int(topo.longitude.ndim))
            except Exception as e:  # noqa
                nds = f'{type(e).__name__}'
            if nds != (want_nd, want_nd):
                fail('grid-convention-accepts-wrong-rank',
                     f'{name} chosen for a dataset whose latitude / longitude have {nds} dimensions')
        if name == 'UGrid':
            marker = 'UGRID' in str(ds.attrs.get('Conventions', ''))
            mesh2d = any(v.attrs.get('cf_role') == 'mesh_topology' and v.attrs.get('topology_dimension') == 2
                         for v in ds.data_vars.values())
            if not (marker and mesh2d):
                fail('ugrid-without-marker-or-mesh', f'UGrid chosen; marker={marker} 2-D mesh variable={mesh2d}')
    # the other direction of the UGRID clause, in the unambiguous case: the dataset names UGRID among its
    # conventions (however the list is spelt) and every mesh topology variable is a 2-D mesh
    if declares_ugrid(ds) and unambiguous_mesh2d(ds):
        ugrid = R.builtin_classes()['UGrid']
        try:
            r = ugrid.check_dataset(ds)
        except Exception as e:  # noqa
            r = f'raised {type(e).__name__}'
        if r is None or isinstance(r, str):
            fail('ugrid-dataset-not-matched',
                 f'Conventions = {ds.attrs.get("Conventions")!r} names UGRID and the mesh topology variable is 2-D, '
                 f'but UGrid.check_dataset gave {r}; chosen: {None if got is None else cls_name(got)}')
    if pristine is not None and not reg_tokens:
        want_name = {'cf1d': 'CFGrid1D', 'cf2d': 'CFGrid2D', 'shoc_simple': 'ShocSimple',
                     'shoc_standard': 'ShocStandard', 'ugrid': 'UGrid'}[pristine]
        if got is None or cls_name(got) != want_name:
            fail('own-convention-not-detected', f'a {pristine} dataset was detected as {None if got is None else cls_name(got)}')
    # a function of the content alone: same answer again, and on an independent rebuild of the same content
    again = get_dataset_convention(ds)
    rebuilt = get_dataset_convention(R.build_raw(R.to_raw(ds))) if rebuild else got
    if again is not got or rebuilt is not got:
        fail('detection-not-deterministic', f'{got} then {again}; on a rebuilt equal dataset {rebuilt}')
    return 'OK' if not fails else 'FAIL:' + fails[0]


# --------------------------------------------------------------------------
# histories on real objects

COPY_KINDS = ['shallow', 'deep', 'copy.copy', 'copy.deepcopy']


def do_copy(ds, kind: str):
    if kind == 'shallow':
        return ds.copy()
    if kind == 'deep':
        return ds.copy(deep=True)
    if kind == 'copy.copy':
        return pycopy.copy(ds)
    return pycopy.deepcopy(ds)


class History:
    """Executes operations on real xarray.Dataset / Convention objects and canonicalises identities."""

    def __init__(self, datasets: list, table: dict, reg_tokens: list = ()):
        self.registered = [table[t] for t in reg_tokens]   # oracle: classes registered so far
        self.datasets = list(datasets)
        self.objs: list = []
        self.table = table
        self.outs: list[str] = []
        # the direct oracle's own bookkeeping
        self.expected: dict = {}          # dataset ordinal -> convention object known to be attached
        self.violations: list = []

    def _obj_ordinal(self, o) -> int:
        for k, p in enumerate(self.objs):
            if p is o:
                return k
        self.objs.append(o)
        return len(self.objs) - 1

    def _ds_ordinal(self, ds) -> int:
        for k, p in enumerate(self.datasets):
            if p is ds:
                return k
        self.datasets.append(ds)
        return len(self.datasets) - 1

    def _saw_attached(self, d: int, o, step: int):
        """oracle: `o` is attached to dataset d"""
        if d in self.expected and self.expected[d] is not o:
            self.violations.append(('bound-not-stable', f'step {step}: dataset {d} first gave instance '
                                    f'{self._obj_ordinal(self.expected[d])}, now {self._obj_ordinal(o)}'))
        for d2, o2 in self.expected.items():
            if d2 != d and o2 is o:
                self.violations.append(('copy-shares-convention', f'step {step}: datasets {d2} and {d} share one Convention instance'))
        if getattr(o, 'dataset', None) is not self.datasets[d]:
            self.violations.append(('convention-of-other-dataset', f'step {step}: dataset {d}.ems has .dataset of another object'))
        self.expected.setdefault(d, o)

    def _expected_class(self, d: int):
        """oracle: the class autodetection must choose for dataset d now (None: refuse;
        'raises': some check_dataset raises)"""
        order = []
        for c in self.registered + entry_points():
            if c not in order:
                order.append(c)
        try:
            res = [(c, c.check_dataset(self.datasets[d])) for c in order]
        except Exception:
            return 'raises'
        matches = [(c, v) for c, v in res if v is not None]
        if not matches:
            return None
        best = max(v for _, v in matches)
        return next(c for c, v in matches if v == best)

    def run_op(self, op: str, copy_kind: str = 'shallow') -> str:
        from emsarray.conventions import register_convention
        step = len(self.outs)
        out = self._run_op(op, copy_kind, step, register_convention)
        self.outs.append(out)
        return out

    def _run_op(self, op, copy_kind, step, register_convention) -> str:
        if op.startswith('r:'):
            register_convention(self.table[op[2:]])
            self.registered.append(self.table[op[2:]])
            return 'ok'
        kind, body = op[0], op[1:]
        if kind == 'a':
            d = int(body)
            if d >= len(self.datasets):
                return 'INVALID'
            want = self._expected_class(d) if d not in self.expected else 'skip'
            try:
                o = self.datasets[d].ems
            except Exception as e:  # noqa
                if d in self.expected:
                    self.violations.append(('bound-not-stable', f'step {step}: dataset {d} has a convention attached, '
                                            f'but dataset.ems raised {type(e).__name__}'))
                elif want not in ('skip', 'raises', None):
                    self.violations.append(('matching-dataset-refused', f'step {step}: {cls_name(want)} matches dataset {d} '
                                            f'but dataset.ems raised {type(e).__name__}'))
                return 'E:noconv' if isinstance(e, RuntimeError) else 'E:check'
            if want not in ('skip', 'raises') and type(o) is not want:
                self.violations.append(('wrong-winner', f'step {step}: dataset {d}.ems is a {cls_name(type(o))}, the first '
                                        f'class of maximal specificity is {None if want is None else cls_name(want)}'))
            self._saw_attached(d, o, step)
            return f'o{self._obj_ordinal(o)}'
        if kind in ('n', 'c'):
            d, cname = body.split(':')
            d = int(d)
            if d >= len(self.datasets):
                return 'INVALID'
            try:
                o = self.table[cname](self.datasets[d])
            except Exception:
                return 'E:construct'
            if kind == 'n':
                return f'o{self._obj_ordinal(o)}'
            try:
                o.bind()
            except ValueError:
                return 'E:bound'
            if d in self.expected:
                self.violations.append(('rebind-accepted', f'step {step}: dataset {d} already had a convention, a second bind() succeeded'))
            self._saw_attached(d, o, step)
            return f'o{self._obj_ordinal(o)}'
        if kind == 'b':
            k = int(body)
            if k >= len(self.objs):
                return 'INVALID'
            o = self.objs[k]
            d = self._ds_ordinal(o.dataset)
            try:
                o.bind()
            except ValueError:
                return 'E:bound'
            if d in self.expected:
                self.violations.append(('rebind-accepted', f'step {step}: dataset {d} already had a convention, a second bind() succeeded'))
            self._saw_attached(d, o, step)
            return 'ok'
        if kind == 'y':
            d = int(body)
            if d >= len(self.datasets):
                return 'INVALID'
            new = do_copy(self.datasets[d], copy_kind)
            if any(new is p for p in self.datasets):
                self.violations.append(('copy-not-new', f'step {step}: copy returned an existing object'))
            return f'd{self._ds_ordinal(new)}'
        raise ValueError(f'unknown op {op!r}')

    def final_probe(self):
        """oracle: every dataset known to have a convention still returns that same object"""
        for d, o in list(self.expected.items()):
            try:
                now = self.datasets[d].ems
            except Exception as e:  # noqa
                self.violations.append(('bound-not-stable', f'end: dataset {d}.ems raised {type(e).__name__}'))
                continue
            if now is not o:
                self.violations.append(('bound-not-stable', f'end: dataset {d}.ems is another instance than the attached one'))


def random_op(rng, hist: History, classes: list, syn_tokens: list) -> tuple[str, str]:
    """next operation, biased towards interesting interleavings; references always exist"""
    nd, no = len(hist.datasets), len(hist.objs)
    c = rng.random()
    d = rng.randrange(nd)
    # prefer recently created datasets a little
    if rng.random() < 0.4:
        d = nd - 1
    ck = rng.choice(COPY_KINDS)
    if c < 0.30:
        return f'a{d}', ck
    if c < 0.45:
        return f'y{d}', ck
    if c < 0.58 and no:
        return f'b{rng.randrange(no)}', ck
    if c < 0.72:
        return f'c{d}:{rng.choice(classes)}', ck
    if c < 0.86:
        return f'n{d}:{rng.choice(classes)}', ck
    if c < 0.92 and syn_tokens:
        return f'r:{rng.choice(syn_tokens)}', ck
    return f'a{d}', ck


def execute_history(datasets_recipes: list, reg_tokens: list, syn: dict, ops: list, copy_kinds: list):
    """Replayable execution: returns (History, feature lines of the initial datasets)."""
    table = R.class_table(syn)
    dss = [R.build(r) for r in datasets_recipes]
    flines = [R.fline(R.features(ds)) for ds in dss]
    hist = History(dss, table, reg_tokens)
    with registered([table[t] for t in reg_tokens]):
        for op, ck in zip(ops, copy_kinds):
            hist.run_op(op, ck)
        hist.final_probe()
    return hist, flines


TINY = {'raw': {'attrs': {}, 'sizes': {'y': 2, 'x': 2}, 'vars': [
    {'name': 'lat', 'dims': ['y'], 'attrs': {'units': 'degrees_north'}, 'coord': False},
    {'name': 'lon', 'dims': ['x'], 'attrs': {'units': 'degrees_east'}, 'coord': False}]}}


def shrink_history(desc: dict, sig: str) -> tuple[dict, str | None]:
    """Greedy minimisation of a failing history: drop operations, registrations and replace
    datasets by a tiny CF grid as long as the same signature is still raised."""
    def fails(d):
        try:
            h, _ = execute_history(d['datasets'], d['reg'], d['syn'], d['ops'], d['copy_kinds'])
        except Exception:
            return None
        for s_, m in h.violations:
            if s_ == sig:
                return m
        return None
    best = dict(desc)
    msg = fails(best)
    if msg is None:
        return desc, None
    changed = True
    while changed:
        changed = False
        for i in reversed(range(len(best['ops']))):
            cand = dict(best, ops=best['ops'][:i] + best['ops'][i + 1:],
                        copy_kinds=best['copy_kinds'][:i] + best['copy_kinds'][i + 1:])
            m = fails(cand)
            if m is not None:
                best, msg, changed = cand, m, True
        for i in reversed(range(len(best['reg']))):
            cand = dict(best, reg=best['reg'][:i] + best['reg'][i + 1:])
            m = fails(cand)
            if m is not None:
                best, msg, changed = cand, m, True
        for i in range(len(best['datasets'])):
            if best['datasets'][i] != TINY:
                cand = dict(best, datasets=best['datasets'][:i] + [TINY] + best['datasets'][i + 1:])
                m = fails(cand)
                if m is not None:
                    best, msg, changed = cand, m, True
        if len(best['datasets']) > 1:
            cand = dict(best, datasets=best['datasets'][:-1])
            m = fails(cand)
            if m is not None:
                best, msg, changed = cand, m, True
    used = {t[1:] for t in best['reg'] if t.startswith('S')} | {
        o.split(':S')[1] for o in best['ops'] if ':S' in o}
    best['syn'] = {i: v for i, v in best['syn'].items() if i in used}
    return best, msg


def hist_line(kind: str, reg_tokens, syn, flines, ops) -> str:
    return (f"{kind} {R.reg_line(reg_tokens)} {R.syn_line(syn)} D={'#'.join(flines) if flines else '-'} "
            f"ops={','.join(ops) if ops else '-'}")


# --------------------------------------------------------------------------

def dataset_lines(ctx, ds, recipe: dict, items: list, label: str, pristine: str | None = None) -> dict | None:
    """check / match / detect / propcheck lines of one dataset with nothing registered, plus the oracle."""
    try:
        feat = R.features(ds)
    except ValueError:
        ctx.count('skipped:unmodelled-attribute')
        return None
    fl = R.fline(feat)
    classes = R.builtin_classes()
    desc = {'recipe': recipe, 'reg': [], 'syn': {}}
    for name, cls in classes.items():
        line = f'check {name} syn=- F={fl}'
        items.append((line, impl_check(cls, ds), {**desc, 'op': line}))
    det = impl_detect(ds)
    line = f'match reg=- syn=- F={fl}'
    items.append((line, impl_match(ds), {**desc, 'op': line}))
    line = f'detect reg=- syn=- F={fl}'
    items.append((line, det, {**desc, 'op': line}))
    verdict = oracle_detect(ctx, ds, feat, [], classes, {**desc, 'op': line}, pristine)
    line = f'propcheck detect reg=- syn=- F={fl}'
    items.append((line, 'OK', {**desc, 'op': line}))
    ctx.count(f'{label}:{det}')
    return feat


def registration_cases(ctx, ds, recipe: dict, feat: dict, items: list, exhaustive_specs: bool = False) -> None:
    """all orders of registering up to 3 extra classes"""
    rng = ctx.rng
    fl = R.fline(feat)
    if exhaustive_specs:
        pools = [[['c', None], ['c', 10], ['c', 30]]] * 3
        combos = list(itertools.product(*pools))
    else:
        combos = [tuple(rng.choice(R.SPEC_POOL) for _ in range(3)) for _ in range(2)]
    for combo in combos:
        syn = {str(i): list(s) for i, s in enumerate(combo)}
        if not exhaustive_specs and rng.random() < 0.08:
            syn['2'] = ['r']
        table = R.class_table(syn)
        tokens = ['S0', 'S1', 'S2']
        # sometimes a shipped class is registered manually, sometimes a class twice
        extra = []
        if not exhaustive_specs:
            if rng.random() < 0.5:
                extra.append(rng.choice(R.BUILTINS))
            if rng.random() < 0.3:
                extra.append(rng.choice(tokens))
        pool = tokens + extra
        orders = []
        for k in range(0, 4):
            for perm in itertools.permutations(range(len(pool)), k):
                orders.append([pool[p] for p in perm])
        if len(orders) > 40 and not exhaustive_specs:
            keep = [o for o in orders if len(o) <= 1] + rng.sample([o for o in orders if len(o) > 1], 30)
            orders = keep
        seen = set()
        for reg_tokens in orders:
            if tuple(reg_tokens) in seen:
                continue
            seen.add(tuple(reg_tokens))
            used = {t[1:] for t in reg_tokens if t.startswith('S')}
            syn_used = {i: s for i, s in syn.items() if i in used}
            desc = {'recipe': recipe, 'reg': reg_tokens, 'syn': syn_used}
            with registered([table[t] for t in reg_tokens]):
                convs = impl_convs()
                m = impl_match(ds)
                det = impl_detect(ds)
                verdict = oracle_detect(ctx, ds, feat, reg_tokens, table, {**desc, 'op': 'detect'},
                                        rebuild=(len(seen) % 8 == 1))
            rl, sl = R.reg_line(reg_tokens), R.syn_line(syn_used)
            line = f'convs {rl}'
            items.append((line, convs, {**desc, 'op': line}))
            line = f'match {rl} {sl} F={fl}'
            items.append((line, m, {**desc, 'op': line}))
            line = f'detect {rl} {sl} F={fl}'
            items.append((line, det, {**desc, 'op': line}))
            line = f'propcheck detect {rl} {sl} F={fl}'
            items.append((line, 'OK', {**desc, 'op': line}))
            if reg_tokens:
                ctx.nontrivial(('reg', fl, tuple(reg_tokens), sl))
            specs = [s for s in m.split(',') if ':' in s]
            if len(specs) > 1 and specs[0].split(':')[1] == specs[1].split(':')[1]:
                ctx.count('tie-at-the-top')
            ctx.count(f'registered:{len(reg_tokens)}')


def run(ctx) -> None:
    rng = ctx.rng
    items: list = []
    base_reg = list(registry().registered_conventions)
    if base_reg:
        ctx.notes.append(f'registry had manually registered conventions at start: {base_reg}')
    pool_for_hist: list = []     # (recipe, feat) of datasets to run histories / registrations on

    # ---- (1) pristine datasets and (2) their near-misses --------------------
    n_pristine = ctx.budget(6, 18)
    nm_cap = ctx.budget(40, 400)
    for conv in G.CONVS:
        for k in range(n_pristine):
            kw = {}
            if conv == 'ugrid' and k % 2:
                kw = {'coords_as': 'coords'}
            if conv in ('cf2d', 'shoc_simple', 'shoc_standard', 'cf1d') and k % 3 == 2:
                kw = {'coords_as': 'vars'}
            base = G.random_recipe(rng, conv, ctx.tier, **kw)
            recipe = {'base': base}
            ds = R.build(recipe)
            feat = dataset_lines(ctx, ds, recipe, items, 'pristine', pristine=conv)
            if feat is None:
                continue
            pool_for_hist.append((recipe, feat, 'pristine'))
            # (1b) the same dataset with its list of conventions spelt in every other allowed way (separator,
            # string list, unrelated names listed next to its own): it is still a dataset of this convention
            gattrs = {str(k_): v_ for k_, v_ in ds.attrs.items()}
            for label, value in R.conventions_spellings(gattrs.get('Conventions', ''), rng):
                r1 = {'base': dict(base, attrs={**gattrs, 'Conventions': value})}

                def one(r1=r1, label=label):
                    ds1 = R.build(r1)
                    f1 = dataset_lines(ctx, ds1, r1, items, 'respelt', pristine=conv)
                    if f1 is not None:
                        ctx.nontrivial(('respelt', conv, label, R.fline(f1)))
                        ctx.count('respelt-form:' + label.split(':', 1)[1])
                        if rng.random() < 0.1:
                            pool_for_hist.append((r1, f1, 'respelt'))
                ctx.guarded(one, {'recipe': r1, 'op': 'detect'})
            raw = R.to_raw(ds)
            nms = R.near_misses(raw, rng, malformed=True)
            if len(nms) > nm_cap:
                nms = rng.sample(nms, nm_cap)
            for label, muts in nms:
                r2 = {'base': base, 'muts': muts}
                try:
                    ds2 = R.build(r2)
                except Exception:
                    ctx.count('skipped:unbuildable-near-miss')
                    continue
                f2 = dataset_lines(ctx, ds2, r2, items, 'near-miss')
                if f2 is None:
                    continue
                ctx.nontrivial(('near-miss', conv, label.split(':')[0], R.fline(f2)))
                ctx.count('near-miss-kind:' + label.split(':')[0].split('=')[0])
                if rng.random() < 0.12:
                    pool_for_hist.append((r2, f2, 'near-miss'))

    # ---- (3) random raw recipes, valid-ish and malformed ---------------------
    for k in range(ctx.budget(800, 6000)):
        malformed = (k % 3 == 2)
        raw = R.random_raw(rng, malformed=malformed)
        recipe = {'raw': raw}
        try:
            ds = R.build(recipe)
        except Exception:
            ctx.count('skipped:unbuildable-raw')
            continue
        feat = dataset_lines(ctx, ds, recipe, items, 'malformed' if malformed else 'raw')
        if feat is None:
            continue
        ctx.nontrivial(('raw', R.fline(feat)))
        if rng.random() < 0.15:
            pool_for_hist.append((recipe, feat, 'raw'))

    # ---- (4) registration orders ------------------------------------------------
    reg_sample = list(pool_for_hist)
    rng.shuffle(reg_sample)
    n_reg = ctx.budget(40, 200)
    for idx, (recipe, feat, kind) in enumerate(reg_sample[:n_reg]):
        ds = R.build(recipe)
        registration_cases(ctx, ds, recipe, feat, items, exhaustive_specs=(idx < ctx.budget(2, 6)))

    # ---- (4b) registries over arbitrary entry-point lists ------------------------
    for recipe, feat, kind in reg_sample[:ctx.budget(60, 400)]:
        entry_point_cases(ctx, R.build(recipe), recipe, feat, items)

    # ---- (5) histories ------------------------------------------------------------
    max_len = 12 if ctx.thorough else 8
    n_hist = ctx.budget(2000, 12000)
    builtin_tokens = list(R.BUILTINS)
    for h in range(n_hist):
        nds = rng.choice([1, 1, 2, 2, 3])
        chosen = [rng.choice(pool_for_hist) for _ in range(nds)]
        recipes = [c[0] for c in chosen]
        syn = {str(i): list(rng.choice(R.SPEC_POOL)) for i in range(2)}
        if rng.random() < 0.05:
            syn['1'] = ['r']
        syn_tokens = ['S0', 'S1']
        reg_tokens = [t for t in syn_tokens if rng.random() < 0.3]
        table = R.class_table(syn)
        dss = [R.build(r) for r in recipes]
        flines = [R.fline(R.features(ds)) for ds in dss]
        hist = History(dss, table, reg_tokens)
        classes = builtin_tokens + syn_tokens
        ops, kinds = [], []
        length = rng.randint(3, max_len)
        with registered([table[t] for t in reg_tokens]):
            for _ in range(length):
                op, ck = random_op(rng, hist, classes, syn_tokens)
                hist.run_op(op, ck)
                ops.append(op)
                kinds.append(ck)
            hist.final_probe()
        desc = {'datasets': recipes, 'reg': reg_tokens, 'syn': syn, 'ops': ops, 'copy_kinds': kinds}
        line = hist_line('hist', reg_tokens, syn, flines, ops)
        items.append((line, ','.join(hist.outs), {**desc, 'op': 'hist'}))
        line = hist_line('propcheck hist', reg_tokens, syn, flines, ops)
        items.append((line, 'OK', {**desc, 'op': 'propcheck hist'}))
        reported = set()
        for sig, msg in hist.violations:
            if sig in reported:
                continue
            reported.add(sig)
            if len(ctx.oracle_failures) < 3:
                small, smsg = shrink_history({**desc}, sig)
                if smsg is not None:
                    ctx.oracle_fail(sig, {**small, 'op': 'hist'}, smsg)
                    continue
            ctx.oracle_fail(sig, desc, msg)
        if any(o.startswith('y') for o in ops) or 'E:bound' in hist.outs:
            ctx.nontrivial(('hist', tuple(flines), tuple(reg_tokens), tuple(ops)))
        ctx.count(f'hist-len:{length}')
        for o in hist.outs:
            ctx.count('hist-out:' + (o if o.startswith('E') or o in ('ok', 'INVALID') else o[0]))
    if registry().registered_conventions != base_reg:
        raise RuntimeError('registry state was not restored')

    if ctx.searching and ctx.driver is None:
        ctx.evaluated(len(items))
        return
    check_batch_retry(ctx, items)


def check_batch_retry(ctx, items: list) -> None:
    """ctx.check_batch; if the driver process itself fails (the shared build directory is being
    rebuilt by a concurrent run), rebuild what the driver imports and try once more."""
    from harness import lean
    try:
        ctx.check_batch(items)
    except lean.LeanError:
        import time
        time.sleep(5)
        lean.build([MODULE, 'EmsModel.Core.Proto'])
        ctx.check_batch(items)


# --------------------------------------------------------------------------

def replay(ctx, data) -> int:
    return util.generic_replay(ctx, data, run_one)


def run_one(ctx, inp: dict) -> dict:
    """Re-execute one recorded input on the real code and on the model."""
    out: dict = {}
    syn = inp.get('syn') or {}
    reg_tokens = inp.get('reg') or []
    table = R.class_table(syn)
    if 'datasets' in inp:
        hist, flines = execute_history(inp['datasets'], reg_tokens, syn, inp['ops'], inp['copy_kinds'])
        out['ops'] = ','.join(inp['ops'])
        out['impl'] = ','.join(hist.outs)
        if ctx.driver:
            out['model'] = ctx.model([hist_line('hist', reg_tokens, syn, flines, inp['ops'])])[0]
            out['model propcheck'] = ctx.model([hist_line('propcheck hist', reg_tokens, syn, flines, inp['ops'])])[0]
        out['oracle'] = '; '.join(f'{s}: {m}' for s, m in hist.violations) or 'no violation'
        return out
    ds = R.build(inp['recipe'])
    feat = R.features(ds)
    fl = R.fline(feat)
    rl, sl = R.reg_line(reg_tokens), R.syn_line(syn)
    op = (inp.get('op') or 'detect').split()
    kind = op[0] if op[0] != 'propcheck' else 'detect'
    if 'eps' in inp:
        from emsarray.conventions import _registry
        eps = inp['eps']
        el = 'eps=' + (','.join(eps) if eps else '-')
        with fake_entry_points(eps, table):
            try:
                out['scan impl'] = ','.join(cls_name(c) for c in _registry.entry_point_conventions()) or '-'
            except Exception as e:  # noqa
                out['scan impl'] = f'ERR ({type(e).__name__})'
            reg = _registry.ConventionRegistry()
            for t in reg_tokens:
                reg.add_convention(table[t])
            try:
                ms = reg.match_conventions(ds)
                out['all matches'] = ','.join(f'{cls_name(c)}:{int(v)}' for c, v in ms) if ms else '-'
                g = reg.guess_convention(ds)
                out['impl'] = 'NONE' if g is None else cls_name(g)
            except Exception as e:  # noqa
                out['impl'] = 'ERR'
        if kind == 'scan':
            out['impl'] = out['scan impl']
            line = f'scan {el}'
        elif kind == 'matchep':
            out['impl'] = out.get('all matches', 'ERR')
            line = f'matchep {rl} {el} {sl} F={fl}'
        else:
            line = f'detectep {rl} {el} {sl} F={fl}'
        out['op'] = line
        if ctx.driver:
            out['model'] = ctx.model([line])[0]
            out['scan model'] = ctx.model([f'scan {el}'])[0]
        return out
    with registered([table[t] for t in reg_tokens]):
        if kind == 'check':
            line = f'check {op[1]} syn=- F={fl}'
            out['impl'] = impl_check(table[op[1]], ds)
        elif kind == 'convs':
            line = f'convs {rl}'
            out['impl'] = impl_convs()
        elif kind == 'match':
            line = f'match {rl} {sl} F={fl}'
            out['impl'] = impl_match(ds)
        else:
            line = f'detect {rl} {sl} F={fl}'
            out['impl'] = impl_detect(ds)
        out['all matches'] = impl_match(ds)

        class _Quiet:
            def oracle_fail(self, sig, desc, msg):
                out.setdefault('oracle', f'{sig}: {msg}')
        verdict = oracle_detect(_Quiet(), ds, feat, reg_tokens, table, {})
        out.setdefault('oracle', verdict)
    out['op'] = line
    if ctx.driver:
        out['model'] = ctx.model([line])[0]
        out['model propcheck'] = ctx.model([f'propcheck detect {rl} {sl} F={fl}'])[0]
    return out
