"""Source translator (T) for property C17: the functions behind "saving with the EMS fixes".

Reads, from the emsarray that is being checked (`import emsarray`, `inspect.getsource` + `ast`), the source text of

    emsarray.utils.format_time_units_for_ems      -> Gen.tuFormatProg  (+ Gen.tuNewUnits, the returned f-string)
    emsarray.utils.disable_default_fill_value     -> Gen.tuFillProg
    Convention.time_coordinate (+ SHOC overrides) -> Gen.tuTimeCoordGeneric / ShocStandard / ShocSimple, Gen.tuTimeCoordOwners
    emsarray.utils.fix_time_units_for_ems         -> Gen.tuFixSteps

and re-emits them as terms of the languages of lean/EmsModel/Core/TimeUnitsSrc.lean.  The theorems of
lean/EmsModel/Props/C17Src.lean are about these generated terms.

How a function body is read: statement by statement, symbolically.  Locals are inlined (an environment maps a
local name to *what it holds*), parameters are known by position, objects are recognised by the call chain
that builds them (`cftime._parse_date(cftime._datesplit(units)[1].strip())[-1]` is the offset, whatever the
locals on the way are called).  Docstrings, comments, layout, `logger.*` lines and `typing.cast` are invisible.
Whatever is not understood becomes an `unsupported "<python text>"` node - which every interpreter evaluates
to `none` and no theorem accepts - and is listed in `Gen.tuComplaints`.  `render()` never raises.
"""
from __future__ import annotations

import ast
import inspect
import pathlib
import re
import textwrap

VERIF = pathlib.Path(__file__).resolve().parent.parent
OUT = VERIF / 'lean' / 'EmsModel' / 'Gen' / 'TimeUnitsSrc.lean'
TARGET = 'EmsModel.Gen.TimeUnitsSrc'


# ---------------------------------------------------------------------------------------------
# Lean text helpers

def lstr(s: str) -> str:
    out = []
    for ch in s:
        if ch == '\\':
            out.append('\\\\')
        elif ch == '"':
            out.append('\\"')
        elif ch == '\n':
            out.append('\\n')
        elif ch == '\t':
            out.append('\\t')
        elif 32 <= ord(ch) < 127:
            out.append(ch)
        else:
            out.append('\\u{%x}' % ord(ch))
    return '"' + ''.join(out) + '"'


def lchar(ch: str) -> str:
    if 32 <= ord(ch) < 127 and ch not in "'\\":
        return f"'{ch}'"
    return f'(Char.ofNat {ord(ch)})'


def lchars(s: str) -> str:
    """a `List Char` literal (the interpreters compare character lists; a literal list needs no `String.toList`)"""
    return '[' + ', '.join(lchar(c) for c in s) + ']'


def llist(items) -> str:
    return '[' + ', '.join(items) + ']'


def short(text: str, n: int = 160) -> str:
    text = ' '.join(text.split())
    return text if len(text) <= n else text[:n - 3] + '...'


def paren(py: str) -> str:
    """the text of an expression, parenthesised unless it can take a trailer (`.attr`, `[i]`, `(...)`) as it stands"""
    try:
        body = ast.parse(py, mode='eval').body
        if isinstance(body, (ast.Name, ast.Attribute, ast.Subscript, ast.Call, ast.Constant)):
            return py
    except Exception:  # noqa
        pass
    return f'({py})'


def unparse(node) -> str:
    try:
        return short(ast.unparse(node))
    except Exception:  # noqa
        return f'<{type(node).__name__}>'


# ---------------------------------------------------------------------------------------------
# symbolic values

class Sym:
    py = '?'


class Obj(Sym):
    """an opaque Python object, known by the canonical text of the expression that builds it"""
    def __init__(self, py):
        self.py = py


class IntE(Sym):
    def __init__(self, lean, py):
        self.lean, self.py = lean, py


class BoolE(Sym):
    def __init__(self, lean, py):
        self.lean, self.py = lean, py


class StrE(Sym):
    def __init__(self, lean, py, literal=None):
        self.lean, self.py, self.literal = lean, py, literal


class Tmpl(Sym):
    def __init__(self, pieces, py):
        self.pieces, self.py = pieces, py


class Tup(Sym):
    def __init__(self, items, py):
        self.items, self.py = items, py


class NoneE(Sym):
    py = 'None'


class CondNe(Sym):
    def __init__(self, a, b, py, negate=False):
        self.a, self.b, self.py, self.negate = a, b, py, negate


INT_SPEC = re.compile(r'^([+\- ])?(0)?([1-9][0-9]*)?(d)?$')
SIGN = {None: '.minusOnly', '-': '.minusOnly', '+': '.plus', ' ': '.space'}
LOGGER_ROOTS = {'logger', 'logging', 'log', '_logger', 'LOGGER'}
DT_FIELDS = {'year', 'month', 'day', 'hour', 'minute', 'second'}

# the call chains of format_time_units_for_ems (parameters by position: __p0 = units, __p1 = calendar)
SPLIT = 'cftime._datesplit(__p0)'
PERIOD = f'{SPLIT}[0]'
DATE = f'{SPLIT}[1]'
BITS = f'cftime._parse_date({DATE}.strip())'
OFFS = [f'{BITS}[-1]', f'{BITS}[7]']
TZS = [f'pytz.FixedOffset({o})' for o in OFFS]
REF = 'cftime.num2pydate(0, __p0, __p1)'
LOCALS = [f'{REF}.replace(tzinfo=pytz.UTC).astimezone({tz})' for tz in TZS]
RECHECK = 'cftime.num2pydate(0, __result, __p1)'
ATOMS = {SPLIT: '.split', BITS: '.bits', REF: '.reference', RECHECK: '.recheck'}
ATOMS.update({t: '.tz' for t in TZS})
ATOMS.update({t: '.localDt' for t in LOCALS})


class Complaints:
    def __init__(self):
        self.items = []

    def add(self, where: str, text: str) -> str:
        msg = short(f'{where}: {text}')
        self.items.append(msg)
        return msg


def int_spec(spec: str):
    m = INT_SPEC.match(spec)
    if not m:
        return None
    sign, zero, width, _d = m.groups()
    return f'(IntSpec.mk {SIGN[sign]} {"true" if zero else "false"} {int(width) if width else 0})'


def strftime_pieces(spec: str):
    """`{dt:<spec>}`: the directives and the literal text between them, in order; None if not understood"""
    pieces, lit, i = [], '', 0
    if spec == '':
        return None
    while i < len(spec):
        ch = spec[i]
        if ch == '%':
            if i + 1 >= len(spec):
                return None
            d = spec[i + 1]
            if d == '%':
                lit += '%'
            else:
                if lit:
                    pieces.append(('text', lit))
                    lit = ''
                pieces.append(('piece', f'.strftime {lchar(d)}'))
            i += 2
        else:
            lit += ch
            i += 1
    if lit:
        pieces.append(('text', lit))
    return pieces


def merge_text(pieces):
    """adjacent literal pieces are one literal (f'a' f'b' == f'ab')"""
    out = []
    for kind, val in pieces:
        if kind == 'text' and out and out[-1][0] == 'text':
            out[-1] = ('text', out[-1][1] + val)
        elif kind == 'text' and val == '':
            continue
        else:
            out.append((kind, val))
    return out


class Evaluator:
    """symbolic evaluation of expressions; subclasses add the recognisers of one function"""

    def __init__(self, where: str, complaints: Complaints, params):
        self.where = where
        self.complaints = complaints
        self.env = {}
        for i, p in enumerate(params):
            self.env[p] = Obj(f'__p{i}')
        self.tmpls = []      # lean text of the templates seen, index = placeholder number

    # -- hooks ---------------------------------------------------------------------------------
    def classify(self, obj: Sym) -> Sym:
        return obj

    # -- helpers -------------------------------------------------------------------------------
    def bad(self, text: str) -> str:
        return self.complaints.add(self.where, text)

    def tmpl_placeholder(self, pieces) -> str:
        key = llist(pieces)
        if key not in self.tmpls:
            self.tmpls.append(key)
        return f'__tmpl{self.tmpls.index(key)}'

    def opaque(self, node) -> Obj:
        """an expression outside the language: its text with the locals inlined"""
        ev = self

        class Sub(ast.NodeTransformer):
            def visit_Name(self, n):
                if isinstance(n.ctx, ast.Load) and n.id in ev.env:
                    try:
                        return ast.parse(ev.env[n.id].py, mode='eval').body
                    except Exception:  # noqa
                        return ast.Name(id='__opaque', ctx=ast.Load())
                return n
        try:
            import copy
            return Obj(short(ast.unparse(Sub().visit(copy.deepcopy(node))), 400))
        except Exception:  # noqa
            return Obj(f'<{type(node).__name__}>')

    def as_piece_list(self, sym: Sym, spec, node):
        """the pieces of `{sym:spec}`"""
        if isinstance(sym, Tmpl) and not spec:
            return list(sym.pieces)
        if isinstance(sym, StrE) and not spec:
            if sym.literal is not None:
                return [('text', sym.literal)]
            return [('piece', f'.str ({sym.lean})')]
        if isinstance(sym, IntE):
            sp = int_spec(spec or '')
            if sp is not None:
                return [('piece', f'.int ({sym.lean}) {sp}')]
        if isinstance(sym, Obj) and ATOMS.get(sym.py) == '.localDt' and spec:
            ps = strftime_pieces(spec)
            if ps is not None:
                return ps
        return [('piece', f'.unsupported {lstr(self.bad("{" + unparse(node) + "}"))}')]

    # -- expressions ---------------------------------------------------------------------------
    def ev(self, node) -> Sym:
        try:
            return self.classify(self._ev(node))
        except Exception as e:  # noqa
            self.bad(f'{unparse(node)} ({type(e).__name__})')
            return Obj(f'<error {unparse(node)}>')

    def _ev(self, node) -> Sym:
        if isinstance(node, ast.Name):
            if node.id in self.env:
                return self.env[node.id]
            return Obj(node.id)
        if isinstance(node, ast.Constant):
            v = node.value
            if isinstance(v, bool):
                return Obj(repr(v))
            if isinstance(v, int):
                return IntE(f'.lit {v}' if v >= 0 else f'.lit ({v})', repr(v))
            if isinstance(v, str):
                return StrE(f'.lit {lstr(v)}', repr(v), literal=v)
            if v is None:
                return NoneE()
            return Obj(repr(v))
        if isinstance(node, ast.Attribute):
            base = self.ev(node.value)
            if isinstance(base, Obj):
                if ATOMS.get(base.py) == '.localDt' and node.attr in DT_FIELDS:
                    return IntE(f'.{node.attr}', f'{base.py}.{node.attr}')
                return Obj(f'{paren(base.py)}.{node.attr}')
            return self.opaque(node)
        if isinstance(node, ast.Subscript):
            base = self.ev(node.value)
            idx = node.slice
            k = None
            if isinstance(idx, ast.Constant) and isinstance(idx.value, int) and not isinstance(idx.value, bool):
                k = idx.value
            elif isinstance(idx, ast.UnaryOp) and isinstance(idx.op, ast.USub) and isinstance(idx.operand, ast.Constant) \
                    and isinstance(idx.operand.value, int):
                k = -idx.operand.value
            if isinstance(base, Tup) and k is not None and -len(base.items) <= k < len(base.items):
                return base.items[k]
            if isinstance(base, Obj):
                if k is not None:
                    return Obj(f'{paren(base.py)}[{k}]')
                sub = self.ev(idx)
                return Obj(f'{paren(base.py)}[{sub.py}]')
            return self.opaque(node)
        if isinstance(node, ast.UnaryOp):
            a = self.ev(node.operand)
            if isinstance(node.op, ast.USub) and isinstance(a, IntE):
                return IntE(f'.neg ({a.lean})', f'-({a.py})')
            if isinstance(node.op, ast.UAdd) and isinstance(a, IntE):
                return a
            if isinstance(node.op, ast.Not):
                if isinstance(a, BoolE):
                    return BoolE(f'.not ({a.lean})', f'not ({a.py})')
                if isinstance(a, CondNe):
                    return CondNe(a.a, a.b, f'not ({a.py})', negate=not a.negate)
            return self.opaque(node)
        if isinstance(node, ast.BinOp):
            a, b = self.ev(node.left), self.ev(node.right)
            ops = {ast.Add: ('add', '+'), ast.Sub: ('sub', '-'), ast.Mult: ('mul', '*'),
                   ast.FloorDiv: ('floordiv', '//'), ast.Mod: ('mod', '%')}
            if isinstance(a, IntE) and isinstance(b, IntE) and type(node.op) in ops:
                name, sym = ops[type(node.op)]
                return IntE(f'.{name} ({a.lean}) ({b.lean})', f'({a.py}) {sym} ({b.py})')
            if isinstance(node.op, ast.Add) and isinstance(a, (StrE, Tmpl)) and isinstance(b, (StrE, Tmpl)):
                pieces = merge_text(self.as_piece_list(a, '', node.left) + self.as_piece_list(b, '', node.right))
                return self.make_tmpl(pieces)
            return self.opaque(node)
        if isinstance(node, ast.Compare) and len(node.ops) == 1:
            a, b = self.ev(node.left), self.ev(node.comparators[0])
            ops = {ast.Lt: 'lt', ast.LtE: 'le', ast.Gt: 'gt', ast.GtE: 'ge', ast.Eq: 'eq', ast.NotEq: 'ne'}
            txt = {ast.Lt: '<', ast.LtE: '<=', ast.Gt: '>', ast.GtE: '>=', ast.Eq: '==', ast.NotEq: '!='}
            op = type(node.ops[0])
            if isinstance(a, IntE) and isinstance(b, IntE) and op in ops:
                return BoolE(f'.{ops[op]} ({a.lean}) ({b.lean})', f'({a.py}) {txt[op]} ({b.py})')
            if isinstance(a, Obj) and isinstance(b, Obj) and op in (ast.NotEq, ast.Eq):
                return CondNe(a.py, b.py, f'{a.py} {txt[op]} {b.py}', negate=(op is ast.Eq))
            return self.opaque(node)
        if isinstance(node, ast.BoolOp):
            vals = [self.ev(v) for v in node.values]
            if all(isinstance(v, BoolE) for v in vals):
                name = 'and' if isinstance(node.op, ast.And) else 'or'
                acc = vals[-1]
                for v in reversed(vals[:-1]):
                    acc = BoolE(f'.{name} ({v.lean}) ({acc.lean})', f'({v.py}) {name} ({acc.py})')
                return acc
            return self.opaque(node)
        if isinstance(node, ast.IfExp):
            c, t, f = self.ev(node.test), self.ev(node.body), self.ev(node.orelse)
            if isinstance(c, BoolE) and isinstance(t, StrE) and isinstance(f, StrE):
                return StrE(f'.ite ({c.lean}) ({t.lean}) ({f.lean})', f'({t.py}) if ({c.py}) else ({f.py})')
            return self.opaque(node)
        if isinstance(node, ast.JoinedStr):
            return self.make_tmpl(merge_text(self.joined(node)))
        if isinstance(node, ast.Tuple):
            items = [self.ev(e) for e in node.elts]
            return Tup(items, '(' + ', '.join(i.py for i in items) + ')')
        if isinstance(node, ast.Call):
            return self.call(node)
        return self.opaque(node)

    def make_tmpl(self, pieces) -> Tmpl:
        leans = [f'.text {lstr(v)}' if k == 'text' else v for k, v in pieces]
        t = Tmpl(pieces, '')
        t.leans = leans
        t.py = self.tmpl_placeholder(leans)
        return t

    def joined(self, node: ast.JoinedStr):
        pieces = []
        for v in node.values:
            if isinstance(v, ast.Constant) and isinstance(v.value, str):
                pieces.append(('text', v.value))
            elif isinstance(v, ast.FormattedValue):
                spec = ''
                ok = v.conversion == -1
                if v.format_spec is not None:
                    if isinstance(v.format_spec, ast.JoinedStr) and all(
                            isinstance(x, ast.Constant) and isinstance(x.value, str) for x in v.format_spec.values):
                        spec = ''.join(x.value for x in v.format_spec.values)
                    else:
                        ok = False
                if not ok:
                    pieces.append(('piece', f'.unsupported {lstr(self.bad("{" + unparse(v) + "}"))}'))
                else:
                    pieces.extend(self.as_piece_list(self.ev(v.value), spec, v.value))
            else:
                pieces.append(('piece', f'.unsupported {lstr(self.bad(unparse(v)))}'))
        return pieces

    def call(self, node: ast.Call) -> Sym:
        f = node.func
        if isinstance(f, ast.Name) and f.id not in self.env and not node.keywords:
            args = [self.ev(a) for a in node.args]
            if f.id == 'cast' and len(args) == 2:
                return args[1]                       # typing.cast: scaffolding
            if f.id == 'abs' and len(args) == 1 and isinstance(args[0], IntE):
                return IntE(f'.abs ({args[0].lean})', f'abs({args[0].py})')
            if f.id == 'int' and len(args) == 1 and isinstance(args[0], IntE):
                return IntE(f'.toInt ({args[0].lean})', f'int({args[0].py})')
            if f.id == 'divmod' and len(args) == 2 and all(isinstance(a, IntE) for a in args):
                a, b = args
                return Tup([IntE(f'.floordiv ({a.lean}) ({b.lean})', f'divmod({a.py}, {b.py})[0]'),
                            IntE(f'.mod ({a.lean}) ({b.lean})', f'divmod({a.py}, {b.py})[1]')],
                           f'divmod({a.py}, {b.py})')
            return Obj(f'{f.id}(' + ', '.join(a.py for a in args) + ')')
        if isinstance(f, ast.Attribute) and f.attr == 'cast' and isinstance(f.value, ast.Name) \
                and f.value.id == 'typing' and len(node.args) == 2 and not node.keywords:
            return self.ev(node.args[1])
        fn = self.ev(f)
        parts = [self.ev(a).py for a in node.args]
        for kw in node.keywords:
            parts.append(f'{kw.arg}={self.ev(kw.value).py}' if kw.arg else f'**{self.ev(kw.value).py}')
        return Obj(f'{paren(fn.py)}(' + ', '.join(parts) + ')')


def is_logger_call(node) -> bool:
    if not (isinstance(node, ast.Expr) and isinstance(node.value, ast.Call)):
        return False
    f = node.value.func
    while isinstance(f, ast.Attribute):
        f = f.value
    return isinstance(f, ast.Name) and f.id in LOGGER_ROOTS


def is_docstring(node) -> bool:
    return isinstance(node, ast.Expr) and isinstance(node.value, ast.Constant) and isinstance(node.value.value, str)


def function_def(fn):
    """(FunctionDef, parameter names) of a function object; raises if the source cannot be read"""
    src = textwrap.dedent(inspect.getsource(fn))
    tree = ast.parse(src)
    fd = next(n for n in tree.body if isinstance(n, (ast.FunctionDef, ast.AsyncFunctionDef)))
    params = [a.arg for a in fd.args.posonlyargs + fd.args.args]
    return fd, params


def bind(ev: Evaluator, target, sym: Sym) -> bool:
    """assignment `target = sym`; False if the target is not a plain name / tuple of names"""
    if isinstance(target, ast.Name):
        ev.env[target.id] = sym
        return True
    if isinstance(target, (ast.Tuple, ast.List)) and all(isinstance(t, ast.Name) for t in target.elts):
        n = len(target.elts)
        if isinstance(sym, Tup) and len(sym.items) == n:
            for t, s in zip(target.elts, sym.items):
                ev.env[t.id] = s
            return True
        if isinstance(sym, Obj):
            for i, t in enumerate(target.elts):
                ev.env[t.id] = ev.classify(Obj(f'{sym.py}[{i}]'))
            return True
    return False


# ---------------------------------------------------------------------------------------------
# format_time_units_for_ems

class FormatEval(Evaluator):
    def classify(self, s: Sym) -> Sym:
        if isinstance(s, Obj):
            if s.py == PERIOD:
                return StrE('.period', s.py)
            if s.py in OFFS:
                return IntE('.offsetTotal', s.py)
        return s


def translate_format(complaints: Complaints):
    """-> (lean text of the returned template, lean text of the program)"""
    where = 'format_time_units_for_ems'
    try:
        import emsarray.utils as U
        fd, params = function_def(U.format_time_units_for_ems)
    except Exception as e:  # noqa
        msg = complaints.add(where, f'source not readable: {type(e).__name__}')
        return '[.unsupported ' + lstr(msg) + ']', '[.unsupported ' + lstr(msg) + ']'
    ev = FormatEval(where, complaints, params[:2])
    steps = []       # ('eval', py) | ('raiseIf', sym) | ('ret', Tmpl) | ('unsupported', text)
    for st in fd.body:
        try:
            if is_docstring(st) or is_logger_call(st) or isinstance(st, ast.Pass):
                continue
            if isinstance(st, (ast.Assign, ast.AnnAssign)):
                value = st.value
                targets = st.targets if isinstance(st, ast.Assign) else [st.target]
                if value is None:
                    continue
                sym = ev.ev(value)
                if isinstance(sym, Obj) and isinstance(value, ast.Call):
                    steps.append(('eval', sym.py))
                elif isinstance(sym, Obj) and not isinstance(value, (ast.Name, ast.Attribute, ast.Subscript, ast.Constant)):
                    steps.append(('eval', sym.py))
                if not all(bind(ev, t, sym) for t in targets):
                    steps.append(('unsupported', ev.bad(unparse(st))))
                continue
            if isinstance(st, ast.Expr):
                sym = ev.ev(st.value)
                steps.append(('eval', sym.py) if isinstance(sym, Obj) else ('unsupported', ev.bad(unparse(st))))
                continue
            if isinstance(st, ast.If) and not st.orelse and len(st.body) == 1 and isinstance(st.body[0], ast.Raise):
                steps.append(('raiseIf', ev.ev(st.test), unparse(st.test)))
                continue
            if isinstance(st, ast.Return):
                sym = ev.ev(st.value) if st.value is not None else NoneE()
                if isinstance(sym, StrE):
                    sym = ev.make_tmpl(merge_text(ev.as_piece_list(sym, '', st.value)))
                if isinstance(sym, Tmpl):
                    steps.append(('ret', sym))
                else:
                    steps.append(('unsupported', ev.bad(unparse(st))))
                break
            steps.append(('unsupported', ev.bad(unparse(st).split(':')[0] + ' ...' if isinstance(
                st, (ast.If, ast.For, ast.While, ast.With, ast.Try)) else unparse(st))))
        except Exception as e:  # noqa
            steps.append(('unsupported', ev.bad(f'{unparse(st)} ({type(e).__name__})')))
    ret = next((s[1] for s in steps if s[0] == 'ret'), None)
    result_ph = ret.py if ret is not None else None

    def atom(py: str) -> str:
        if result_ph is not None:
            py = re.sub(rf'\b{result_ph}\b', '__result', py)
        if py in ATOMS:
            return ATOMS[py]
        return f'(.unsupported {lstr(ev.bad(py))})'

    out = []
    for s in steps:
        if s[0] == 'eval':
            out.append(f'.eval {atom(s[1])}')
        elif s[0] == 'raiseIf':
            c = s[1]
            if isinstance(c, CondNe) and not c.negate:
                out.append(f'.raiseIf (.neObj {atom(c.a)} {atom(c.b)})')
            elif isinstance(c, BoolE):
                out.append(f'.raiseIf (.test ({c.lean}))')
            else:
                out.append(f'.raiseIf (.unsupported {lstr(ev.bad("if " + s[2] + ": raise"))})')
        elif s[0] == 'ret':
            out.append('.ret tuNewUnits')
        else:
            out.append(f'.unsupported {lstr(s[1])}')
    tmpl = llist(ret.leans) if ret is not None else '[.unsupported ' + lstr(ev.bad('no return of an f-string')) + ']'
    return tmpl, llist(out)


# ---------------------------------------------------------------------------------------------
# disable_default_fill_value

GET_VARIABLES_BODY = ('if isinstance(__p0, xarray.Dataset):\n    return list(__p0.variables.values())\n'
                      'else:\n    return [__p0.variable]')


def canonical_body(fd, params) -> str:
    """text of a function body, docstring dropped, parameters renamed by position"""
    import copy
    fd = copy.deepcopy(fd)
    body = [s for s in fd.body if not is_docstring(s)]
    ren = {p: f'__p{i}' for i, p in enumerate(params)}

    class R(ast.NodeTransformer):
        def visit_Name(self, n):
            if n.id in ren:
                return ast.Name(id=ren[n.id], ctx=n.ctx)
            return n
    return '\n'.join(ast.unparse(R().visit(s)) for s in body)


def translate_fill(complaints: Complaints) -> str:
    where = 'disable_default_fill_value'
    try:
        import emsarray.utils as U
        fd, params = function_def(U.disable_default_fill_value)
        body = [s for s in fd.body if not is_docstring(s) and not is_logger_call(s)]
    except Exception as e:  # noqa
        return f'⟨.unsupported {lstr(complaints.add(where, f"source not readable: {type(e).__name__}"))}, []⟩'
    ev = Evaluator(where, complaints, params[:1])
    if not (len(body) == 1 and isinstance(body[0], ast.For) and not body[0].orelse and isinstance(body[0].target, ast.Name)):
        return f'⟨.unsupported {lstr(ev.bad("body is not a single for loop over the variables"))}, []⟩'
    loop = body[0]
    over = ev.ev(loop.iter)
    over_lean = None
    if isinstance(over, Obj) and over.py == '_get_variables(__p0)':
        try:
            import emsarray.utils as U
            hfd, hparams = function_def(U._get_variables)
            if canonical_body(hfd, hparams) == GET_VARIABLES_BODY:
                over_lean = '.allVariables'
            else:
                over_lean = f'.unsupported {lstr(ev.bad("_get_variables is not [all variables of a dataset | the variable of an array]"))}'
        except Exception as e:  # noqa
            over_lean = f'.unsupported {lstr(ev.bad(f"_get_variables not readable: {type(e).__name__}"))}'
    else:
        over_lean = f'.unsupported {lstr(ev.bad("for ... in " + unparse(loop.iter)))}'
    ev.env[loop.target.id] = Obj('__v')
    PROMOTED = 'maybe_promote(__v.dtype)[0]'

    def cond(node) -> str:
        if isinstance(node, ast.BoolOp):
            name = 'and' if isinstance(node.op, ast.And) else 'or'
            parts = [cond(v) for v in node.values]
            acc = parts[-1]
            for p in reversed(parts[:-1]):
                acc = f'.{name} ({p}) ({acc})'
            return acc
        if isinstance(node, ast.UnaryOp) and isinstance(node.op, ast.Not):
            return f'.not ({cond(node.operand)})'
        if isinstance(node, ast.Compare) and len(node.ops) == 1:
            a, b = ev.ev(node.left), ev.ev(node.comparators[0])
            op = node.ops[0]
            if isinstance(op, (ast.Eq, ast.NotEq)) and isinstance(a, Obj) and isinstance(b, Obj) \
                    and {a.py, b.py} == {'__v.dtype', PROMOTED}:
                return '.promoteStable' if isinstance(op, ast.Eq) else '.not (.promoteStable)'
            if isinstance(op, (ast.In, ast.NotIn)) and isinstance(a, StrE) and a.literal is not None and isinstance(b, Obj):
                base = None
                if b.py == '__v.encoding':
                    base = f'.encHas {lstr(a.literal)}'
                elif b.py == '__v.attrs':
                    base = f'.attrHas {lstr(a.literal)}'
                if base is not None:
                    return base if isinstance(op, ast.In) else f'.not ({base})'
            if isinstance(op, (ast.In, ast.NotIn)) and isinstance(a, Obj) and a.py == '__v.dtype.kind' \
                    and isinstance(b, StrE) and b.literal is not None:
                base = f'.kindIn {lstr(b.literal)}'
                return base if isinstance(op, ast.In) else f'.not ({base})'
        return f'.unsupported {lstr(ev.bad(unparse(node)))}'

    stmts = []
    for st in loop.body:
        try:
            if is_docstring(st) or is_logger_call(st) or isinstance(st, ast.Pass):
                continue
            if isinstance(st, (ast.Assign, ast.AnnAssign)) and st.value is not None:
                targets = st.targets if isinstance(st, ast.Assign) else [st.target]
                if all(isinstance(t, (ast.Name, ast.Tuple)) for t in targets):
                    sym = ev.ev(st.value)
                    if all(bind(ev, t, sym) for t in targets):
                        continue
            if isinstance(st, ast.If) and not st.orelse and len(st.body) == 1 and isinstance(st.body[0], ast.Assign) \
                    and len(st.body[0].targets) == 1 and isinstance(st.body[0].targets[0], ast.Subscript):
                tgt = st.body[0].targets[0]
                holder, key, val = ev.ev(tgt.value), ev.ev(tgt.slice), ev.ev(st.body[0].value)
                if isinstance(holder, Obj) and holder.py == '__v.encoding' and isinstance(key, StrE) \
                        and key.literal is not None and isinstance(val, NoneE):
                    act = f'.setEncNone {lstr(key.literal)}'
                else:
                    act = f'.unsupported {lstr(ev.bad(unparse(st.body[0])))}'
                stmts.append(f'.when ({cond(st.test)}) ({act})')
                continue
            stmts.append(f'.unsupported {lstr(ev.bad(unparse(st)))}')
        except Exception as e:  # noqa
            stmts.append(f'.unsupported {lstr(ev.bad(f"{unparse(st)} ({type(e).__name__})"))}')
    return f'⟨{over_lean}, {llist(stmts)}⟩'


# ---------------------------------------------------------------------------------------------
# Convention.time_coordinate

def property_function(cls, name):
    d = cls.__dict__[name]
    for attr in ('func', 'fget', '__func__'):
        if hasattr(d, attr) and callable(getattr(d, attr)):
            return getattr(d, attr)
    return d


def is_raise_of(node, exc: str) -> bool:
    if not isinstance(node, ast.Raise) or node.exc is None:
        return False
    e = node.exc.func if isinstance(node.exc, ast.Call) else node.exc
    while isinstance(e, ast.Attribute):
        if e.attr == exc:
            return True
        e = e.value
    return isinstance(e, ast.Name) and e.id == exc


def translate_time_coordinate(cls, complaints: Complaints) -> str:
    where = f'{getattr(cls, "__name__", "?")}.time_coordinate'
    try:
        fd, params = function_def(property_function(cls, 'time_coordinate'))
        body = [s for s in fd.body if not is_docstring(s) and not is_logger_call(s)]
    except Exception as e:  # noqa
        return f'.unsupported {lstr(complaints.add(where, f"source not readable: {type(e).__name__}"))}'
    ev = Evaluator(where, complaints, params[:1])
    VARS = ['__p0.dataset.variables', '__p0.dataset.variables.keys()']

    def unsupported(text):
        return f'.unsupported {lstr(ev.bad(text))}'
    try:
        # ---- the generic search -------------------------------------------------------------
        if len(body) == 2 and isinstance(body[0], ast.For) and isinstance(body[0].target, ast.Name) \
                and not body[0].orelse and is_raise_of(body[1], 'NoSuchCoordinateError'):
            loop = body[0]
            it = ev.ev(loop.iter)
            if not (isinstance(it, Obj) and it.py in VARS):
                return unsupported('for ... in ' + unparse(loop.iter))
            ev.env[loop.target.id] = Obj('__n')
            VAR = '__p0.dataset[__n]'
            conds = []

            def cond(node):
                if isinstance(node, ast.BoolOp) and isinstance(node.op, ast.And):
                    for v in node.values:
                        cond(v)
                    return
                if isinstance(node, ast.Compare) and len(node.ops) == 1:
                    a, b, op = ev.ev(node.left), ev.ev(node.comparators[0]), node.ops[0]
                    if isinstance(op, ast.In) and isinstance(a, StrE) and a.literal is not None and isinstance(b, Obj):
                        if b.py == f'{VAR}.encoding':
                            conds.append(f'.encHas {lstr(a.literal)}')
                            return
                        m = re.fullmatch(re.escape(f'{VAR}.encoding[') + r"'([^'\\]*)'\]", b.py)
                        if m:
                            conds.append(f'.encContains {lstr(a.literal)} {lstr(m.group(1))}')
                            return
                    if isinstance(op, ast.Eq) and isinstance(a, Obj) and isinstance(b, Obj) \
                            and {a.py, b.py} == {f'{VAR}.dtype.type', 'numpy.datetime64'}:
                        conds.append('.isDatetime64')
                        return
                conds.append(unsupported(unparse(node)))

            def block(stmts) -> bool:
                """a block that is: assignments, then either `return variable` or one nested `if`"""
                stmts = [s for s in stmts if not is_docstring(s) and not is_logger_call(s) and not isinstance(s, ast.Pass)]
                for k, st in enumerate(stmts):
                    last = k == len(stmts) - 1
                    if isinstance(st, (ast.Assign, ast.AnnAssign)) and st.value is not None and not last:
                        targets = st.targets if isinstance(st, ast.Assign) else [st.target]
                        sym = ev.ev(st.value)
                        if all(bind(ev, t, sym) for t in targets):
                            continue
                    if last and isinstance(st, ast.Return) and st.value is not None:
                        r = ev.ev(st.value)
                        if isinstance(r, Obj) and r.py == VAR:
                            return True
                    if last and isinstance(st, ast.If) and not st.orelse:
                        cond(st.test)
                        return block(st.body)
                    conds.append(unsupported(unparse(st).split('\n')[0]))
                    return False
                conds.append(unsupported('empty block'))
                return False
            block(loop.body)
            return f'.search {llist(conds)}'
        # ---- a variable of a fixed name -------------------------------------------------------
        if len(body) == 3 and isinstance(body[0], ast.Assign) and len(body[0].targets) == 1 \
                and isinstance(body[0].targets[0], ast.Name) and isinstance(body[1], ast.If) and not body[1].orelse \
                and len(body[1].body) == 1 and is_raise_of(body[1].body[0], 'NoSuchCoordinateError') \
                and isinstance(body[2], ast.Return) and body[2].value is not None:
            name = ev.ev(body[0].value)
            bind(ev, body[0].targets[0], name)
            test = body[1].test
            ok = False
            if isinstance(test, ast.Compare) and len(test.ops) == 1 and isinstance(test.ops[0], ast.NotIn):
                a, b = ev.ev(test.left), ev.ev(test.comparators[0])
                ok = isinstance(a, StrE) and a.literal is not None and isinstance(b, Obj) and b.py in VARS \
                    and isinstance(name, StrE) and a.literal == name.literal
            r = ev.ev(body[2].value)
            if ok and isinstance(r, Obj) and r.py == f'__p0.dataset[{name.literal!r}]':
                return f'.named {lstr(name.literal)}'
        return unsupported('body is neither the search loop nor the fixed-name lookup: ' + unparse(fd).split('\n')[-1])
    except Exception as e:  # noqa
        return unsupported(f'translator error {type(e).__name__}')


def time_coordinate_owners(complaints: Complaints):
    """(convention class, class whose `time_coordinate` it uses) for every registered convention"""
    try:
        from emsarray.conventions import _registry
        out = []
        for cls in _registry.entry_point_conventions():
            owner = next((k.__name__ for k in cls.__mro__ if 'time_coordinate' in k.__dict__), '?')
            out.append((cls.__name__, owner))
        return sorted(out)
    except Exception as e:  # noqa
        complaints.add('time_coordinate owners', f'registry not readable: {type(e).__name__}')
        return [('?', '?')]


# ---------------------------------------------------------------------------------------------
# fix_time_units_for_ems

def translate_fix(complaints: Complaints) -> str:
    where = 'fix_time_units_for_ems'
    try:
        import emsarray.utils as U
        fd, params = function_def(U.fix_time_units_for_ems)
        body = [s for s in fd.body if not is_docstring(s) and not is_logger_call(s)]
        default_calendar = getattr(U, 'DEFAULT_CALENDAR', None)
    except Exception as e:  # noqa
        return '[.unsupported ' + lstr(complaints.add(where, f'source not readable: {type(e).__name__}')) + ']'
    ev = Evaluator(where, complaints, params[:2])
    steps = []
    VAR = '__ds.variables[str(__p1)]'

    def val(sym: Sym, node) -> str:
        if isinstance(sym, Obj):
            m = re.fullmatch(re.escape(VAR) + r"\.getncattr\('([^'\\]*)'\)", sym.py)
            if m:
                return f'.attr {lstr(m.group(1))}'
            m = re.fullmatch(re.escape(VAR) + r"\.getncattr\('([^'\\]*)'\) or DEFAULT_CALENDAR", sym.py)
            if m and isinstance(default_calendar, str):
                return f'.attrOr {lstr(m.group(1))} {lchars(default_calendar)}'
        return f'.unsupported {lstr(ev.bad(sym.py if isinstance(sym, Obj) else unparse(node)))}'

    def value(node) -> str:
        """a FixVal: attribute reads, `or DEFAULT_CALENDAR`, format_time_units_for_ems(u, c)"""
        if isinstance(node, ast.Name) and node.id in ev.env and isinstance(ev.env[node.id], Obj) \
                and ev.env[node.id].py.startswith('__fixval:'):
            return ev.env[node.id].py[len('__fixval:'):]
        if isinstance(node, ast.Call) and isinstance(node.func, ast.Name) and node.func.id == 'cast' \
                and len(node.args) == 2 and not node.keywords:
            return value(node.args[1])
        if isinstance(node, ast.Call) and isinstance(node.func, ast.Name) and node.func.id == 'format_time_units_for_ems' \
                and node.func.id not in ev.env and len(node.args) == 2 and not node.keywords:
            return f'.format ({value(node.args[0])}) ({value(node.args[1])})'
        if isinstance(node, ast.BoolOp) and isinstance(node.op, ast.Or) and len(node.values) == 2:
            a = ev.ev(node.values[0])
            b = node.values[1]
            if isinstance(a, Obj) and isinstance(b, ast.Name) and b.id == 'DEFAULT_CALENDAR' and b.id not in ev.env:
                return val(Obj(f'{a.py} or DEFAULT_CALENDAR'), node)
        return val(ev.ev(node), node)

    def walk(stmts, opened: bool):
        for st in stmts:
            try:
                if is_docstring(st) or is_logger_call(st) or isinstance(st, ast.Pass):
                    continue
                if isinstance(st, ast.With) and len(st.items) == 1 and isinstance(st.items[0].optional_vars, ast.Name) and not opened:
                    ctx = ev.ev(st.items[0].context_expr)
                    if isinstance(ctx, Obj) and ctx.py in ("netCDF4.Dataset(__p0, 'r+')", "netCDF4.Dataset(__p0, mode='r+')"):
                        steps.append('.openRW')
                        ev.env[st.items[0].optional_vars.id] = Obj('__ds')
                        walk(st.body, True)
                        continue
                if isinstance(st, (ast.Assign, ast.AnnAssign)) and st.value is not None:
                    targets = st.targets if isinstance(st, ast.Assign) else [st.target]
                    if len(targets) == 1 and isinstance(targets[0], ast.Name):
                        sym = ev.ev(st.value)
                        if isinstance(sym, Obj) and sym.py == VAR:
                            ev.env[targets[0].id] = sym
                            continue
                        # a local holding an attribute value: remembered as the FixVal it denotes
                        ev.env[targets[0].id] = Obj('__fixval:' + value(st.value))
                        continue
                if isinstance(st, ast.Expr) and isinstance(st.value, ast.Call):
                    c = st.value
                    f = ev.ev(c.func)
                    if isinstance(f, Obj) and f.py == f'{VAR}.setncattr' and len(c.args) == 2 and not c.keywords:
                        k = ev.ev(c.args[0])
                        if isinstance(k, StrE) and k.literal is not None:
                            steps.append(f'.write {lstr(k.literal)} ({value(c.args[1])})')
                            continue
                    if isinstance(f, Obj) and f.py == '__ds.sync' and not c.args and not c.keywords:
                        steps.append('.sync')
                        continue
                steps.append(f'.unsupported {lstr(ev.bad(unparse(st).splitlines()[0] if unparse(st) else "?"))}')
            except Exception as e:  # noqa
                steps.append(f'.unsupported {lstr(ev.bad(f"{unparse(st)} ({type(e).__name__})"))}')
    walk(body, False)
    return llist(steps)


# ---------------------------------------------------------------------------------------------

def _safe(fn, complaints: Complaints, fallback: str, where: str) -> str:
    try:
        return fn(complaints)
    except Exception as e:  # noqa
        return fallback.replace('%MSG%', lstr(complaints.add(where, f'translator error {type(e).__name__}: {e}')))


def render() -> str:
    complaints = Complaints()
    try:
        tmpl, prog = translate_format(complaints)
    except Exception as e:  # noqa
        msg = lstr(complaints.add('format_time_units_for_ems', f'translator error {type(e).__name__}: {e}'))
        tmpl, prog = f'[.unsupported {msg}]', f'[.unsupported {msg}]'
    fill = _safe(translate_fill, complaints, '⟨.unsupported %MSG%, []⟩', 'disable_default_fill_value')
    fix = _safe(translate_fix, complaints, '[.unsupported %MSG%]', 'fix_time_units_for_ems')
    tcs = {}
    try:
        from emsarray.conventions._base import Convention
        from emsarray.conventions.shoc import ShocSimple, ShocStandard
        classes = {'Generic': Convention, 'ShocStandard': ShocStandard, 'ShocSimple': ShocSimple}
    except Exception as e:  # noqa
        classes = {}
        complaints.add('time_coordinate', f'classes not importable: {type(e).__name__}')
    for key in ('Generic', 'ShocStandard', 'ShocSimple'):
        if key in classes:
            tcs[key] = _safe(lambda c, k=key: translate_time_coordinate(classes[k], c), complaints,
                             '.unsupported %MSG%', f'{key}.time_coordinate')
        else:
            tcs[key] = '.unsupported "class not importable"'
    owners = time_coordinate_owners(complaints)
    lines = [
        '/- GENERATED by harness/trans_timeunits.py from the source text of emsarray (utils.py, conventions/_base.py,',
        '   conventions/shoc.py) of the tree under check. Do not edit. -/',
        'import EmsModel.Core.TimeUnitsSrc',
        'namespace Ems.Gen',
        'open Ems.TimeUnitsSrc',
        '',
        '/-- the f-string `format_time_units_for_ems` returns, locals inlined, piece by piece in source order -/',
        f'def tuNewUnits : Template := {tmpl}',
        '/-- `format_time_units_for_ems(units, calendar)`: the objects it builds, its guard and its return, in statement order -/',
        f'def tuFormatProg : List Step := {prog}',
        '/-- `disable_default_fill_value`: what it loops over and, per variable, the condition tree and the action -/',
        f'def tuFillProg : FillProg := {fill}',
        '/-- `Convention.time_coordinate` (conventions/_base.py) -/',
        f'def tuTimeCoordGeneric : TcProg := {tcs["Generic"]}',
        '/-- `ShocStandard.time_coordinate` (conventions/shoc.py) -/',
        f'def tuTimeCoordShocStandard : TcProg := {tcs["ShocStandard"]}',
        '/-- `ShocSimple.time_coordinate` (conventions/shoc.py) -/',
        f'def tuTimeCoordShocSimple : TcProg := {tcs["ShocSimple"]}',
        '/-- for every registered convention class, the class whose `time_coordinate` it inherits -/',
        'def tuTimeCoordOwners : List (String × String) := '
        + llist(f'({lstr(a)}, {lstr(b)})' for a, b in owners),
        '/-- `fix_time_units_for_ems(dataset_path, variable_name)`: file operations in statement order -/',
        f'def tuFixSteps : List FixStep := {fix}',
        '/-- what the translator could not render (each is an `unsupported` node above) -/',
        f'def tuComplaints : List String := {llist(lstr(c) for c in complaints.items)}',
        '',
        'end Ems.Gen',
        '',
    ]
    return '\n'.join(lines)


if __name__ == '__main__':
    import sys
    sys.path.insert(0, str(VERIF))
    print(render())
