"""Systematic small mutations of the modelled functions, as a measure of what the checks detect.

The seeded changes of DESIGN.md section 12 are written by agents and are elaborate.  This tool covers the other
end: *every* modelled function (harness/modelmap.py) gets a handful of classic one-token slips - a comparison
turned round, an off-by-one, `and` for `or`, a dropped `sort`, two arguments swapped, a statement lost - and
for each mutant that the repository's own test-suite does not notice, the registered quick checks of the
properties resting on that function are run against it.

  python -m harness.mutate plan   [--per-function N] [--out plan.json]     enumerate the mutants
  python -m harness.mutate run    plan.json --workers K --out results.jsonl [--only C07,C08]
  python -m harness.mutate report results.jsonl

Nothing here touches /repo or /verif: every worker has its own git worktree of /repo (under /tmp/mut/wK/repo)
and its own copy of /verif including the Lean build directory (under /tmp/mut/wK/verif), so generated tables,
pipelines and evidence of concurrent runs cannot meet.  A surviving mutant is not by itself a miss: it may be
equivalent, or change behaviour no property speaks about; survivors are triaged by hand (section 12).
"""
from __future__ import annotations

import ast
import copy
import hashlib
import json
import os
import pathlib
import random
import shutil
import subprocess
import sys
import time
import xml.etree.ElementTree as ET

VERIF = pathlib.Path(__file__).resolve().parent.parent
sys.path.insert(0, str(VERIF))
from harness import modelmap  # noqa: E402

ENV = dict(os.environ, PYTHONWARNINGS='ignore', MPLBACKEND='Agg', PYTHONDONTWRITEBYTECODE='1')
ROOT = pathlib.Path('/tmp/mut')

CMP_SWAP = {ast.Lt: ast.LtE, ast.LtE: ast.Lt, ast.Gt: ast.GtE, ast.GtE: ast.Gt, ast.Eq: ast.NotEq, ast.NotEq: ast.Eq,
            ast.In: ast.NotIn, ast.NotIn: ast.In, ast.Is: ast.IsNot, ast.IsNot: ast.Is}
BIN_SWAP = {ast.Add: ast.Sub, ast.Sub: ast.Add, ast.Mult: ast.FloorDiv, ast.FloorDiv: ast.Mult,
            ast.BitAnd: ast.BitOr, ast.BitOr: ast.BitAnd}
DROP_CALLS = {'sorted', 'sort', 'unique', 'abs', 'copy', 'sort_values', 'reversed'}


class Site:
    def __init__(self, op, node_index, detail):
        self.op, self.node_index, self.detail = op, node_index, detail


def _strip_annotations(fn: ast.AST) -> None:
    """type annotations are not behaviour: drop them (from the mutant's text as well) so that no slip lands in one"""
    for node in ast.walk(fn):
        if isinstance(node, (ast.FunctionDef, ast.AsyncFunctionDef)):
            node.returns = None
            for a in node.args.posonlyargs + node.args.args + node.args.kwonlyargs + \
                    [x for x in (node.args.vararg, node.args.kwarg) if x is not None]:
                a.annotation = None


def _sites(fn: ast.AST) -> list:
    """every (operator, node) at which a one-token slip can be made inside one function"""
    out = []
    for idx, node in enumerate(ast.walk(fn)):
        if isinstance(node, ast.Compare) and len(node.ops) == 1 and type(node.ops[0]) in CMP_SWAP:
            out.append(Site('cmp', idx, type(node.ops[0]).__name__))
        elif isinstance(node, ast.BinOp) and type(node.op) in BIN_SWAP:
            out.append(Site('bin', idx, type(node.op).__name__))
        elif isinstance(node, ast.BoolOp):
            out.append(Site('bool', idx, type(node.op).__name__))
        elif isinstance(node, ast.UnaryOp) and isinstance(node.op, (ast.Not, ast.Invert, ast.USub)):
            out.append(Site('unary-drop', idx, type(node.op).__name__))
        elif isinstance(node, ast.Constant) and isinstance(node.value, int) and not isinstance(node.value, bool) \
                and -3 <= node.value <= 8:
            out.append(Site('const+1', idx, repr(node.value)))
            if node.value != 0:
                out.append(Site('const-1', idx, repr(node.value)))
        elif isinstance(node, ast.Constant) and isinstance(node.value, bool):
            out.append(Site('bool-const', idx, repr(node.value)))
        elif isinstance(node, ast.Call):
            name = node.func.attr if isinstance(node.func, ast.Attribute) else getattr(node.func, 'id', None)
            if name in DROP_CALLS and (node.args or isinstance(node.func, ast.Attribute)):
                out.append(Site('drop-call', idx, name))
            if len(node.args) == 2 and not node.keywords and not any(isinstance(a, ast.Starred) for a in node.args):
                out.append(Site('swap-args', idx, name or '?'))
        elif isinstance(node, ast.Subscript) and isinstance(node.slice, ast.Slice) \
                and (node.slice.lower is not None or node.slice.upper is not None):
            out.append(Site('slice-open', idx, ''))
        elif isinstance(node, (ast.If,)) and not node.orelse and len(node.body) == 1 \
                and isinstance(node.body[0], (ast.Raise, ast.Continue, ast.Return)):
            out.append(Site('drop-guard', idx, type(node.body[0]).__name__))
        elif isinstance(node, (ast.AugAssign,)):
            out.append(Site('drop-stmt', idx, 'AugAssign'))
    return out


def _apply(fn: ast.AST, site: Site) -> bool:
    """mutate `fn` in place at `site`; False if the site cannot be mutated after all"""
    for idx, node in enumerate(ast.walk(fn)):
        if idx != site.node_index:
            continue
        if site.op == 'cmp':
            node.ops = [CMP_SWAP[type(node.ops[0])]()]
        elif site.op == 'bin':
            node.op = BIN_SWAP[type(node.op)]()
        elif site.op == 'bool':
            node.op = ast.Or() if isinstance(node.op, ast.And) else ast.And()
        elif site.op == 'unary-drop':
            _replace_child(fn, node, node.operand)
        elif site.op == 'const+1':
            node.value = node.value + 1
        elif site.op == 'const-1':
            node.value = node.value - 1
        elif site.op == 'bool-const':
            node.value = not node.value
        elif site.op == 'drop-call':
            inner = node.args[0] if node.args else node.func.value
            _replace_child(fn, node, inner)
        elif site.op == 'swap-args':
            node.args = [node.args[1], node.args[0]]
        elif site.op == 'slice-open':
            if node.slice.lower is not None:
                node.slice.lower = None
            else:
                node.slice.upper = None
        elif site.op in ('drop-guard', 'drop-stmt'):
            _replace_child(fn, node, ast.Pass())
        return True
    return False


def _replace_child(root: ast.AST, old: ast.AST, new: ast.AST) -> None:
    for parent in ast.walk(root):
        for field, value in ast.iter_fields(parent):
            if value is old:
                setattr(parent, field, new)
                return
            if isinstance(value, list):
                for i, v in enumerate(value):
                    if v is old:
                        value[i] = new
                        return


def plan(per_function: int, seed: int = 0, skip=()) -> list:
    rng = random.Random(seed)
    repo = pathlib.Path('/repo')
    mutants = []
    seen_fn = set()
    for file, qual, leans, props in modelmap.MAP:
        if (file, qual) in seen_fn:
            continue
        seen_fn.add((file, qual))
        tree = ast.parse((repo / file).read_text())
        fn = modelmap.find_function(tree, qual)
        if fn is None:
            continue
        _strip_annotations(fn)
        sites = _sites(fn)
        # spread the sample over the operator kinds
        by_op: dict = {}
        for s in sites:
            by_op.setdefault(s.op, []).append(s)
        chosen = []
        ops = sorted(by_op)
        rng.shuffle(ops)
        while len(chosen) < per_function and any(by_op.values()):
            for op in ops:
                if by_op[op] and len(chosen) < per_function:
                    chosen.append(by_op[op].pop(rng.randrange(len(by_op[op]))))
        all_props = sorted({p for f2, q2, _l, ps in modelmap.MAP if (f2, q2) == (file, qual) for p in ps})
        for s in chosen:
            mid = hashlib.sha1(f'{file}:{qual}:{s.op}:{s.node_index}'.encode()).hexdigest()[:10]
            if mid in skip:
                continue
            mutants.append({'id': mid, 'file': file, 'function': qual, 'op': s.op, 'node_index': s.node_index,
                            'detail': s.detail, 'properties': all_props})
    return mutants


def mutated_source(repo: pathlib.Path, m: dict):
    src = (repo / m['file']).read_text()
    tree = ast.parse(src)
    fn = modelmap.find_function(tree, m['function'])
    _strip_annotations(fn)
    before = ast.unparse(fn)
    if not _apply(fn, Site(m['op'], m['node_index'], m['detail'])):
        return None, None
    ast.fix_missing_locations(tree)
    after = ast.unparse(fn)
    if before == after:
        return None, None
    # replace the function's text only, leaving the rest of the file as it is
    orig = modelmap.find_function(ast.parse(src), m['function'])
    lines = src.splitlines(keepends=True)
    start = (orig.decorator_list[0].lineno if orig.decorator_list else orig.lineno) - 1
    end = orig.end_lineno
    indent = ' ' * orig.col_offset
    new_text = ''.join(indent + l + '\n' for l in after.splitlines())
    diff_hint = [l for l in after.splitlines() if l not in before.splitlines()][:3]
    return ''.join(lines[:start]) + new_text + ''.join(lines[end:]), diff_hint


def _sh(cmd, cwd=None, env=None, timeout=3600):
    p = subprocess.run(cmd, cwd=cwd, env=env or ENV, capture_output=True, text=True, timeout=timeout)
    out = '\n'.join(l for l in (p.stdout + p.stderr).splitlines() if 'conda.cli' not in l)
    return p.returncode, out


def passed_tests(repo: pathlib.Path, junit: pathlib.Path) -> set:
    env = dict(ENV, PYTHONPATH=str(repo / 'src'))
    _sh(['/venv/bin/python', '-m', 'pytest', '-q', '-p', 'no:cacheprovider', '--timeout=600', '-x' if False else '-q',
         '--continue-on-collection-errors', f'--junitxml={junit}'], cwd=repo, env=env, timeout=1800)
    ok = set()
    try:
        for tc in ET.parse(junit).getroot().iter('testcase'):
            if not any(ch.tag in ('failure', 'error', 'skipped') for ch in tc):
                ok.add(f"{tc.get('classname')}::{tc.get('name')}")
    except Exception:
        pass
    return ok


def setup_worker(k: int) -> pathlib.Path:
    w = ROOT / f'w{k}'
    if not (w / 'repo').exists():
        w.mkdir(parents=True, exist_ok=True)
        _sh(['git', '-C', '/repo', 'worktree', 'add', '--detach', str(w / 'repo')])
    if not (w / 'verif').exists():
        # the committed state of /verif (work in progress in the working tree stays out), plus the Lean build
        # directory so that nothing has to be compiled twice
        (w / 'verif').mkdir(parents=True)
        subprocess.run(f'git -C {VERIF} archive HEAD -- harness lean check known_findings.json properties.jsonl '
                       f'| tar -x -C {w / "verif"}', shell=True, check=True)
        _sh(['rsync', '-a', str(VERIF / 'lean' / '.lake'), str(w / 'verif' / 'lean') + '/'])
        (w / 'verif' / 'evidence' / 'replays').mkdir(parents=True, exist_ok=True)
    return w


def run_one(w: pathlib.Path, m: dict, baseline: set, only) -> dict:
    repo = w / 'repo'
    _sh(['git', 'checkout', '--', '.'], cwd=repo)
    src, hint = mutated_source(repo, m)
    res = dict(m)
    if src is None:
        res['status'] = 'not-applicable'
        return res
    res['hint'] = hint
    (repo / m['file']).write_text(src)
    t0 = time.time()
    rc, out = _sh(['/venv/bin/python', '-c', 'import emsarray, emsarray.cli, emsarray.operations.triangulate'],
                  env=dict(ENV, PYTHONPATH=str(repo / 'src')))
    if rc != 0:
        res['status'] = 'does-not-import'
        _sh(['git', 'checkout', '--', '.'], cwd=repo)
        return res
    now = passed_tests(repo, w / 'junit.xml')
    lost = sorted(baseline - now)
    res['tests_lost'] = len(lost)
    if lost:
        res['status'] = 'killed-by-tests'
        res['lost_example'] = lost[:2]
        _sh(['git', 'checkout', '--', '.'], cwd=repo)
        return res
    verdicts = {}
    for prop in m['properties']:
        if only and prop not in only:
            continue
        env = dict(ENV, EMSARRAY_VERIF_SRC=str(repo / 'src'))
        rc, out = _sh([str(w / 'verif' / 'check'), prop, '--tier', 'quick'], cwd=w / 'verif', env=env, timeout=3600)
        vio = [l for l in out.splitlines() if l.startswith('VIOLATION')]
        kind = 'exit0' if rc == 0 else ('crash' if rc == 2 else ('nfi' if vio and 'no-failing-input-found' in vio[0] else 'caught'))
        sig = None
        if vio:
            import re
            mm = re.search(r'replay=(\S+)', vio[0])
            if mm:
                try:
                    sig = json.loads(pathlib.Path(mm.group(1)).read_text()).get('signature')
                except Exception:
                    pass
        verdicts[prop] = {'rc': rc, 'kind': kind, 'signature': sig}
        if kind == 'caught':
            break           # one property reporting it with a failing input is enough
    res['verdicts'] = verdicts
    kinds = {v['kind'] for v in verdicts.values()}
    res['status'] = 'caught' if 'caught' in kinds else ('nfi' if 'nfi' in kinds else ('crash' if 'crash' in kinds else 'survived'))
    res['seconds'] = round(time.time() - t0, 1)
    _sh(['git', 'checkout', '--', '.'], cwd=repo)
    return res


def worker(k: int, plan_path: str, out_path: str, n_workers: int, only) -> None:
    w = setup_worker(k)
    mutants = json.loads(pathlib.Path(plan_path).read_text())
    done = set()
    if pathlib.Path(out_path).exists():
        for line in pathlib.Path(out_path).read_text().splitlines():
            try:
                done.add(json.loads(line)['id'])
            except Exception:
                pass
    _sh(['git', 'checkout', '--', '.'], cwd=w / 'repo')
    baseline = passed_tests(w / 'repo', w / 'junit.xml')
    for i, m in enumerate(mutants):
        if i % n_workers != k or m['id'] in done:
            continue
        if only and not (set(m['properties']) & only):
            continue
        try:
            res = run_one(w, m, baseline, only)
        except Exception as e:  # noqa
            res = dict(m, status='tool-error', error=str(e)[:300])
        with open(out_path, 'a') as f:
            f.write(json.dumps(res) + '\n')


def report(path: str) -> None:
    rows = [json.loads(l) for l in pathlib.Path(path).read_text().splitlines() if l.strip()]
    by = {}
    for r in rows:
        by.setdefault(r['status'], []).append(r)
    print({k: len(v) for k, v in sorted(by.items())})
    live = [r for r in rows if r['status'] in ('caught', 'nfi', 'survived', 'crash')]
    print(f'{len(live)} mutants the test-suite does not notice: '
          + ', '.join(f"{k} {len([r for r in live if r['status'] == k])}" for k in ('caught', 'nfi', 'crash', 'survived')))
    for r in rows:
        if r['status'] in ('survived', 'crash', 'nfi'):
            print(f"{r['status']:9s} {r['id']} {r['file'].split('/')[-1]}:{r['function']} [{r['op']} {r['detail']}] "
                  f"props={','.join(r['properties'])} :: {' | '.join(r.get('hint') or [])[:160]}")


if __name__ == '__main__':
    cmd = sys.argv[1]
    args = sys.argv[2:]

    def opt(name, default=None):
        return args[args.index(name) + 1] if name in args else default
    if cmd == 'plan':
        skip = set()
        if opt('--skip-results'):
            skip = {json.loads(l)['id'] for l in pathlib.Path(opt('--skip-results')).read_text().splitlines() if l.strip()}
        ms = plan(int(opt('--per-function', '4')), int(opt('--seed', '0')), skip)
        out = opt('--out', '/tmp/mut/plan.json')
        pathlib.Path(out).parent.mkdir(parents=True, exist_ok=True)
        pathlib.Path(out).write_text(json.dumps(ms, indent=0))
        print(len(ms), 'mutants planned ->', out)
    elif cmd == 'run':
        n = int(opt('--workers', '8'))
        only = set(opt('--only', '').split(',')) - {''}
        procs = [subprocess.Popen([sys.executable, '-m', 'harness.mutate', 'worker', str(k), args[0], opt('--out'), str(n),
                                   ','.join(sorted(only))], cwd=VERIF, env=ENV) for k in range(n)]
        for p in procs:
            p.wait()
    elif cmd == 'worker':
        worker(int(args[0]), args[1], args[2], int(args[3]), set(args[4].split(',')) - {''} if len(args) > 4 else set())
    elif cmd == 'report':
        report(args[0])
