"""
T — translator for declarative data.

Everything in emsarray that is a *table or a constant* and that a theorem depends on is
read from the live imported objects of /repo's working tree on every run and re-emitted
as lean/EmsModel/Gen/Tables.lean.  The file is rewritten only when its content changes,
so an unchanged tree costs no rebuild; an edit to a table makes `lake build` re-check
every theorem that mentions it.
"""
from __future__ import annotations

import fcntl
import pathlib
import warnings

warnings.simplefilter('ignore')

VERIF = pathlib.Path(__file__).resolve().parent.parent
OUT = VERIF / 'lean' / 'EmsModel' / 'Gen' / 'Tables.lean'


def lean_str(s: str) -> str:
    return '"' + s.replace('\\', '\\\\').replace('"', '\\"').replace('\n', '\\n') + '"'


def lean_list(items, f=lean_str) -> str:
    return '[' + ', '.join(f(i) for i in items) + ']'


def collect() -> dict:
    """Live-object introspection. Every value comes from the imported working tree."""
    import emsarray
    from emsarray.conventions import _base, _registry, arakawa_c, grid, shoc, ugrid
    t: dict = {}
    spec = _base.Specificity
    t['specificity'] = {m.name: int(m.value) for m in spec}
    # entry-point order, as the registry sees it
    eps = list(_registry.entry_point_conventions())
    t['entry_points'] = [c.__name__ for c in eps]
    t['cf_lat_units'] = sorted(grid.CF_LATITUDE_UNITS)
    t['cf_lon_units'] = sorted(grid.CF_LONGITUDE_UNITS)
    t['shoc_standard_names'] = [
        (k.value, list(v)) for k, v in shoc.ShocStandard.coordinate_names.items()]
    t['shoc_simple_dims'] = list(shoc.ShocSimple._dimensions)
    t['arakawa_kinds'] = [k.value for k in arakawa_c.ArakawaCGridKind]
    t['ugrid_kinds'] = [k.value for k in ugrid.UGridKind]
    t['cf_kinds'] = [k.value for k in grid.CFGridKind]
    # specificity each class reports for its own canonical dataset (live check_dataset)
    import random
    from harness.gen import datasets as G
    rng = random.Random(20260929)
    own = {}
    for conv, cls in [('cf1d', grid.CFGrid1D), ('cf2d', grid.CFGrid2D), ('shoc_simple', shoc.ShocSimple),
                      ('shoc_standard', shoc.ShocStandard), ('ugrid', ugrid.UGrid)]:
        b = G.build(G.random_recipe(rng, conv))
        v = cls.check_dataset(b.ds)
        own[cls.__name__] = None if v is None else int(v)
    own['ArakawaC'] = None if arakawa_c.ArakawaC.check_dataset(b.ds) is None else int(arakawa_c.ArakawaC.check_dataset(b.ds))
    t['own_specificity'] = own
    try:
        from emsarray.cli import utils as cli_utils
        t['bounds_re'] = cli_utils.bounds_re.pattern
        t['bounds_re_flags'] = int(cli_utils.bounds_re.flags)
    except Exception:
        t['bounds_re'] = None
    try:
        from emsarray.cli.commands import export_geometry as eg
        t['format_extensions'] = sorted(
            (fmt, ext) for fmt, exts in getattr(eg, 'format_extensions', {}).items() for ext in exts) \
            if hasattr(eg, 'format_extensions') else []
        t['format_writers'] = sorted(getattr(eg, 'format_writers', {}).keys())
    except Exception:
        t['format_extensions'] = []
        t['format_writers'] = []
    # ---- command line: tables that live in code, not in data ------------------------------------------------
    # `Command.guess_format` of export-geometry is a chain of `if extension in {…}: return '<format>'` /
    # `if extension == '…': return '<format>'` statements: translated from the function's AST, in order.
    # Anything else in the function body (apart from assigning `extension = output_path.suffix`, a docstring and
    # the final `raise`) makes the translation refuse, and the refusal is emitted as a table no theorem accepts.
    t['guess_format_table'] = _guess_format_table()
    # argparse choices and defaults, read from the live parsers
    t['format_choices'] = _argparse_choices('emsarray.cli.commands.export_geometry', 'format')
    t['missing_points_choices'] = _argparse_choices('emsarray.cli.commands.extract_points', 'missing_points')
    t['version'] = emsarray.__version__
    # `Command.handle` of the three commands: the library calls in statement order, translated from the AST
    t['clip_handle_calls'] = _handler_calls('emsarray.cli.commands.clip')
    t['extract_points_handle_calls'] = _handler_calls('emsarray.cli.commands.extract_points')
    t['export_geometry_handle_calls'] = _handler_calls('emsarray.cli.commands.export_geometry')
    # what `hash_geometry` / `make_cache_key` and the three hash helpers feed to the hash object, from their ASTs
    t.update(_cache_key_tables())
    return t


UNTRANSLATABLE = [('<untranslatable>', '<untranslatable>')]


def _guess_format_table() -> list:
    import ast
    import inspect
    import textwrap
    try:
        from emsarray.cli.commands import export_geometry as eg
        fn = ast.parse(textwrap.dedent(inspect.getsource(eg.Command.guess_format))).body[0]
    except Exception:
        return UNTRANSLATABLE
    body = list(fn.body)
    if body and isinstance(body[0], ast.Expr) and isinstance(body[0].value, ast.Constant) and isinstance(body[0].value.value, str):
        body = body[1:]
    var = None
    table = []
    for st in body:
        if isinstance(st, ast.Assign) and len(st.targets) == 1 and isinstance(st.targets[0], ast.Name) \
                and isinstance(st.value, ast.Attribute) and st.value.attr == 'suffix' and var is None:
            var = st.targets[0].id
            continue
        if isinstance(st, ast.Raise) and st is body[-1]:
            continue
        if isinstance(st, ast.If) and not st.orelse and len(st.body) == 1 and isinstance(st.body[0], ast.Return) \
                and isinstance(st.body[0].value, ast.Constant) and isinstance(st.body[0].value.value, str) \
                and isinstance(st.test, ast.Compare) and len(st.test.ops) == 1 \
                and isinstance(st.test.left, ast.Name) and st.test.left.id == var:
            fmt = st.body[0].value.value
            op, rhs = st.test.ops[0], st.test.comparators[0]
            if isinstance(op, ast.Eq) and isinstance(rhs, ast.Constant) and isinstance(rhs.value, str):
                exts = [rhs.value]
            elif isinstance(op, ast.In) and isinstance(rhs, (ast.Set, ast.Tuple, ast.List)) \
                    and all(isinstance(e, ast.Constant) and isinstance(e.value, str) for e in rhs.elts):
                exts = sorted((e.value for e in rhs.elts), key=lambda e: (len(e), e))   # a set has no order
            else:
                return UNTRANSLATABLE
            for e in exts:
                if e not in [x for x, _ in table]:       # an earlier `if` wins
                    table.append((e, fmt))
            continue
        return UNTRANSLATABLE
    return table if var is not None else UNTRANSLATABLE


def _argparse_choices(module: str, dest: str) -> dict:
    """choices and default of one option of a command, from the parser the command builds"""
    import argparse
    import importlib
    try:
        cmd = importlib.import_module(module).Command()
        parser = argparse.ArgumentParser()
        cmd.add_arguments(parser)
        for a in parser._actions:
            if a.dest == dest:
                return {'choices': [str(c) for c in (a.choices or [])], 'default': None if a.default is None else str(a.default)}
    except Exception:
        pass
    return {'choices': ['<unavailable>'], 'default': None}


# ---- command handlers: the ordered library calls of `Command.handle` ------------------------------------------
#
# Every `Call` node of the handler (and every `<dataset>.ems.<property>` access, every subscript of a named
# table, every `raise`) is classified, in evaluation order of the statements as written:
#   * callee in HANDLER_VOCAB            → emitted as (kind, canonical text), or dropped when the kind is `ignore`
#   * callee rooted at `logger`, or in HANDLER_SCAFFOLD → dropped
#   * anything else                      → ('unknown', '<unknown: …>'), which no theorem accepts
# Local variables are replaced by a label of what they hold (the second component of the vocabulary entry of the
# call they were assigned from), so renaming a local changes nothing; `options.<name>` arguments are kept.
HANDLER_VOCAB = {
    # canonical callee: (kind, label of the result)
    'emsarray.open_dataset': ('read', 'dataset'),
    'pandas.read_csv': ('read', 'dataframe'),
    'dataset.ems.clip': ('compute', 'clipped'),
    'point_extraction.extract_dataframe': ('compute', 'points'),
    'dataset.ems.time_coordinate': ('compute', 'time_coordinate'),
    'dataset.ems.polygons': ('compute', 'polygons'),
    'dataset.ems.mask': ('compute', 'mask'),
    'format_writers[]': ('compute', 'writer'),
    'self.guess_format': ('fail-check', 'format'),
    'clipped.ems.to_netcdf': ('write', None),
    'to_netcdf_with_fixes': ('write', None),
    'writer': ('write', None),
    # the rows named in the text of an error message
    'dataframe.iloc[]': ('ignore', 'dataframe'),
    'dataframe.head': ('ignore', None),
}
#: `raise <this>(…)` is a fail-check; a `raise` of anything else is unknown
HANDLER_RAISES = {'CommandException'}
#: calls that are neither library work nor output: builtins used for messages, the work-directory context managers
HANDLER_SCAFFOLD = {'str', 'len', 'repr', 'contextlib.nullcontext', 'tempfile.TemporaryDirectory'}
#: every call on these roots is dropped
HANDLER_IGNORED_ROOTS = {'logger'}
HANDLER_KINDS = ('read', 'compute', 'fail-check', 'write')


def _unknown(text: str) -> tuple:
    text = ' '.join(str(text).split())
    return ('unknown', '<unknown: ' + (text if len(text) <= 120 else text[:117] + '...') + '>')


class _HandlerWalk:
    """One pass over the statements of a handler, in order; `self.out` is the emitted list."""

    def __init__(self, imports: dict):
        import ast
        self.ast = ast
        self.imports = imports          # local name of an import → the name it stands for
        self.env: dict = {}             # local variable → label / `options.<name>`
        self.label: dict = {}           # id(expression node) → label of its value
        self.out: list = []

    # -- canonical texts -----------------------------------------------------------------------------------------
    def dotted(self, node):
        """`a.b.c` for a pure Name/Attribute chain (root replaced by its label / import target), else None"""
        ast = self.ast
        parts = []
        while isinstance(node, ast.Attribute):
            parts.append(node.attr)
            node = node.value
        if isinstance(node, ast.Name):
            root = self.env.get(node.id) or self.imports.get(node.id) or node.id
        elif id(node) in self.label and self.label[id(node)]:
            root = self.label[id(node)]
        else:
            return None
        return '.'.join([root] + parts[::-1])

    def arg(self, node) -> str:
        ast = self.ast
        if isinstance(node, ast.Constant):
            return repr(node.value)
        if isinstance(node, ast.Starred):
            return '*_'
        if isinstance(node, ast.Name):
            return self.env.get(node.id, '_')
        if self.label.get(id(node)):
            return self.label[id(node)]
        d = self.dotted(node)
        if d is not None and d.startswith('options.'):
            return d
        return '_'

    def call_text(self, callee: str, node) -> str:
        args = [self.arg(a) for a in node.args]
        args += [('**_' if k.arg is None else f'{k.arg}={self.arg(k.value)}') for k in node.keywords]
        return f'{callee}({", ".join(args)})'

    def emit(self, callee: str, text: str, node) -> None:
        kind, label = HANDLER_VOCAB[callee]
        self.label[id(node)] = label
        if kind != 'ignore':
            self.out.append((kind, text))

    # -- expressions, children before the node (Python's evaluation order for calls and subscripts) -------------
    def expr(self, node, callee: bool = False) -> None:
        ast = self.ast
        if node is None or isinstance(node, (ast.Name, ast.Constant)):
            return
        if isinstance(node, ast.Call):
            self.expr(node.func, callee=True)
            for a in node.args:
                self.expr(a.value if isinstance(a, ast.Starred) else a)
            for k in node.keywords:
                self.expr(k.value)
            d = self.dotted(node.func)
            if d is None:
                self.out.append(_unknown('call of ' + ast.unparse(node.func)))
            elif d.split('.')[0] in HANDLER_IGNORED_ROOTS or d in HANDLER_SCAFFOLD:
                pass
            elif d in HANDLER_VOCAB:
                self.emit(d, self.call_text(d, node), node)
            else:
                self.out.append(_unknown(self.call_text(d, node)))
            return
        if isinstance(node, ast.Attribute):
            d = self.dotted(node)
            if d is None:                       # the chain hangs off a computed value: that value first
                self.expr(self._root(node))
                d = self.dotted(node)
                if d is None:
                    return
            parts = d.split('.')
            if not callee and 'ems' in parts[1:-1]:
                # `<dataset>.ems.<property>[.more]`: reading the property runs library code
                head = '.'.join(parts[:parts.index('ems', 1) + 2])
                if head in HANDLER_VOCAB:
                    self.emit(head, head, node)
                else:
                    self.out.append(_unknown(head))
            elif not callee:
                self.label[id(node)] = self.label.get(id(self._root(node)))
            return
        if isinstance(node, ast.Subscript):
            self.expr(node.value)
            self.expr(node.slice)
            d = None if self.label.get(id(node.value)) else self.dotted(node.value)
            if d is None:                       # an element of a value that was already accounted for
                self.label[id(node)] = self.label.get(id(node.value))
            elif d + '[]' in HANDLER_VOCAB:
                self.emit(d + '[]', f'{d}[{self.arg(node.slice)}]', node)
            elif d.split('.')[0] != 'options':
                self.out.append(_unknown(f'{d}[{self.arg(node.slice)}]'))
            return
        if isinstance(node, (ast.Lambda, ast.Await, ast.Yield, ast.YieldFrom, ast.NamedExpr)):
            self.out.append(_unknown('expression ' + type(node).__name__))
            return
        for child in ast.iter_child_nodes(node):
            if isinstance(child, ast.expr):
                self.expr(child)
            elif isinstance(child, ast.comprehension):
                self.out.append(_unknown('comprehension'))
            elif isinstance(child, ast.keyword):
                self.expr(child.value)

    def _root(self, node):
        while isinstance(node, self.ast.Attribute):
            node = node.value
        return node

    def bind(self, target, value) -> None:
        ast = self.ast
        if not isinstance(target, ast.Name):
            if target is not None:
                self.out.append(_unknown('assignment to ' + ast.unparse(target)))
            return
        if value is None:
            return
        new = self.label.get(id(value))
        if new is None:
            if isinstance(value, ast.Name) and value.id in self.env:
                new = self.env[value.id]
            else:
                d = self.dotted(value)
                if d is not None and d.startswith('options.'):
                    new = d
        if new is not None:
            self.env[target.id] = new       # a later assignment of a constant does not take the label away

    # -- statements ----------------------------------------------------------------------------------------------
    def block(self, stmts, handling=None) -> None:
        for st in stmts:
            self.stmt(st, handling)

    def stmt(self, st, handling=None) -> None:
        ast = self.ast
        if isinstance(st, ast.Expr):
            if not (isinstance(st.value, ast.Constant) and isinstance(st.value.value, str)):
                self.expr(st.value)
        elif isinstance(st, ast.Assign):
            self.expr(st.value)
            for tg in st.targets:
                self.bind(tg, st.value)
        elif isinstance(st, ast.AnnAssign):
            self.expr(st.value)
            self.bind(st.target, st.value)
        elif isinstance(st, ast.If):
            self.expr(st.test)
            self.block(st.body, handling)
            self.block(st.orelse, handling)
        elif isinstance(st, ast.With):
            for item in st.items:
                self.expr(item.context_expr)
                self.bind(item.optional_vars, item.context_expr)
            self.block(st.body, handling)
        elif isinstance(st, ast.Try):
            self.block(st.body, handling)
            for h in st.handlers:
                self.block(h.body, 'any exception' if h.type is None else ast.unparse(h.type))
            self.block(st.orelse, handling)
            self.block(st.finalbody, handling)
        elif isinstance(st, ast.Raise):
            exc = st.exc
            name = None
            if isinstance(exc, ast.Call):
                for a in exc.args:
                    self.expr(a)
                for k in exc.keywords:
                    self.expr(k.value)
                name = self.dotted(exc.func)
            elif exc is not None:
                name = self.dotted(exc)
            if name in HANDLER_RAISES:
                self.out.append(('fail-check', f'raise {name}' + (f' on {handling}' if handling else '')))
            else:
                self.out.append(_unknown('raise ' + (ast.unparse(exc) if exc is not None else '')))
        elif isinstance(st, ast.Pass) or (isinstance(st, ast.Return) and st.value is None):
            pass
        else:
            self.out.append(_unknown('statement ' + type(st).__name__))


def _module_imports(tree) -> dict:
    import ast
    names = {}
    for st in tree.body:
        if isinstance(st, ast.Import):
            for a in st.names:
                if a.asname:
                    names[a.asname] = a.name
        elif isinstance(st, ast.ImportFrom):
            for a in st.names:
                if a.asname:
                    names[a.asname] = a.name
    return names


def _handler_calls(module: str) -> list:
    """(kind, call) for every library call of `Command.handle` of one command module, in statement order"""
    import ast
    import importlib
    import inspect
    import textwrap
    try:
        mod = importlib.import_module(module)
        tree = ast.parse(inspect.getsource(mod))
        fn = ast.parse(textwrap.dedent(inspect.getsource(mod.Command.handle))).body[0]
        walk = _HandlerWalk(_module_imports(tree))
        walk.block(fn.body)
        return walk.out if walk.out else [_unknown('empty handler')]
    except Exception as e:       # never crash the run: a table no theorem accepts
        return [_unknown(f'translator error {type(e).__name__}: {e}')]


# ---- cache key: what is fed to the hash object, in which order ------------------------------------------------
#
# `Convention.hash_geometry`, `make_cache_key`, `hash_string`, `hash_attributes` and `hash_int` are straight-line
# code over a hash object: each is translated, statement by statement, into (hash function, canonical text of what
# is hashed).  Local variables are inlined (so a rename changes nothing), the text is `ast.unparse` of the argument.
# A statement of any other form becomes ('unknown', '<unknown: …>').
HASH_FUNCS = ('hash_string', 'hash_int', 'hash_attributes')


def _hash_stream(body, hashvar: str, aliases: dict) -> list:
    import ast
    import copy

    class Inline(ast.NodeTransformer):
        def visit_Name(self, node):
            if isinstance(node.ctx, ast.Load) and node.id in aliases:
                return copy.deepcopy(aliases[node.id])
            return node

    def text(node) -> str:
        return ast.unparse(Inline().visit(copy.deepcopy(node)))

    def feeds_hash(node) -> bool:
        """does the expression touch the hash object or call one of the hash functions?"""
        for n in ast.walk(node):
            if isinstance(n, ast.Name) and (n.id == hashvar or n.id in HASH_FUNCS):
                return True
        return False

    out = []
    for st in body:
        if isinstance(st, ast.Expr) and isinstance(st.value, ast.Constant) and isinstance(st.value.value, str):
            continue                                                    # docstring
        if isinstance(st, (ast.Assign, ast.AnnAssign)):
            targets = st.targets if isinstance(st, ast.Assign) else [st.target]
            if len(targets) == 1 and isinstance(targets[0], ast.Name) and st.value is not None \
                    and targets[0].id != hashvar and not feeds_hash(st.value):
                aliases[targets[0].id] = Inline().visit(copy.deepcopy(st.value))
                aliases.setdefault('<first>', targets[0].id)
                continue
            out.append(_unknown(ast.unparse(st)))
            continue
        if isinstance(st, ast.Expr) and isinstance(st.value, ast.Call):
            call = st.value
            plain = not call.keywords and not any(isinstance(a, ast.Starred) for a in call.args)
            if plain and isinstance(call.func, ast.Name) and call.func.id in HASH_FUNCS and len(call.args) == 2 \
                    and isinstance(call.args[0], ast.Name) and call.args[0].id == hashvar \
                    and not feeds_hash(call.args[1]):
                out.append((call.func.id, text(call.args[1])))
                continue
            if plain and isinstance(call.func, ast.Attribute) and call.func.attr == 'update' and len(call.args) == 1 \
                    and isinstance(call.func.value, ast.Name) and call.func.value.id == hashvar \
                    and not feeds_hash(call.args[0]):
                out.append(('update', text(call.args[0])))
                continue
            if plain and isinstance(call.func, ast.Attribute) and call.func.attr == 'hash_geometry' \
                    and len(call.args) == 1 and isinstance(call.args[0], ast.Name) and call.args[0].id == hashvar \
                    and not feeds_hash(call.func.value):
                out.append(('hash_geometry', text(call.func.value)))
                continue
            out.append(_unknown(ast.unparse(st)))
            continue
        if isinstance(st, ast.If):
            # `if hash is None: hash = <a default hash object>` chooses the hash function, which is a parameter
            if isinstance(st.test, ast.Compare) and isinstance(st.test.left, ast.Name) and st.test.left.id == hashvar \
                    and len(st.test.ops) == 1 and isinstance(st.test.ops[0], ast.Is) \
                    and isinstance(st.test.comparators[0], ast.Constant) and st.test.comparators[0].value is None \
                    and not st.orelse and len(st.body) == 1 and isinstance(st.body[0], ast.Assign) \
                    and len(st.body[0].targets) == 1 and isinstance(st.body[0].targets[0], ast.Name) \
                    and st.body[0].targets[0].id == hashvar:
                continue
            if feeds_hash(st.test):
                out.append(_unknown('if ' + ast.unparse(st.test)))
                continue
            out.append(('if', text(st.test)))
            out += _hash_stream(st.body, hashvar, aliases)
            out.append(('else', ''))
            out += _hash_stream(st.orelse, hashvar, aliases)
            out.append(('endif', ''))
            continue
        if isinstance(st, ast.With):
            if any(feeds_hash(i.context_expr) or i.optional_vars is not None for i in st.items):
                out.append(_unknown('with ' + ', '.join(ast.unparse(i) for i in st.items)))
                continue
            out.append(('with', ', '.join(text(i.context_expr) for i in st.items)))
            out += _hash_stream(st.body, hashvar, aliases)
            continue
        if isinstance(st, ast.For):
            if isinstance(st.target, ast.Name) and not st.orelse and not feeds_hash(st.iter):
                out.append(('for', text(st.iter)))
                inner = dict(aliases)
                inner.pop('<first>', None)
                inner[st.target.id] = ast.Name(id='name', ctx=ast.Load())
                fields = _hash_stream(st.body, hashvar, inner)
                # the first local of the loop body (the data array) is called `var` in the texts
                first = inner.get('<first>')
                if first is not None:
                    var_text = ast.unparse(inner[first])
                    out.append(('var', var_text))
                    fields = [(f, x.replace(var_text, 'var')) for f, x in fields]
                out += fields
                out.append(('endfor', ''))
                continue
            out.append(_unknown('for ' + ast.unparse(st.target) + ' in ' + ast.unparse(st.iter)))
            continue
        if isinstance(st, ast.Raise) and st.cause is None:
            out.append(('raise', '' if st.exc is None else text(st.exc)))
            continue
        if isinstance(st, ast.Return):
            out.append(('return', '' if st.value is None else text(st.value)))
            continue
        if isinstance(st, ast.Pass):
            continue
        out.append(_unknown('statement ' + type(st).__name__ + ': ' + ast.unparse(st)))
    return out


def _hash_function_stream(obj) -> list:
    """the stream of one function whose first parameter after `self` / the dataset named `hash` is the hash object"""
    import ast
    import inspect
    import textwrap
    try:
        fn = ast.parse(textwrap.dedent(inspect.getsource(obj))).body[0]
        params = [a.arg for a in fn.args.args]
        if 'hash' not in params:
            return [_unknown('no parameter called hash in ' + fn.name)]
        out = _hash_stream(fn.body, 'hash', {})
        return out if out else [_unknown('empty function ' + fn.name)]
    except Exception as e:
        return [_unknown(f'translator error {type(e).__name__}: {e}')]


def _cache_key_tables() -> dict:
    r = {}
    try:
        from emsarray.conventions import _base
        from emsarray.operations import cache
        geom = _hash_function_stream(_base.Convention.hash_geometry)
        key = _hash_function_stream(cache.make_cache_key)
        r['hash_string_calls'] = _hash_function_stream(cache.hash_string)
        r['hash_attributes_calls'] = _hash_function_stream(cache.hash_attributes)
        r['hash_int_calls'] = _hash_function_stream(cache.hash_int)
    except Exception as e:
        bad = [_unknown(f'translator error {type(e).__name__}: {e}')]
        return {k: bad for k in ('hash_geometry_over', 'hash_geometry_fields', 'make_cache_key_calls',
                                 'cache_key_trailer', 'hash_string_calls', 'hash_attributes_calls', 'hash_int_calls')}
    # hash_geometry: [for, var, field…, endfor] and nothing else
    if len(geom) >= 3 and geom[0][0] == 'for' and geom[1][0] == 'var' and geom[-1] == ('endfor', '') \
            and all(f in HASH_FUNCS + ('update', 'unknown') for f, _ in geom[2:-1]):
        r['hash_geometry_over'] = geom[:2]
        r['hash_geometry_fields'] = geom[2:-1]
    else:
        r['hash_geometry_over'] = [_unknown('hash_geometry is not one loop over the geometry names')]
        r['hash_geometry_fields'] = geom
    # make_cache_key: [hash_geometry, trailer…, return]
    r['make_cache_key_calls'] = key
    if len(key) >= 2 and key[0][0] == 'hash_geometry' and key[-1][0] == 'return':
        r['cache_key_trailer'] = key[1:-1]
    else:
        r['cache_key_trailer'] = [_unknown('make_cache_key is not hash_geometry, trailer, return')] + key
    return r


def render(t: dict) -> str:
    def opt_nat(v):
        return 'none' if v is None else f'(some {v})'
    lines = [
        '/- GENERATED by harness/tables.py from the live emsarray objects of /repo. Do not edit. -/',
        'namespace Ems.Gen',
        '',
        f"def specLow : Nat := {t['specificity'].get('LOW', 0)}",
        f"def specMedium : Nat := {t['specificity'].get('MEDIUM', 0)}",
        f"def specHigh : Nat := {t['specificity'].get('HIGH', 0)}",
        f"def entryPoints : List String := {lean_list(t['entry_points'])}",
        'def ownSpecificity : List (String × Option Nat) := ['
        + ', '.join(f'({lean_str(k)}, {opt_nat(v)})' for k, v in sorted(t['own_specificity'].items())) + ']',
        f"def cfLatUnits : List String := {lean_list(t['cf_lat_units'])}",
        f"def cfLonUnits : List String := {lean_list(t['cf_lon_units'])}",
        'def shocStandardNames : List (String × List String) := ['
        + ', '.join(f'({lean_str(k)}, {lean_list(v)})' for k, v in t['shoc_standard_names']) + ']',
        f"def shocSimpleDims : List String := {lean_list(t['shoc_simple_dims'])}",
        f"def arakawaKinds : List String := {lean_list(t['arakawa_kinds'])}",
        f"def ugridKinds : List String := {lean_list(t['ugrid_kinds'])}",
        f"def cfKinds : List String := {lean_list(t['cf_kinds'])}",
        f"def boundsRe : String := {lean_str(t['bounds_re'] or '')}",
        f"def boundsReFlags : Nat := {t.get('bounds_re_flags', 0)}",
        'def formatExtensions : List (String × String) := ['
        + ', '.join(f'({lean_str(a)}, {lean_str(b)})' for a, b in t['format_extensions']) + ']',
        f"def formatWriters : List String := {lean_list(t['format_writers'])}",
        '/-- `Command.guess_format`, translated from its AST: (extension, format) in the order the code tests them -/',
        'def guessFormatTable : List (String × String) := ['
        + ', '.join(f'({lean_str(a)}, {lean_str(b)})' for a, b in t['guess_format_table']) + ']',
        f"def formatChoices : List String := {lean_list(t['format_choices']['choices'])}",
        f"def formatDefault : Option String := {'none' if t['format_choices']['default'] is None else '(some ' + lean_str(t['format_choices']['default']) + ')'}",
        f"def missingPointsChoices : List String := {lean_list(t['missing_points_choices']['choices'])}",
        f"def missingPointsDefault : Option String := {'none' if t['missing_points_choices']['default'] is None else '(some ' + lean_str(t['missing_points_choices']['default']) + ')'}",
    ]
    lines += _render_more(t)
    lines += [
        '',
        'end Ems.Gen',
        '',
    ]
    return '\n'.join(lines)


def _render_more(t: dict) -> list:
    """definitions added after the first tables (kept apart so that the earlier lines stay byte-identical)"""
    def pairs(name, doc, items):
        return [f'/-- {doc} -/',
                f'def {name} : List (String × String) := ['
                + ', '.join(f'({lean_str(a)}, {lean_str(b)})' for a, b in items) + ']']
    lines = []
    lines += pairs('clipHandleCalls', '`Command.handle` of `commands/clip.py`, translated from its AST: (kind, library call) in statement order',
                   t['clip_handle_calls'])
    lines += pairs('extractPointsHandleCalls', '`Command.handle` of `commands/extract_points.py`, likewise',
                   t['extract_points_handle_calls'])
    lines += pairs('exportGeometryHandleCalls', '`Command.handle` of `commands/export_geometry.py`, likewise',
                   t['export_geometry_handle_calls'])
    lines += pairs('hashGeometryOver', '`Convention.hash_geometry`, translated from its AST: what the loop runs over, and what `var` is in the texts below',
                   t['hash_geometry_over'])
    lines += pairs('hashGeometryFields', 'the loop body of `hash_geometry`: (hash function, what is hashed) in statement order; `name` = the loop variable',
                   t['hash_geometry_fields'])
    lines += pairs('makeCacheKeyCalls', '`make_cache_key`, likewise (the choice of the default hash object left out)',
                   t['make_cache_key_calls'])
    lines += pairs('cacheKeyTrailer', 'what `make_cache_key` hashes after the geometry', t['cache_key_trailer'])
    lines += pairs('hashStringCalls', '`hash_string`', t['hash_string_calls'])
    lines += pairs('hashAttributesCalls', '`hash_attributes` (local constants inlined)', t['hash_attributes_calls'])
    lines += pairs('hashIntCalls', '`hash_int`', t['hash_int_calls'])
    return lines


def regenerate() -> bool:
    """Rewrite Gen/Tables.lean if the live tables changed. Returns True if rewritten."""
    text = render(collect())
    OUT.parent.mkdir(parents=True, exist_ok=True)
    with open(VERIF / 'lean' / '.lock', 'w') as lock:
        fcntl.flock(lock, fcntl.LOCK_EX)
        try:
            if OUT.exists() and OUT.read_text() == text:
                return False
            tmp = OUT.with_suffix('.lean.tmp')
            tmp.write_text(text)
            tmp.replace(OUT)
            return True
        finally:
            fcntl.flock(lock, fcntl.LOCK_UN)


if __name__ == '__main__':
    import sys
    sys.path.insert(0, str(VERIF))
    print('rewritten' if regenerate() else 'unchanged')
