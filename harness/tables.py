"""
T — translator for declarative data.

Everything in emsarray that is a *table or a constant* and that a theorem depends on is
read from the live imported objects of /repo's working tree on every run and re-emitted
as lean/EmsModel/Gen/Tables.lean.  The file is rewritten only when its content changes,
so an unchanged tree costs no rebuild; an edit to a table makes `lake build` re-check
every theorem that mentions it.
"""
from __future__ import annotations

import fcntl
import pathlib
import warnings

warnings.simplefilter('ignore')

VERIF = pathlib.Path(__file__).resolve().parent.parent
OUT = VERIF / 'lean' / 'EmsModel' / 'Gen' / 'Tables.lean'


def lean_str(s: str) -> str:
    return '"' + s.replace('\\', '\\\\').replace('"', '\\"').replace('\n', '\\n') + '"'


def lean_list(items, f=lean_str) -> str:
    return '[' + ', '.join(f(i) for i in items) + ']'


def collect() -> dict:
    """Live-object introspection. Every value comes from the imported working tree."""
    import emsarray
    from emsarray.conventions import _base, _registry, arakawa_c, grid, shoc, ugrid
    t: dict = {}
    spec = _base.Specificity
    t['specificity'] = {m.name: int(m.value) for m in spec}
    # entry-point order, as the registry sees it
    eps = list(_registry.entry_point_conventions())
    t['entry_points'] = [c.__name__ for c in eps]
    t['cf_lat_units'] = sorted(grid.CF_LATITUDE_UNITS)
    t['cf_lon_units'] = sorted(grid.CF_LONGITUDE_UNITS)
    t['shoc_standard_names'] = [
        (k.value, list(v)) for k, v in shoc.ShocStandard.coordinate_names.items()]
    t['shoc_simple_dims'] = list(shoc.ShocSimple._dimensions)
    t['arakawa_kinds'] = [k.value for k in arakawa_c.ArakawaCGridKind]
    t['ugrid_kinds'] = [k.value for k in ugrid.UGridKind]
    t['cf_kinds'] = [k.value for k in grid.CFGridKind]
    # specificity each class reports for its own canonical dataset (live check_dataset)
    import random
    from harness.gen import datasets as G
    rng = random.Random(20260929)
    own = {}
    for conv, cls in [('cf1d', grid.CFGrid1D), ('cf2d', grid.CFGrid2D), ('shoc_simple', shoc.ShocSimple),
                      ('shoc_standard', shoc.ShocStandard), ('ugrid', ugrid.UGrid)]:
        b = G.build(G.random_recipe(rng, conv))
        v = cls.check_dataset(b.ds)
        own[cls.__name__] = None if v is None else int(v)
    own['ArakawaC'] = None if arakawa_c.ArakawaC.check_dataset(b.ds) is None else int(arakawa_c.ArakawaC.check_dataset(b.ds))
    t['own_specificity'] = own
    try:
        from emsarray.cli import utils as cli_utils
        t['bounds_re'] = cli_utils.bounds_re.pattern
        t['bounds_re_flags'] = int(cli_utils.bounds_re.flags)
    except Exception:
        t['bounds_re'] = None
    try:
        from emsarray.cli.commands import export_geometry as eg
        t['format_extensions'] = sorted(
            (fmt, ext) for fmt, exts in getattr(eg, 'format_extensions', {}).items() for ext in exts) \
            if hasattr(eg, 'format_extensions') else []
        t['format_writers'] = sorted(getattr(eg, 'format_writers', {}).keys())
    except Exception:
        t['format_extensions'] = []
        t['format_writers'] = []
    # ---- command line: tables that live in code, not in data ------------------------------------------------
    # `Command.guess_format` of export-geometry is a chain of `if extension in {…}: return '<format>'` /
    # `if extension == '…': return '<format>'` statements: translated from the function's AST, in order.
    # Anything else in the function body (apart from assigning `extension = output_path.suffix`, a docstring and
    # the final `raise`) makes the translation refuse, and the refusal is emitted as a table no theorem accepts.
    t['guess_format_table'] = _guess_format_table()
    # argparse choices and defaults, read from the live parsers
    t['format_choices'] = _argparse_choices('emsarray.cli.commands.export_geometry', 'format')
    t['missing_points_choices'] = _argparse_choices('emsarray.cli.commands.extract_points', 'missing_points')
    t['version'] = emsarray.__version__
    return t


UNTRANSLATABLE = [('<untranslatable>', '<untranslatable>')]


def _guess_format_table() -> list:
    import ast
    import inspect
    import textwrap
    try:
        from emsarray.cli.commands import export_geometry as eg
        fn = ast.parse(textwrap.dedent(inspect.getsource(eg.Command.guess_format))).body[0]
    except Exception:
        return UNTRANSLATABLE
    body = list(fn.body)
    if body and isinstance(body[0], ast.Expr) and isinstance(body[0].value, ast.Constant) and isinstance(body[0].value.value, str):
        body = body[1:]
    var = None
    table = []
    for st in body:
        if isinstance(st, ast.Assign) and len(st.targets) == 1 and isinstance(st.targets[0], ast.Name) \
                and isinstance(st.value, ast.Attribute) and st.value.attr == 'suffix' and var is None:
            var = st.targets[0].id
            continue
        if isinstance(st, ast.Raise) and st is body[-1]:
            continue
        if isinstance(st, ast.If) and not st.orelse and len(st.body) == 1 and isinstance(st.body[0], ast.Return) \
                and isinstance(st.body[0].value, ast.Constant) and isinstance(st.body[0].value.value, str) \
                and isinstance(st.test, ast.Compare) and len(st.test.ops) == 1 \
                and isinstance(st.test.left, ast.Name) and st.test.left.id == var:
            fmt = st.body[0].value.value
            op, rhs = st.test.ops[0], st.test.comparators[0]
            if isinstance(op, ast.Eq) and isinstance(rhs, ast.Constant) and isinstance(rhs.value, str):
                exts = [rhs.value]
            elif isinstance(op, ast.In) and isinstance(rhs, (ast.Set, ast.Tuple, ast.List)) \
                    and all(isinstance(e, ast.Constant) and isinstance(e.value, str) for e in rhs.elts):
                exts = sorted((e.value for e in rhs.elts), key=lambda e: (len(e), e))   # a set has no order
            else:
                return UNTRANSLATABLE
            for e in exts:
                if e not in [x for x, _ in table]:       # an earlier `if` wins
                    table.append((e, fmt))
            continue
        return UNTRANSLATABLE
    return table if var is not None else UNTRANSLATABLE


def _argparse_choices(module: str, dest: str) -> dict:
    """choices and default of one option of a command, from the parser the command builds"""
    import argparse
    import importlib
    try:
        cmd = importlib.import_module(module).Command()
        parser = argparse.ArgumentParser()
        cmd.add_arguments(parser)
        for a in parser._actions:
            if a.dest == dest:
                return {'choices': [str(c) for c in (a.choices or [])], 'default': None if a.default is None else str(a.default)}
    except Exception:
        pass
    return {'choices': ['<unavailable>'], 'default': None}


def render(t: dict) -> str:
    def opt_nat(v):
        return 'none' if v is None else f'(some {v})'
    lines = [
        '/- GENERATED by harness/tables.py from the live emsarray objects of /repo. Do not edit. -/',
        'namespace Ems.Gen',
        '',
        f"def specLow : Nat := {t['specificity'].get('LOW', 0)}",
        f"def specMedium : Nat := {t['specificity'].get('MEDIUM', 0)}",
        f"def specHigh : Nat := {t['specificity'].get('HIGH', 0)}",
        f"def entryPoints : List String := {lean_list(t['entry_points'])}",
        'def ownSpecificity : List (String × Option Nat) := ['
        + ', '.join(f'({lean_str(k)}, {opt_nat(v)})' for k, v in sorted(t['own_specificity'].items())) + ']',
        f"def cfLatUnits : List String := {lean_list(t['cf_lat_units'])}",
        f"def cfLonUnits : List String := {lean_list(t['cf_lon_units'])}",
        'def shocStandardNames : List (String × List String) := ['
        + ', '.join(f'({lean_str(k)}, {lean_list(v)})' for k, v in t['shoc_standard_names']) + ']',
        f"def shocSimpleDims : List String := {lean_list(t['shoc_simple_dims'])}",
        f"def arakawaKinds : List String := {lean_list(t['arakawa_kinds'])}",
        f"def ugridKinds : List String := {lean_list(t['ugrid_kinds'])}",
        f"def cfKinds : List String := {lean_list(t['cf_kinds'])}",
        f"def boundsRe : String := {lean_str(t['bounds_re'] or '')}",
        f"def boundsReFlags : Nat := {t.get('bounds_re_flags', 0)}",
        'def formatExtensions : List (String × String) := ['
        + ', '.join(f'({lean_str(a)}, {lean_str(b)})' for a, b in t['format_extensions']) + ']',
        f"def formatWriters : List String := {lean_list(t['format_writers'])}",
        '/-- `Command.guess_format`, translated from its AST: (extension, format) in the order the code tests them -/',
        'def guessFormatTable : List (String × String) := ['
        + ', '.join(f'({lean_str(a)}, {lean_str(b)})' for a, b in t['guess_format_table']) + ']',
        f"def formatChoices : List String := {lean_list(t['format_choices']['choices'])}",
        f"def formatDefault : Option String := {'none' if t['format_choices']['default'] is None else '(some ' + lean_str(t['format_choices']['default']) + ')'}",
        f"def missingPointsChoices : List String := {lean_list(t['missing_points_choices']['choices'])}",
        f"def missingPointsDefault : Option String := {'none' if t['missing_points_choices']['default'] is None else '(some ' + lean_str(t['missing_points_choices']['default']) + ')'}",
        '',
        'end Ems.Gen',
        '',
    ]
    return '\n'.join(lines)


def regenerate() -> bool:
    """Rewrite Gen/Tables.lean if the live tables changed. Returns True if rewritten."""
    text = render(collect())
    OUT.parent.mkdir(parents=True, exist_ok=True)
    with open(VERIF / 'lean' / '.lock', 'w') as lock:
        fcntl.flock(lock, fcntl.LOCK_EX)
        try:
            if OUT.exists() and OUT.read_text() == text:
                return False
            tmp = OUT.with_suffix('.lean.tmp')
            tmp.write_text(text)
            tmp.replace(OUT)
            return True
        finally:
            fcntl.flock(lock, fcntl.LOCK_UN)


if __name__ == '__main__':
    import sys
    sys.path.insert(0, str(VERIF))
    print('rewritten' if regenerate() else 'unchanged')
