"""
T — `Convention.get_index_for_point`, read from its source text on every run.

The function is four statements: query the spatial index with a predicate, sort, take a hit if there is one, build the
`SpatialIndexItem` from it.  Each of these is read from the AST of the emsarray under check into the record
`Ems.LookupSrc.Src` (lean/EmsModel/Core/LookupSrc.lean) in lean/EmsModel/Gen/LookupSrc.lean; `Props/C04Src.lean` proves that,
evaluated, the record is the model function `Ems.getIndexForPoint` the C04 theorems are about.  Locals are followed by
data flow, not by name.  Anything not recognised yields a field value no theorem accepts.
"""
from __future__ import annotations

import ast
import inspect
import pathlib
import textwrap

VERIF = pathlib.Path(__file__).resolve().parent.parent
OUT = VERIF / 'lean' / 'EmsModel' / 'Gen' / 'LookupSrc.lean'
TARGET = 'EmsModel.Gen.LookupSrc'


def lean_str(s: str) -> str:
    return '"' + s.replace('\\', '\\\\').replace('"', '\\"').replace('\n', '\\n') + '"'


def _lit_int(n):
    if isinstance(n, ast.Constant) and isinstance(n.value, int) and not isinstance(n.value, bool):
        return n.value
    if isinstance(n, ast.UnaryOp) and isinstance(n.op, ast.USub) and isinstance(n.operand, ast.Constant) \
            and isinstance(n.operand.value, int):
        return -n.operand.value
    return None


def read() -> dict:
    from emsarray.conventions._base import Convention
    out = {'predicate': '?', 'sortsHits': False, 'guardNonEmpty': False, 'pick': -99, 'linearIsPick': False,
           'nativeIsWindOfLinear': False, 'polygonIsPolygonsAtLinear': False}
    fn = ast.parse(textwrap.dedent(inspect.getsource(Convention.get_index_for_point))).body[0]
    body = [s for s in fn.body
            if not (isinstance(s, ast.Expr) and isinstance(s.value, ast.Constant) and isinstance(s.value.value, str))]
    env: dict = {}          # local name -> ('hits', sorted?) | ('pick', k) | python text

    def is_query(node):
        """self.strtree.query(point, predicate='…') -> the predicate, else None"""
        if isinstance(node, ast.Call) and ast.unparse(node.func) == 'self.strtree.query' and len(node.args) == 1 \
                and ast.unparse(node.args[0]) == 'point' and len(node.keywords) == 1 and node.keywords[0].arg == 'predicate' \
                and isinstance(node.keywords[0].value, ast.Constant) and isinstance(node.keywords[0].value.value, str):
            return node.keywords[0].value.value
        return None

    def hits_of(node):
        """('hits', sorted?) if node denotes the query result, possibly sorted"""
        if isinstance(node, ast.Name) and isinstance(env.get(node.id), tuple) and env[node.id][0] == 'hits':
            return env[node.id]
        p = is_query(node)
        if p is not None:
            out['predicate'] = p
            return ('hits', False)
        if isinstance(node, ast.Call) and not node.keywords and len(node.args) == 1 \
                and ast.unparse(node.func) in ('numpy.sort', 'sorted', 'np.sort'):
            inner = hits_of(node.args[0])
            if inner:
                return ('hits', True)
        return None

    def pick_of(node):
        """k if node denotes hits[k] of the (final) hit list"""
        if isinstance(node, ast.Name) and isinstance(env.get(node.id), tuple) and env[node.id][0] == 'pick':
            return env[node.id][1]
        if isinstance(node, ast.Subscript):
            h = hits_of(node.value)
            k = _lit_int(node.slice)
            if h and k is not None:
                out['sortsHits'] = h[1]
                return k
        return None

    def item(call):
        if not (isinstance(call, ast.Call) and ast.unparse(call.func).startswith('SpatialIndexItem') and not call.args):
            return
        kw = {k.arg: k.value for k in call.keywords}
        if set(kw) != {'linear_index', 'index', 'polygon'}:
            return
        k = pick_of(kw['linear_index'])
        if k is None:
            return
        out['pick'] = k
        out['linearIsPick'] = True
        w = kw['index']
        if isinstance(w, ast.Call) and ast.unparse(w.func) == 'self.wind_index' and len(w.args) == 1 and not w.keywords \
                and pick_of(w.args[0]) == k:
            out['nativeIsWindOfLinear'] = True
        g = kw['polygon']
        if isinstance(g, ast.Subscript) and ast.unparse(g.value) == 'self.polygons' and pick_of(g.slice) == k:
            out['polygonIsPolygonsAtLinear'] = True

    def nonempty_test(t):
        """`len(hits) > 0`, `len(hits)`, `hits.size > 0`, `hits.size`, `len(hits) != 0`, `len(hits) >= 1`"""
        def size_expr(n):
            if isinstance(n, ast.Call) and ast.unparse(n.func) == 'len' and len(n.args) == 1:
                return hits_of(n.args[0])
            if isinstance(n, ast.Attribute) and n.attr == 'size':
                return hits_of(n.value)
            return None
        if size_expr(t):
            return True
        if isinstance(t, ast.Compare) and len(t.ops) == 1 and size_expr(t.left):
            k = _lit_int(t.comparators[0])
            return (isinstance(t.ops[0], (ast.Gt, ast.NotEq)) and k == 0) or (isinstance(t.ops[0], ast.GtE) and k == 1)
        return False

    for i, s in enumerate(body):
        if isinstance(s, ast.Assign) and len(s.targets) == 1 and isinstance(s.targets[0], ast.Name):
            h = hits_of(s.value)
            if h:
                env[s.targets[0].id] = h
                continue
            k = pick_of(s.value)
            if k is not None:
                env[s.targets[0].id] = ('pick', k)
                continue
            env[s.targets[0].id] = ast.unparse(s.value)
        elif isinstance(s, ast.If) and nonempty_test(s.test) and not s.orelse:
            for t in s.body:
                if isinstance(t, ast.Assign) and len(t.targets) == 1 and isinstance(t.targets[0], ast.Name):
                    k = pick_of(t.value)
                    if k is not None:
                        env[t.targets[0].id] = ('pick', k)
                elif isinstance(t, ast.Return):
                    item(t.value)
            rest = body[i + 1:]
            if len(rest) == 1 and isinstance(rest[0], ast.Return) and ast.unparse(rest[0].value) == 'None' \
                    and isinstance(s.body[-1], ast.Return):
                out['guardNonEmpty'] = True
    return out


def render() -> str:
    try:
        d = read()
    except Exception:  # noqa: BLE001 - never make the run fail
        d = {'predicate': '?', 'sortsHits': False, 'guardNonEmpty': False, 'pick': -99, 'linearIsPick': False,
             'nativeIsWindOfLinear': False, 'polygonIsPolygonsAtLinear': False}
    b = lambda x: 'true' if x else 'false'  # noqa: E731
    return '\n'.join([
        'import EmsModel.Core.LookupSrc', '/-',
        'GENERATED by harness/trans_lookupsrc.py from the source text of the working tree under check. Do not edit.',
        '-/', 'namespace Ems.Gen.LookupSrc', '',
        '/-- `Convention.get_index_for_point` -/',
        'def lookupSrc : Ems.LookupSrc.Src :=',
        f'  {{ predicate := {lean_str(d["predicate"])}, sortsHits := {b(d["sortsHits"])}, guardNonEmpty := {b(d["guardNonEmpty"])},',
        f'    pick := ({d["pick"]}), linearIsPick := {b(d["linearIsPick"])}, nativeIsWindOfLinear := {b(d["nativeIsWindOfLinear"])},',
        f'    polygonIsPolygonsAtLinear := {b(d["polygonIsPolygonsAtLinear"])} }}', '',
        'end Ems.Gen.LookupSrc', ''])


if __name__ == '__main__':
    import sys
    sys.path.insert(0, str(VERIF))
    print(render())
