"""Fingerprints of the source files each property is anchored in (properties.jsonl: anchors.files).

The models were written against, and validated by correspondence with, one particular state of those
files; `anchors.lock.json` records it (sha256 per file).  When a run finds an anchored file changed, the
check is not failed by that - a harmless rewrite is not a violation - but it looks three times as hard:
the correspondence run and the direct oracle get three times the budget, so a change whose effect needs
a rare input to show is much less likely to slip through the quick tier.

  python -m harness.anchors --relock      rewrite the lock from /repo/src (after a `fix:` commit)
"""
from __future__ import annotations

import hashlib
import json
import pathlib
import os
import sys

VERIF = pathlib.Path(__file__).resolve().parent.parent
LOCK = VERIF / 'harness' / 'anchors.lock.json'


def anchored_files() -> dict:
    out = {}
    for line in (VERIF / 'properties.jsonl').read_text().splitlines():
        if line.strip():
            d = json.loads(line)
            out[d['id']] = list(d.get('anchors', {}).get('files', []))
    return out


def fingerprint(repo_root: pathlib.Path, files: list) -> dict:
    fp = {}
    for f in files:
        p = repo_root / f
        fp[f] = hashlib.sha256(p.read_bytes()).hexdigest() if p.exists() else None
    return fp


def changed(prop: str, repo_root: pathlib.Path) -> list:
    """anchored files of `prop` whose content differs from the locked state"""
    try:
        lock = json.loads(LOCK.read_text())
    except Exception:
        return ['<no lock file>']
    files = anchored_files().get(prop, [])
    now = fingerprint(repo_root, files)
    return [f for f in files if lock.get(f) != now[f]]


def changed_functions(prop: str, repo_root: pathlib.Path) -> list:
    """modelled functions of `prop` (harness/modelmap.py) whose code - docstrings, comments and layout
    apart - differs from the locked state, as 'file:Qualified.name -> Lean definitions'; a function that
    no longer exists is reported as removed"""
    from harness import modelmap
    try:
        lock = json.loads(LOCK.read_text()).get('__functions__', {})
    except Exception:
        return ['<no lock file>']
    out = []
    for f, q, leans in modelmap.functions_of(prop):
        now = modelmap.function_hash(repo_root, f, q)
        if now is None:
            out.append(f'{f}:{q} (removed or renamed; modelled by {", ".join(leans)})')
        elif lock.get(f'{f}:{q}') != now:
            out.append(f'{f}:{q} (modelled by {", ".join(leans)})')
    return out


def relock(repo_root: pathlib.Path) -> None:
    from harness import modelmap
    files = sorted({f for fs in anchored_files().values() for f in fs})
    lock = fingerprint(repo_root, files)
    lock['__functions__'] = modelmap.fingerprints(repo_root)
    LOCK.write_text(json.dumps(lock, indent=1, sort_keys=True) + '\n')
    print(f'{len(files)} anchored files and {len(lock["__functions__"])} modelled functions locked')


if __name__ == '__main__':
    if '--relock' in sys.argv:
        relock(pathlib.Path('/repo'))
