"""Confirm a seeded change and run the checks against it.

  seedtool.py confirm <seedout_dir> <seed id> <property>      e.g. /tmp/seedout_C06/a C06a C06
      - applies patch.diff to a scratch worktree (never to /repo), runs the demo with and without it,
        runs the repository's test-suite with it and compares the pass set with the baseline,
        runs `./check <property>` against the scratch tree (dev mode) and records everything in
        /verif/seeded/<seed id>/{patch.diff,demo.py,meta.json}
  seedtool.py official <seed id> [property ...]
      - applies /verif/seeded/<id>/patch.diff to /repo itself, runs the registered quick command of the
        property (and any others named), undoes it (git checkout -- .) and records the verdicts
"""
from __future__ import annotations

import json
import os
import pathlib
import re
import shutil
import subprocess
import sys

VERIF = pathlib.Path(__file__).resolve().parent.parent
SCRATCH = pathlib.Path('/tmp/wt_seedtool' + os.environ.get('SEEDTOOL_SUFFIX', ''))
ENV = dict(os.environ, PYTHONWARNINGS='ignore', MPLBACKEND='Agg')


def sh(cmd, cwd=None, env=None, timeout=3600):
    p = subprocess.run(cmd, cwd=cwd, env=env or ENV, capture_output=True, text=True, timeout=timeout, shell=isinstance(cmd, str))
    out = '\n'.join(l for l in (p.stdout + p.stderr).splitlines() if 'conda.cli' not in l)
    return p.returncode, out


def fresh_worktree():
    if SCRATCH.exists():
        sh(['git', '-C', '/repo', 'worktree', 'remove', '--force', str(SCRATCH)])
        shutil.rmtree(SCRATCH, ignore_errors=True)
    sh(['git', '-C', '/repo', 'worktree', 'prune'])
    rc, out = sh(['git', '-C', '/repo', 'worktree', 'add', '--detach', str(SCRATCH)])
    if rc:
        raise SystemExit(out)


def passed_tests(src_root: pathlib.Path) -> set:
    env = dict(ENV, PYTHONPATH=str(src_root / 'src'))
    junit = f'/tmp/seedtool_junit{os.environ.get("SEEDTOOL_SUFFIX", "")}.xml'
    sh(['/venv/bin/python', '-m', 'pytest', '-q', '-p', 'no:cacheprovider', '--timeout=900',
        '--continue-on-collection-errors', f'--junitxml={junit}'], cwd=src_root, env=env)
    import xml.etree.ElementTree as ET
    ok = set()
    for tc in ET.parse(junit).getroot().iter('testcase'):
        if not any(ch.tag in ('failure', 'error', 'skipped') for ch in tc):
            ok.add(f"{tc.get('classname')}::{tc.get('name')}")
    return ok


def run_check(prop: str, src: str | None, verif: pathlib.Path = VERIF) -> dict:
    env = dict(ENV)
    if src:
        env['EMSARRAY_VERIF_SRC'] = src
    rc, out = sh([str(verif / 'check'), prop, '--tier', 'quick'], cwd=verif, env=env)
    vio = [l for l in out.splitlines() if l.startswith('VIOLATION')]
    res = {'property': prop, 'exit': rc, 'violation_line': vio[0] if vio else None}
    if vio:
        m = re.search(r'replay=(\S+)', vio[0])
        if m:
            p = pathlib.Path(m.group(1))
            p = p if p.is_absolute() else verif / p
            try:
                d = json.loads(p.read_text())
                res['kind'] = d.get('kind')
                res['signature'] = d.get('signature')
                res['message'] = (d.get('message') or '')[:400]
                res['broken'] = d.get('broken')
            except Exception as e:  # noqa
                res['replay_error'] = str(e)
    res['summary'] = out.splitlines()[-1] if out else ''
    return res


def confirm(seedout: str, sid: str, prop: str) -> None:
    src = pathlib.Path(seedout)
    dest = VERIF / 'seeded' / sid
    dest.mkdir(parents=True, exist_ok=True)
    shutil.copy(src / 'patch.diff', dest / 'patch.diff')
    shutil.copy(src / 'demo.py', dest / 'demo.py')
    if (src / 'README.md').exists():
        shutil.copy(src / 'README.md', dest / 'NOTES.md')
    fresh_worktree()
    env = dict(ENV, PYTHONPATH=str(SCRATCH / 'src'))
    base_rc, base_out = sh(['/venv/bin/python', str(dest / 'demo.py')], cwd=SCRATCH, env=env)
    # the baseline's pass set depends only on the commit of /repo: computed once per commit, then reused
    _, head = sh(['git', '-C', '/repo', 'rev-parse', 'HEAD'])
    cache = pathlib.Path(f'/tmp/seedtool_baseline_{head.strip()[:12]}.json')
    if cache.exists():
        base_pass = set(json.loads(cache.read_text()))
    else:
        base_pass = passed_tests(SCRATCH)
        cache.write_text(json.dumps(sorted(base_pass)))
    rc, out = sh(['git', 'apply', str(dest / 'patch.diff')], cwd=SCRATCH)
    if rc:
        raise SystemExit(f'patch does not apply: {out}')
    _, stat = sh(['git', 'diff', '--stat'], cwd=SCRATCH)
    mut_rc, mut_out = sh(['/venv/bin/python', str(dest / 'demo.py')], cwd=SCRATCH, env=env)
    mut_pass = passed_tests(SCRATCH)
    lost = sorted(base_pass - mut_pass)
    verdict = run_check(prop, str(SCRATCH / 'src'))
    meta = {
        'id': sid, 'property': prop,
        'source': 'independent sub-agent given only the property text and a scratch worktree',
        'files_touched': stat.strip().splitlines()[:-1],
        'needs_to_manifest': (src / 'README.md').read_text()[:3000] if (src / 'README.md').exists() else '',
        'confirmed': {
            'demo_exit_unchanged_tree': base_rc, 'demo_exit_with_change': mut_rc,
            'demo_output_with_change_tail': mut_out[-600:],
            'baseline_tests_passing': len(base_pass), 'tests_passing_with_change': len(mut_pass),
            'tests_lost_with_change': lost,
            'valid': base_rc == 0 and mut_rc != 0 and not lost,
        },
        'check_against_scratch_tree': verdict,
    }
    (dest / 'meta.json').write_text(json.dumps(meta, indent=1))
    sh(['git', '-C', '/repo', 'worktree', 'remove', '--force', str(SCRATCH)])
    print(json.dumps({k: meta[k] for k in ('id', 'property')} | {'valid': meta['confirmed']['valid'],
          'demo': (base_rc, mut_rc), 'lost_tests': len(lost), 'check_exit': verdict['exit'],
          'kind': verdict.get('kind'), 'signature': verdict.get('signature')}))


def official(sid: str, props: list) -> None:
    dest = VERIF / 'seeded' / sid
    meta = json.loads((dest / 'meta.json').read_text())
    props = props or [meta['property']]
    rc, out = sh(['git', '-C', '/repo', 'status', '--porcelain', '--untracked-files=no'])
    if out.strip():
        raise SystemExit('/repo has uncommitted changes; refusing')
    rc, out = sh(['git', '-C', '/repo', 'apply', str(dest / 'patch.diff')])
    if rc:
        raise SystemExit(out)
    try:
        results = [run_check(p, None) for p in props]
    finally:
        sh(['git', '-C', '/repo', 'checkout', '--', '.'])
    meta['check_against_repo'] = results
    (dest / 'meta.json').write_text(json.dumps(meta, indent=1))
    print(json.dumps([{k: r.get(k) for k in ('property', 'exit', 'kind', 'signature')} for r in results]))


def _isolated_worker(k: int, ids: list) -> None:
    """One worker: its own copy of /verif (so the generated Lean files of concurrent runs do not mix) and its own scratch
    worktree of /repo; every seed is applied there and judged by the copy's quick check (dev mode)."""
    copy = pathlib.Path(f'/tmp/vseed_{k}/verif')
    wt = pathlib.Path(f'/tmp/vseed_{k}/repo')
    shutil.rmtree(copy.parent, ignore_errors=True)
    copy.parent.mkdir(parents=True)
    sh(['rsync', '-a', '--exclude', '.git', '--exclude', 'evidence', '--exclude', 'seeded/mutation', str(VERIF) + '/', str(copy) + '/'])
    sh(['git', '-C', '/repo', 'worktree', 'prune'])
    rc, out = sh(['git', '-C', '/repo', 'worktree', 'add', '--detach', str(wt)])
    if rc:
        raise SystemExit(out)
    try:
        for sid in ids:
            dest = VERIF / 'seeded' / sid
            meta = json.loads((dest / 'meta.json').read_text())
            sh(['git', 'checkout', '--', '.'], cwd=wt)
            rc, out = sh(['git', 'apply', str(dest / 'patch.diff')], cwd=wt)
            if rc:
                res = {'property': meta['property'], 'exit': None, 'error': 'patch does not apply: ' + out[-300:]}
            else:
                res = run_check(meta['property'], str(wt / 'src'), copy)
            meta['check_in_isolated_copy'] = res
            (dest / 'meta.json').write_text(json.dumps(meta, indent=1))
            print(json.dumps({'id': sid} | {k2: res.get(k2) for k2 in ('exit', 'kind', 'signature')}), flush=True)
    finally:
        sh(['git', '-C', '/repo', 'worktree', 'remove', '--force', str(wt)])
        shutil.rmtree(copy.parent, ignore_errors=True)


def isolated(workers: int, ids: list) -> None:
    """seedtool.py isolated <workers> <seed id> ... : verdicts of the quick checks on many seeds at once, each worker in a
    private copy of /verif with a private scratch worktree of /repo (nothing is applied to /repo itself)."""
    import multiprocessing
    shares = [ids[i::workers] for i in range(workers)]
    procs = [multiprocessing.Process(target=_isolated_worker, args=(k, share)) for k, share in enumerate(shares) if share]
    for p in procs:
        p.start()
    for p in procs:
        p.join()


if __name__ == '__main__':
    if sys.argv[1] == 'isolated':
        isolated(int(sys.argv[2]), sys.argv[3:])
    elif sys.argv[1] == 'confirm':
        confirm(*sys.argv[2:5])
    elif sys.argv[1] == 'official':
        official(sys.argv[2], sys.argv[3:])
