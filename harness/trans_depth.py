"""
T — translator for `emsarray.operations.depth` (properties C12 and C13).

On every run this module takes the SOURCE TEXT of three functions from the working tree under check (`inspect.getsource`
of the imported module + `ast`) and re-emits them as terms of the two languages of `lean/EmsModel/Core/DepthSrc.lean`, in
`lean/EmsModel/Gen/DepthSrc.lean`:

* `_find_ocean_floor_indexes`  -> `Gen.depthFindFloorIndexes : FExpr`
  (`input`, `mulConst`, `addConst`, `cumsum`, `argmax`; locals inlined; the dimension argument is recognised as the function's
  second parameter, bare or inside `str(...)`);
* `normalize_depth_variables`  -> `Gen.depthNormalizeBody : List NStmt`, the body of its `for … in depth_coordinates:` loop in
  source order (locals are numbered slots in order of first assignment — a renamed local is invisible; guards, comparison
  operators, constants, slices, which local each expression reads, every effect on the working dataset), and
  `Gen.depthNormalizeFrame`, what surrounds the loop;
* `ocean_floor`                -> `Gen.depthOceanFloorSteps : List (String × String)`, every statement in source order
  (compound statements as header / body / end marker), parameters renamed p0, p1 and locals v0, v1, … in order of first
  binding, and the keyword constants `Gen.depthOceanFloorNormalizeOpts`, `Gen.depthOceanFloorKeepBounds`.

The theorems of `Props/C12Src.lean` / `Props/C13Src.lean` are about these generated terms.  Nothing here can raise: what is
not understood becomes an `unsupported "<python text>"` term (which evaluates to "raises", so no theorem accepts it) and is
listed in `Gen.depthSrcComplaints`.
"""
from __future__ import annotations

import ast
import inspect
import pathlib
import warnings
from fractions import Fraction

warnings.simplefilter('ignore')

VERIF = pathlib.Path(__file__).resolve().parent.parent
OUT = VERIF / 'lean' / 'EmsModel' / 'Gen' / 'DepthSrc.lean'
TARGET = 'EmsModel.Gen.DepthSrc'

MODULE = 'emsarray.operations.depth'
KW_PD = 'positive_down'          # keyword-only parameters are called by name: the name is the interface
KW_DTS = 'deep_to_shallow'


def lean_str(s: str) -> str:
    return '"' + s.replace('\\', '\\\\').replace('"', '\\"').replace('\n', '\\n') + '"'


def text_of(node) -> str:
    try:
        return ast.unparse(node)
    except Exception:  # noqa
        return f'<{type(node).__name__}>'


def lean_rat(fr: Fraction) -> str:
    if fr.denominator == 1:
        return f'({fr.numerator})' if fr.numerator < 0 else f'{fr.numerator}'
    return f'(({fr.numerator}) / {fr.denominator})' if fr.numerator < 0 else f'({fr.numerator} / {fr.denominator})'


def num_const(node):
    """a numeric literal (possibly signed) as a Fraction, else None"""
    if isinstance(node, ast.Constant) and isinstance(node.value, (int, float)) and not isinstance(node.value, bool):
        try:
            return Fraction(node.value)
        except (ValueError, OverflowError):
            return None
    if isinstance(node, ast.UnaryOp) and isinstance(node.op, (ast.USub, ast.UAdd)):
        inner = num_const(node.operand)
        if inner is not None:
            return -inner if isinstance(node.op, ast.USub) else inner
    return None


def int_const(node):
    fr = num_const(node)
    if fr is not None and fr.denominator == 1 and not (isinstance(node, ast.Constant) and isinstance(node.value, float)):
        return int(fr)
    return None


def is_skippable(st) -> bool:
    """docstrings, `pass`, `logger.*(...)` lines: no effect on what is computed"""
    if isinstance(st, ast.Pass):
        return True
    if isinstance(st, ast.Expr):
        if isinstance(st.value, ast.Constant):
            return True
        c = st.value
        if isinstance(c, ast.Call) and isinstance(c.func, ast.Attribute) and isinstance(c.func.value, ast.Name) \
                and c.func.value.id in ('logger', 'log', 'logging'):
            return True
    return False


def strip_cast(node):
    """`cast(T, x)` / `typing.cast(T, x)` is `x`"""
    while isinstance(node, ast.Call) and len(node.args) == 2 and not node.keywords and (
            (isinstance(node.func, ast.Name) and node.func.id == 'cast')
            or (isinstance(node.func, ast.Attribute) and node.func.attr == 'cast')):
        node = node.args[1]
    return node


def find_function(tree, name):
    for st in tree.body:
        if isinstance(st, ast.FunctionDef) and st.name == name:
            return st
    return None


# ======================================================================================================
# 1. _find_ocean_floor_indexes -> FExpr

class FloorTranslator:
    def __init__(self):
        self.complaints = []

    def bad(self, what: str) -> str:
        self.complaints.append(what)
        return f'(.unsupported {lean_str(what)})'

    def dim(self, node) -> str:
        if isinstance(node, ast.Call) and isinstance(node.func, ast.Name) and node.func.id == 'str' \
                and len(node.args) == 1 and not node.keywords:
            node = node.args[0]
        if isinstance(node, ast.Name):
            if node.id == self.p_dim:
                return '.depthParam'
            if node.id in self.env_dims:
                return self.env_dims[node.id]
        self.complaints.append(f'dimension argument {text_of(node)}')
        return f'(.other {lean_str(text_of(node))})'

    def expr(self, node) -> str:
        node = strip_cast(node)
        if isinstance(node, ast.Name):
            if node.id == self.p_arr:
                return '.input'
            if node.id in self.env:
                return self.env[node.id]
            return self.bad(text_of(node))
        if isinstance(node, ast.BinOp) and isinstance(node.op, (ast.Mult, ast.Add, ast.Sub)):
            cl, cr = num_const(node.left), num_const(node.right)
            if cr is not None and cl is None:
                e, c, const_left = node.left, cr, False
            elif cl is not None and cr is None:
                e, c, const_left = node.right, cl, True
            else:
                return self.bad(text_of(node))
            if isinstance(node.op, ast.Mult):
                return f'(.mulConst {self.expr(e)} {lean_rat(c)})'
            if isinstance(node.op, ast.Add):
                return f'(.addConst {self.expr(e)} {lean_rat(c)})'
            if not const_left:                      # e - c
                return f'(.addConst {self.expr(e)} {lean_rat(-c)})'
            return self.bad(text_of(node))          # c - e: not in the language
        if isinstance(node, ast.Call) and isinstance(node.func, ast.Attribute) and node.func.attr in ('cumsum', 'argmax'):
            args = list(node.args)
            kws = {k.arg: k.value for k in node.keywords}
            if len(args) == 1 and not kws:
                d = args[0]
            elif not args and set(kws) == {'dim'}:
                d = kws['dim']
            else:
                return self.bad(text_of(node))
            return f'(.{node.func.attr} {self.expr(node.func.value)} {self.dim(d)})'
        return self.bad(text_of(node))

    def run(self, fn) -> str:
        self.env, self.env_dims = {}, {}
        params = [a.arg for a in fn.args.posonlyargs + fn.args.args]
        if len(params) != 2 or fn.args.vararg or fn.args.kwarg or fn.args.kwonlyargs:
            return self.bad(f'signature ({", ".join(params)})')
        self.p_arr, self.p_dim = params
        result = None
        for st in fn.body:
            if is_skippable(st):
                continue
            if result is not None:
                return self.bad('statement after return: ' + text_of(st))
            if isinstance(st, ast.AnnAssign) and st.value is not None and isinstance(st.target, ast.Name):
                targets, value = [st.target], st.value
            elif isinstance(st, ast.Assign):
                targets, value = st.targets, st.value
            elif isinstance(st, ast.Return) and st.value is not None:
                result = self.expr(st.value)
                continue
            else:
                return self.bad(text_of(st))
            if len(targets) != 1 or not isinstance(targets[0], ast.Name):
                return self.bad(text_of(st))
            name = targets[0].id
            v = strip_cast(value)
            # a local that only renames the dimension (`dim = str(depth_dimension)`)
            if (isinstance(v, ast.Call) and isinstance(v.func, ast.Name) and v.func.id == 'str' and len(v.args) == 1
                    and isinstance(v.args[0], ast.Name) and v.args[0].id == self.p_dim) \
                    or (isinstance(v, ast.Name) and v.id == self.p_dim):
                self.env_dims[name] = '.depthParam'
                continue
            self.env[name] = self.expr(value)
            self.env_dims.pop(name, None)
        if result is None:
            return self.bad('no return statement')
        return result


# ======================================================================================================
# 2. normalize_depth_variables -> frame + List NStmt

CMP = {ast.Eq: '.eq', ast.NotEq: '.ne', ast.Lt: '.lt', ast.LtE: '.le', ast.Gt: '.gt', ast.GtE: '.ge'}
VIEW_ATTRS = {'name': 'nameOf', 'dims': 'dimsOf', 'values': 'valuesOf', 'attrs': 'attrsOf', 'encoding': 'encodingOf'}


def opt_int(v) -> str:
    return 'none' if v is None else (f'(some ({v}))' if v < 0 else f'(some {v})')


class NormTranslator:
    def __init__(self):
        self.complaints = []
        self.slots = {}
        self.p_ds = self.p_coords = self.work = None

    def bad(self, what: str) -> str:
        self.complaints.append(what)
        return f'(.unsupported {lean_str(what)})'

    # ---- locals ------------------------------------------------------------------------------------
    def slot_of(self, name: str) -> int:
        if name not in self.slots:
            self.slots[name] = len(self.slots)
        return self.slots[name]

    def number_locals(self, stmts):
        """slots in order of first assignment (source order, nested blocks included)"""
        def visit(block):
            for st in block:
                if isinstance(st, (ast.Assign, ast.AnnAssign)):
                    tg = st.targets if isinstance(st, ast.Assign) else [st.target]
                    for t in tg:
                        names = [t] if isinstance(t, ast.Name) else (list(t.elts) if isinstance(t, (ast.Tuple, ast.List)) else [])
                        for n in names:
                            if isinstance(n, ast.Name) and n.id != self.work:
                                self.slot_of(n.id)
                for field in ('body', 'orelse', 'finalbody'):
                    sub = getattr(st, field, None)
                    if isinstance(sub, list) and sub and isinstance(sub[0], ast.stmt):
                        visit(sub)
                for h in getattr(st, 'handlers', []) or []:
                    visit(h.body)
        visit(stmts)

    # ---- expressions -------------------------------------------------------------------------------
    def slice_lit(self, node) -> str | None:
        """an `ast.Slice` with literal integer (or absent) parts"""
        parts = []
        for p in (node.lower, node.upper, node.step):
            if p is None:
                parts.append(None)
            else:
                v = int_const(p)
                if v is None:
                    return None
                parts.append(v)
        return f'(.sliceLit {opt_int(parts[0])} {opt_int(parts[1])} {opt_int(parts[2])})'

    def is_work(self, node) -> bool:
        return isinstance(node, ast.Name) and node.id == self.work

    def expr(self, node) -> str:
        node = strip_cast(node)
        if isinstance(node, ast.Constant):
            v = node.value
            if v is None:
                return '.noneLit'
            if isinstance(v, bool):
                return f'(.boolLit {"true" if v else "false"})'
            if isinstance(v, str):
                return f'(.strLit {lean_str(v)})'
            if isinstance(v, int):
                return f'(.intLit {v})'
            return self.bad(text_of(node))
        iv = int_const(node)
        if iv is not None:
            return f'(.intLit ({iv}))' if iv < 0 else f'(.intLit {iv})'
        if isinstance(node, ast.Name):
            if node.id == KW_PD and node.id in self.kwonly:
                return '.optPD'
            if node.id == KW_DTS and node.id in self.kwonly:
                return '.optDTS'
            if node.id in self.slots:
                return f'(.slot {self.slots[node.id]})'
            return self.bad(text_of(node))
        if isinstance(node, ast.UnaryOp):
            if isinstance(node.op, ast.Not):
                return f'(.not_ {self.expr(node.operand)})'
            if isinstance(node.op, ast.USub):
                return f'(.neg {self.expr(node.operand)})'
            return self.bad(text_of(node))
        if isinstance(node, ast.Attribute):
            if node.attr in VIEW_ATTRS:
                return f'(.{VIEW_ATTRS[node.attr]} {self.expr(node.value)})'
            return self.bad(text_of(node))
        if isinstance(node, ast.Subscript):
            # numpy.s_[a:b:c]
            if isinstance(node.value, ast.Attribute) and node.value.attr == 's_' and isinstance(node.value.value, ast.Name) \
                    and node.value.value.id in ('numpy', 'np') and isinstance(node.slice, ast.Slice):
                s = self.slice_lit(node.slice)
                return s if s is not None else self.bad(text_of(node))
            if self.is_work(node.value):
                return f'(.dsGet {self.expr(node.slice)})'
            if isinstance(node.slice, ast.Slice):
                s = self.slice_lit(node.slice)
                if s is None:
                    return self.bad(text_of(node))
                return f'(.index {self.expr(node.value)} {s})'
            if isinstance(node.slice, ast.Tuple):
                return self.bad(text_of(node))
            return f'(.index {self.expr(node.value)} {self.expr(node.slice)})'
        if isinstance(node, ast.Call):
            f = node.func
            if node.keywords:
                return self.bad(text_of(node))
            if ((isinstance(f, ast.Attribute) and f.attr == 'name_to_data_array')
                    or (isinstance(f, ast.Name) and f.id == 'name_to_data_array')) and len(node.args) == 2 \
                    and isinstance(node.args[0], ast.Name) and node.args[0].id == self.p_ds:
                return f'(.nameToDataArray {self.expr(node.args[1])})'
            if isinstance(f, ast.Name) and f.id == 'len' and len(node.args) == 1:
                return f'(.len {self.expr(node.args[0])})'
            if isinstance(f, ast.Name) and f.id == 'slice' and 1 <= len(node.args) <= 3:
                parts = [None, None, None]
                vals = []
                for a in node.args:
                    if isinstance(a, ast.Constant) and a.value is None:
                        vals.append(None)
                    else:
                        v = int_const(a)
                        if v is None:
                            return self.bad(text_of(node))
                        vals.append(v)
                if len(vals) == 1:
                    parts[1] = vals[0]
                else:
                    parts[:len(vals)] = vals
                return f'(.sliceLit {opt_int(parts[0])} {opt_int(parts[1])} {opt_int(parts[2])})'
            if isinstance(f, ast.Attribute) and f.attr == 'get' and len(node.args) == 1 \
                    and isinstance(node.args[0], ast.Constant) and isinstance(node.args[0].value, str):
                return f'(.attrGet {self.expr(f.value)} {lean_str(node.args[0].value)})'
            return self.bad(text_of(node))
        if isinstance(node, ast.Compare):
            if len(node.ops) != 1:
                return self.bad(text_of(node))
            op, a, b = node.ops[0], node.left, node.comparators[0]
            if type(op) in CMP:
                return f'(.cmp {CMP[type(op)]} {self.expr(a)} {self.expr(b)})'
            if isinstance(op, ast.IsNot):
                return f'(.isNot {self.expr(a)} {self.expr(b)})'
            if isinstance(op, ast.Is):
                return f'(.is_ {self.expr(a)} {self.expr(b)})'
            if isinstance(op, ast.In):
                return f'(.contains {self.expr(a)} {self.expr(b)})'
            if isinstance(op, ast.NotIn):
                return f'(.not_ (.contains {self.expr(a)} {self.expr(b)}))'
            return self.bad(text_of(node))
        if isinstance(node, ast.BoolOp):
            ctor = '.and_' if isinstance(node.op, ast.And) else '.or_'
            out = self.expr(node.values[-1])
            for v in reversed(node.values[:-1]):
                out = f'({ctor} {self.expr(v)} {out})'
            return out
        if isinstance(node, ast.IfExp):
            return f'(.ifExp {self.expr(node.test)} {self.expr(node.body)} {self.expr(node.orelse)})'
        if isinstance(node, ast.BinOp):
            if isinstance(node.op, ast.Mult):
                return f'(.mul {self.expr(node.left)} {self.expr(node.right)})'
            if isinstance(node.op, ast.Div):
                return f'(.div {self.expr(node.left)} {self.expr(node.right)})'
            return self.bad(text_of(node))
        if isinstance(node, ast.List) and len(node.elts) == 1:
            return f'(.list1 {self.expr(node.elts[0])})'
        return self.bad(text_of(node))

    # ---- statements --------------------------------------------------------------------------------
    def opt_expr(self, node) -> str:
        return 'none' if node is None else f'(some {self.expr(node)})'

    def work_update(self, st, value) -> dict | None:
        """`W = W.assign_coords({K: V})` / `W.assign({K: (dims, vals, attrs, enc)})` / `W.isel({D: S})`"""
        if not (isinstance(value, ast.Call) and isinstance(value.func, ast.Attribute) and self.is_work(value.func.value)
                and len(value.args) == 1 and not value.keywords and isinstance(value.args[0], ast.Dict)
                and len(value.args[0].keys) == 1 and value.args[0].keys[0] is not None):
            return None
        k, v = value.args[0].keys[0], value.args[0].values[0]
        m = value.func.attr
        if m == 'assign_coords':
            return {'kind': 'coords', 'key': k, 'vals': v, 'attrs': None, 'enc': None}
        if m == 'assign' and isinstance(v, ast.Tuple) and 2 <= len(v.elts) <= 4:
            e = list(v.elts) + [None, None]
            return {'kind': 'assign', 'key': k, 'dims': e[0], 'vals': e[1], 'attrs': e[2], 'enc': e[3]}
        if m == 'isel':
            return {'kind': 'isel', 'dim': k, 'sl': v}
        return None

    def render_update(self, u) -> str:
        if u['kind'] == 'coords':
            return (f".dsAssignCoords {self.expr(u['key'])} {self.expr(u['vals'])} "
                    f"{self.opt_expr(u['attrs'])} {self.opt_expr(u['enc'])}")
        if u['kind'] == 'assign':
            return (f".dsAssign {self.expr(u['key'])} {self.opt_expr(u['dims'])} {self.expr(u['vals'])} "
                    f"{self.opt_expr(u['attrs'])} {self.opt_expr(u['enc'])}")
        return f".dsIsel {self.expr(u['dim'])} {self.expr(u['sl'])}"

    def block(self, stmts, ind: int) -> str:
        items = []           # rendered statements, or pending dicts for assign_coords (so that attrs / encoding can be folded in)
        def flush():
            for i, it in enumerate(items):
                if isinstance(it, dict):
                    items[i] = self.render_update(it)
        for st in stmts:
            if is_skippable(st):
                continue
            # W[K].attrs = X / W[K].encoding = X  right after  W = W.assign_coords({K: …})
            if isinstance(st, ast.Assign) and len(st.targets) == 1 and isinstance(st.targets[0], ast.Attribute) \
                    and st.targets[0].attr in ('attrs', 'encoding') and isinstance(st.targets[0].value, ast.Subscript) \
                    and self.is_work(st.targets[0].value.value):
                field = 'attrs' if st.targets[0].attr == 'attrs' else 'enc'
                prev = items[-1] if items else None
                if isinstance(prev, dict) and prev['kind'] == 'coords' and prev[field] is None \
                        and ast.dump(prev['key']) == ast.dump(st.targets[0].value.slice):
                    prev[field] = st.value
                    continue
                flush()
                items.append(self.bad(text_of(st))[1:-1])
                continue
            flush()
            items.append(self.stmt(st, ind))
        flush()
        if not items:
            return '[]'
        pad = ' ' * (ind + 2)
        return '[\n' + ',\n'.join(pad + (it if isinstance(it, str) else self.render_update(it)) for it in items) + ']'

    def stmt(self, st, ind: int):
        """-> rendered statement (without outer parentheses) or a pending work-dataset update"""
        if isinstance(st, ast.AnnAssign) and st.value is not None:
            targets, value = [st.target], st.value
        elif isinstance(st, ast.Assign):
            targets, value = st.targets, st.value
        else:
            targets = value = None
        if targets is not None:
            if len(targets) != 1:
                return self.bad(text_of(st))[1:-1]
            t = targets[0]
            if isinstance(t, ast.Name):
                if t.id == self.work:
                    u = self.work_update(st, value)
                    return u if u is not None else self.bad(text_of(st))[1:-1]
                if t.id in (KW_PD, KW_DTS, self.p_ds, self.p_coords):
                    return self.bad(text_of(st))[1:-1]
                return f'.assign {self.slot_of(t.id)} {self.expr(value)}'
            if isinstance(t, (ast.Tuple, ast.List)) and len(t.elts) == 2 and all(isinstance(e, ast.Name) for e in t.elts) \
                    and all(e.id not in (self.work, KW_PD, KW_DTS, self.p_ds, self.p_coords) for e in t.elts):
                return f'.unpack2 {self.slot_of(t.elts[0].id)} {self.slot_of(t.elts[1].id)} {self.expr(value)}'
            if isinstance(t, ast.Subscript) and isinstance(t.value, ast.Attribute) and t.value.attr == 'attrs' \
                    and isinstance(t.value.value, ast.Name) and t.value.value.id in self.slots \
                    and isinstance(t.slice, ast.Constant) and isinstance(t.slice.value, str):
                return f'.setAttrItem {self.slots[t.value.value.id]} {lean_str(t.slice.value)} {self.expr(value)}'
            return self.bad(text_of(st))[1:-1]
        if isinstance(st, ast.If):
            return (f'.ite {self.expr(st.test)}\n{" " * (ind + 4)}{self.block(st.body, ind + 4)}\n'
                    f'{" " * (ind + 4)}{self.block(st.orelse, ind + 4)}')
        if isinstance(st, ast.Try):
            if getattr(st, 'finalbody', None) or len(st.handlers) != 1 or st.handlers[0].name is not None:
                return self.bad(text_of(st))[1:-1]
            h = st.handlers[0]
            exc = h.type.id if isinstance(h.type, ast.Name) else ('Exception' if h.type is None else None)
            if exc is None:
                return self.bad(text_of(st))[1:-1]
            p = ' ' * (ind + 4)
            return (f'.tryExcept\n{p}{self.block(st.body, ind + 4)}\n{p}{lean_str(exc)}\n{p}{self.block(h.body, ind + 4)}\n'
                    f'{p}{self.block(st.orelse, ind + 4)}')
        if isinstance(st, ast.Raise):
            e = st.exc
            cls = e.func if isinstance(e, ast.Call) else e
            if isinstance(cls, ast.Name):
                return f'.raise_ {lean_str(cls.id)}'
            return self.bad(text_of(st))[1:-1]
        if isinstance(st, ast.Expr) and isinstance(st.value, ast.Call):
            c = st.value
            if isinstance(c.func, ast.Attribute) and c.func.attr == 'warn' and isinstance(c.func.value, ast.Name) \
                    and c.func.value.id == 'warnings' and c.args:
                msg = c.args[0]
                if isinstance(msg, ast.JoinedStr):
                    args = [self.expr(v.value) for v in msg.values if isinstance(v, ast.FormattedValue)]
                elif isinstance(msg, ast.Constant) and isinstance(msg.value, str):
                    args = []
                else:
                    return self.bad(text_of(st))[1:-1]
                return '.warn [' + ', '.join(args) + ']'
        return self.bad(text_of(st))[1:-1]

    # ---- the function ------------------------------------------------------------------------------
    def run(self, fn):
        """-> (frame: list[str], body: str)"""
        params = [a.arg for a in fn.args.posonlyargs + fn.args.args]
        self.kwonly = [a.arg for a in fn.args.kwonlyargs]
        frame = []
        if len(params) != 2 or fn.args.vararg or fn.args.kwarg:
            frame.append(f'unknown: signature ({", ".join(params)})')
            params = (params + ['<none>', '<none>'])[:2]
        self.p_ds, self.p_coords = params
        frame.append('keywords: ' + ','.join(self.kwonly))
        loop = None
        for st in fn.body:
            if is_skippable(st):
                continue
            if isinstance(st, ast.Assign) and len(st.targets) == 1 and isinstance(st.targets[0], ast.Name) \
                    and isinstance(st.value, ast.Call) and isinstance(st.value.func, ast.Attribute) \
                    and st.value.func.attr == 'copy' and isinstance(st.value.func.value, ast.Name) \
                    and st.value.func.value.id == self.p_ds and not st.value.args and not st.value.keywords \
                    and self.work is None and loop is None:
                self.work = st.targets[0].id
                frame.append('W = param0.copy()')
            elif isinstance(st, ast.For) and loop is None and isinstance(st.target, ast.Name) and not st.orelse \
                    and isinstance(st.iter, ast.Name) and st.iter.id == self.p_coords and self.work is not None:
                loop = st
                frame.append('for item in param1: body')
            elif isinstance(st, ast.Return) and isinstance(st.value, ast.Name) and st.value.id == self.work \
                    and loop is not None:
                frame.append('return W')
            else:
                frame.append('unknown: ' + text_of(st).split('\n')[0])
        if loop is None:
            return frame, '[' + self.bad('no `for … in depth_coordinates` loop found') + ']'
        self.slot_of(loop.target.id)                 # slot 0: the loop target
        self.number_locals(loop.body)
        for node in ast.walk(loop):
            if isinstance(node, (ast.Break, ast.Continue, ast.Return, ast.While, ast.For)) and node is not loop:
                self.complaints.append(f'control flow inside the loop: {type(node).__name__}')
                return frame, '[' + self.bad(f'control flow inside the loop: {type(node).__name__}') + ']'
        return frame, self.block(loop.body, 2)


# ======================================================================================================
# 3. ocean_floor -> its statements in source order, alpha-normalised, and the constants the model depends on

class FloorStepsTranslator:
    """Every statement of `ocean_floor` in source order as (kind, text): compound statements give their header, their body
    and an ("end", kind) marker; the text is `ast.unparse` of the statement after (i) positional parameters are renamed
    `p0`, `p1` and every local (assignment targets, loop and comprehension variables) `v<k>` in order of first binding, so
    that renaming a local is invisible, (ii) `cast(T, x)` is replaced by `x`, (iii) annotations are dropped.  Docstrings,
    comments, `pass` and logger calls vanish.  Separately, the keyword constants of the two calls the Lean model is
    parameterised by."""

    def __init__(self):
        self.complaints = []
        self.norm_opts = ('none', 'none')
        self.keep_bounds = 'none'

    def run(self, fn):
        import copy
        fn = copy.deepcopy(fn)
        params = [a.arg for a in fn.args.posonlyargs + fn.args.args]
        kwonly = [a.arg for a in fn.args.kwonlyargs]
        names = {p: f'p{i}' for i, p in enumerate(params)}
        counter = [0]

        def bind(name):
            if name not in names and name not in kwonly:
                names[name] = f'v{counter[0]}'
                counter[0] += 1

        class Binder(ast.NodeVisitor):
            def visit_Name(self_inner, node):
                if isinstance(node.ctx, ast.Store):
                    bind(node.id)

            def visit_FunctionDef(self_inner, node):   # nested definitions: not followed
                bind(node.name)

            def visit_Lambda(self_inner, node):
                for a in node.args.args:
                    bind(a.arg)
                self_inner.generic_visit(node)
        for st in fn.body:
            Binder().visit(st)

        class Renamer(ast.NodeTransformer):
            def visit_Name(self_inner, node):
                if node.id in names:
                    return ast.copy_location(ast.Name(id=names[node.id], ctx=node.ctx), node)
                return node

            def visit_arg(self_inner, node):
                if node.arg in names:
                    node.arg = names[node.arg]
                node.annotation = None
                return node

            def visit_Call(self_inner, node):
                self_inner.generic_visit(node)
                return strip_cast(node)

            def visit_AnnAssign(self_inner, node):
                self_inner.generic_visit(node)
                if node.value is None:
                    return None
                return ast.copy_location(ast.Assign(targets=[node.target], value=node.value), node)

        def bool_kw(call, key) -> str:
            for k in call.keywords:
                if k.arg == key:
                    if isinstance(k.value, ast.Constant) and isinstance(k.value.value, bool):
                        return '(some true)' if k.value.value else '(some false)'
                    if isinstance(k.value, ast.Constant) and k.value.value is None:
                        return 'none'
                    self.complaints.append(f'keyword {key} of {text_of(call.func)} is not a literal: {text_of(k.value)}')
                    return 'none'
            return 'none'

        n_norm = n_extract = 0
        for node in ast.walk(fn):
            if isinstance(node, ast.Call):
                fname = node.func.id if isinstance(node.func, ast.Name) else (
                    node.func.attr if isinstance(node.func, ast.Attribute) else None)
                if fname == 'normalize_depth_variables':
                    n_norm += 1
                    self.norm_opts = (bool_kw(node, KW_PD), bool_kw(node, KW_DTS))
                elif fname == 'extract_vars':
                    n_extract += 1
                    self.keep_bounds = bool_kw(node, 'keep_bounds')
        if n_norm != 1:
            self.norm_opts = ('none', 'none')
            self.complaints.append(f'{n_norm} calls of normalize_depth_variables')
        if n_extract != 1:
            self.keep_bounds = 'none'
            self.complaints.append(f'{n_extract} calls of extract_vars')

        steps = []

        def emit(block):
            for st in block:
                if is_skippable(st):
                    continue
                if isinstance(st, ast.For):
                    steps.append(('for', f'{text_of(st.target)} in {text_of(st.iter)}'))
                    emit(st.body)
                    if st.orelse:
                        steps.append(('else', 'for'))
                        emit(st.orelse)
                    steps.append(('end', 'for'))
                elif isinstance(st, ast.While):
                    steps.append(('while', text_of(st.test)))
                    emit(st.body)
                    steps.append(('end', 'while'))
                elif isinstance(st, ast.If):
                    steps.append(('if', text_of(st.test)))
                    emit(st.body)
                    if st.orelse:
                        steps.append(('else', 'if'))
                        emit(st.orelse)
                    steps.append(('end', 'if'))
                elif isinstance(st, (ast.With, ast.Try, ast.FunctionDef, ast.ClassDef, ast.AsyncFor, ast.AsyncWith, ast.Match)
                                if hasattr(ast, 'Match') else (ast.With, ast.Try, ast.FunctionDef, ast.ClassDef)):
                    self.complaints.append(f'{type(st).__name__} statement')
                    steps.append(('unknown', text_of(st).split('\n')[0]))
                else:
                    kind = {'Assign': 'assign', 'AugAssign': 'augassign', 'Return': 'return', 'Expr': 'expr',
                            'Continue': 'continue', 'Break': 'break', 'Raise': 'raise', 'Delete': 'del',
                            'Assert': 'assert'}.get(type(st).__name__)
                    if kind is None:
                        self.complaints.append(f'{type(st).__name__} statement')
                        kind = 'unknown'
                    steps.append((kind, ' '.join(text_of(st).split())))

        body = [Renamer().visit(st) for st in fn.body]
        body = [b for b in body if b is not None]
        for b in body:
            ast.fix_missing_locations(b)
        steps.append(('def', f"({', '.join(f'p{i}' for i in range(len(params)))}; {', '.join(kwonly)})"))
        emit(body)
        return steps


# ======================================================================================================

def collect() -> dict:
    out = {'floor': None, 'frame': [], 'body': None, 'steps': [], 'complaints': [], 'norm_opts': ('none', 'none'),
           'keep_bounds': 'none'}
    ft, nt, st_ = FloorTranslator(), NormTranslator(), FloorStepsTranslator()
    tree = None
    try:
        from harness import pipelines
        pipelines.ensure_source_tree()
        import importlib
        mod = importlib.import_module(MODULE)
        tree = ast.parse(inspect.getsource(mod))
    except Exception as e:  # noqa: never crash
        out['complaints'].append(('module', f'{type(e).__name__}: {e}'))
    for key, fname, tr in (('floor', '_find_ocean_floor_indexes', ft), ('norm', 'normalize_depth_variables', nt),
                           ('steps', 'ocean_floor', st_)):
        try:
            fn = find_function(tree, fname) if tree is not None else None
            if fn is None:
                raise LookupError(f'no function {fname} in the source of {MODULE}')
            res = tr.run(fn)
        except Exception as e:  # noqa: never crash: a file that builds and a precise complaint
            tr.complaints.append(f'{type(e).__name__}: {e}')
            what = lean_str(f'{fname}: {type(e).__name__}: {e}')
            res = {'floor': f'(.unsupported {what})', 'norm': ([f'unknown: {type(e).__name__}'], f'[.unsupported {what}]'),
                   'steps': [('unknown', f'{type(e).__name__}: {e}')]}[key]
        if key == 'floor':
            out['floor'] = res
        elif key == 'norm':
            out['frame'], out['body'] = res
        else:
            out['steps'] = res
            out['norm_opts'], out['keep_bounds'] = tr.norm_opts, tr.keep_bounds
        out['complaints'] += [(fname, c) for c in tr.complaints]
    return out


def render() -> str:
    try:
        c = collect()
    except Exception as e:  # noqa: belt and braces
        c = {'floor': f'(.unsupported {lean_str(str(e))})', 'frame': ['unknown: translator failed'],
             'body': f'[.unsupported {lean_str(str(e))}]', 'steps': [('unknown', 'translator failed')],
             'norm_opts': ('none', 'none'), 'keep_bounds': 'none',
             'complaints': [('translator', f'{type(e).__name__}: {e}')]}
    lines = [
        'import EmsModel.Core.DepthSrc',
        '/- GENERATED by harness/trans_depth.py from the source text of the working tree. Do not edit. -/',
        'namespace Ems.Gen',
        'open Ems Ems.DepthSrc',
        '',
        '/-- `emsarray.operations.depth._find_ocean_floor_indexes`: the returned expression, locals inlined -/',
        'def depthFindFloorIndexes : FExpr :=',
        '  ' + c['floor'],
        '',
        '/-- what surrounds the loop of `emsarray.operations.depth.normalize_depth_variables` -/',
        'def depthNormalizeFrame : List String := [' + ', '.join(lean_str(s) for s in c['frame']) + ']',
        '',
        '/-- the body of `for … in depth_coordinates:` in `emsarray.operations.depth.normalize_depth_variables`, in source',
        'order; locals are slots numbered in order of first assignment (slot 0 = the loop target) -/',
        'def depthNormalizeBody : List NStmt :=',
        '  ' + c['body'],
        '',
        '/-- `emsarray.operations.depth.ocean_floor`: the statements that decide which data the floor index is taken from and',
        'what is indexed with it: every statement in source order, locals renamed v0, v1, … in order of first binding -/',
        'def depthOceanFloorSteps : List (String × String) := [' + (
            '\n    ' + ',\n    '.join(f'({lean_str(a)}, {lean_str(b)})' for a, b in c['steps']) if c['steps'] else '') + ']',
        '',
        '/-- `positive_down=`, `deep_to_shallow=` of the one call of `normalize_depth_variables` in `ocean_floor` -/',
        f"def depthOceanFloorNormalizeOpts : Option Bool × Option Bool := ({c['norm_opts'][0]}, {c['norm_opts'][1]})",
        '',
        '/-- `keep_bounds=` of the one call of `utils.extract_vars` in `ocean_floor` -/',
        f"def depthOceanFloorKeepBounds : Option Bool := {c['keep_bounds']}",
        '',
        '/-- what the translator could not render (function, Python text); empty when everything was understood -/',
        'def depthSrcComplaints : List (String × String) := [' + ', '.join(
            f'({lean_str(a)}, {lean_str(b)})' for a, b in c['complaints']) + ']',
        '',
        'end Ems.Gen',
        '',
    ]
    return '\n'.join(lines)


def complaints() -> list:
    return collect()['complaints']


if __name__ == '__main__':
    import sys
    sys.path.insert(0, str(VERIF))
    print(render())
