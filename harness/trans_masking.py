"""
T — translator for the decision code of `emsarray.masking` (property C08).

On every run this module takes the SOURCE TEXT of `find_fill_value`, `calculate_grid_mask_bounds`, `mask_grid_data_array` and
`mask_grid_dataset` from the working tree under check (`import emsarray.masking`, `inspect.getsource`, `ast`) and re-emits each as a
term of the small languages of `lean/EmsModel/Core/MaskingSrc.lean`, in `lean/EmsModel/Gen/MaskingSrc.lean`:

* `find_fill_value`            → `Gen.msFindFillValue : List (MsCond × MsOutcome)` — the chain of tests in source order, a `for` over a
                                 literal list unrolled, every path ending in a `return` / `raise`;
* `calculate_grid_mask_bounds` → `Gen.msBoundsProg : MsBoundsProg` — which masks / dimensions are walked, the emptiness guard, what is
                                 reduced, and `slice(start, stop)` as integer expressions over a Boolean vector;
* `mask_grid_data_array`       → `Gen.msApplyProg : MsApplyProg` — the `except ValueError` result, the dimension test, the `where` call
                                 returned inside the loop, the fallback;
* `mask_grid_dataset`          → `Gen.msDatasetSteps : List MsDatasetStep` — the order of crop / mask / save / merge.

Locals are inlined (an environment name → expression), parameters are recognised by POSITION, loop variables by their ROLE, so
renaming any of them leaves the generated file byte-identical; `logger.*` calls, docstrings, comments, `del` are dropped.
Whatever is not understood becomes an `.unsupported "<python text>"` term (every evaluator returns `none` on it, no theorem of
`Props/C08Src.lean` accepts it) and is listed in `Gen.maskingSrcComplaints`.  `render()` never raises.
"""
from __future__ import annotations

import ast
import copy
import inspect
import pathlib
import warnings

warnings.simplefilter('ignore')

VERIF = pathlib.Path(__file__).resolve().parent.parent
OUT = VERIF / 'lean' / 'EmsModel' / 'Gen' / 'MaskingSrc.lean'
TARGET = 'EmsModel.Gen.MaskingSrc'

# canonical names the inputs are rewritten to (a `$` cannot occur in a Python identifier, so no clash with a local)
DATA_ARRAY = '$data_array'
MASK = '$mask'
DATASET = '$dataset'
LOOP_MASK = '$loop_mask'
LOOP_MASK_NAME = '$loop_mask_name'
LOOP_DIM = '$loop_dim'
LOOP_VAR = '$loop_var'
LOOP_KEY = '$loop_key'
FILL = '$fill_value'
ENUM_I = '$i'
ENUM_V = '$value'


# --------------------------------------------------------------------------------------------------
# small AST helpers
# --------------------------------------------------------------------------------------------------
def lean_str(s: str) -> str:
    out = []
    for ch in s:
        if ch == '\\':
            out.append('\\\\')
        elif ch == '"':
            out.append('\\"')
        elif ch == '\n':
            out.append('\\n')
        elif ch == '\t':
            out.append('\\t')
        elif ord(ch) < 32 or ord(ch) > 126:
            out.append('?')
        else:
            out.append(ch)
    return '"' + ''.join(out) + '"'


def text(node) -> str:
    try:
        return ast.unparse(node)[:160]
    except Exception:
        return '<unprintable>'


def name(n: str) -> ast.Name:
    return ast.Name(id=n, ctx=ast.Load())


class Subst(ast.NodeTransformer):
    """replace loaded local names by the expressions they hold"""

    def __init__(self, env):
        self.env = env

    def visit_Name(self, node):
        if isinstance(node.ctx, ast.Load) and node.id in self.env:
            return copy.deepcopy(self.env[node.id])
        return node

    # the variables bound by a comprehension shadow the environment
    def _comp(self, node):
        bound = set()
        for g in node.generators:
            for t in ast.walk(g.target):
                if isinstance(t, ast.Name):
                    bound.add(t.id)
        inner = Subst({k: v for k, v in self.env.items() if k not in bound})
        for g in node.generators:
            g.iter = self.visit(g.iter)            # the first iterable is evaluated outside; good enough for the others too
            g.ifs = [inner.visit(i) for i in g.ifs]
        if hasattr(node, 'elt'):
            node.elt = inner.visit(node.elt)
        else:
            node.key = inner.visit(node.key)
            node.value = inner.visit(node.value)
        return node

    visit_GeneratorExp = visit_ListComp = visit_SetComp = visit_DictComp = _comp


def subst(node, env):
    return Subst(env).visit(copy.deepcopy(node))


def chain(node):
    """`a.b.c` → ('a', 'b', 'c'); None when it is not a pure attribute chain on a name"""
    parts = []
    while isinstance(node, ast.Attribute):
        parts.append(node.attr)
        node = node.value
    if isinstance(node, ast.Name):
        parts.append(node.id)
        return tuple(reversed(parts))
    return None


def norm_chain(node):
    c = chain(node)
    if c and c[0] == 'np':
        c = ('numpy',) + c[1:]
    return c


def is_name(node, n) -> bool:
    return isinstance(node, ast.Name) and node.id == n


def call_of(node, *names):
    """is `node` a call of one of the dotted names (`numpy.argmax`, `len`, …)? returns the Call or None"""
    if not isinstance(node, ast.Call):
        return None
    c = norm_chain(node.func)
    if c is None:
        return None
    dotted = '.'.join(c)
    return node if dotted in names else None


def method_of(node, *methods):
    """is `node` a method call `<obj>.<m>(…)` with m in methods? returns (obj, call) or None"""
    if isinstance(node, ast.Call) and isinstance(node.func, ast.Attribute) and node.func.attr in methods:
        return node.func.value, node
    return None


def kw(call: ast.Call, key: str):
    for k in call.keywords:
        if k.arg == key:
            return k.value
    return None


def strip_cast(node):
    """`cast(T, e)` / `typing.cast(T, e)` → e"""
    while True:
        c = call_of(node, 'cast', 'typing.cast')
        if c is not None and len(c.args) == 2 and not c.keywords:
            node = c.args[1]
            continue
        return node


def is_skippable(st) -> bool:
    """statements without a bearing on what is computed: docstrings, logging, `pass`, `del x`"""
    if isinstance(st, ast.Pass):
        return True
    if isinstance(st, ast.Delete):
        return all(isinstance(t, ast.Name) for t in st.targets)
    if isinstance(st, ast.Expr):
        if isinstance(st.value, ast.Constant):
            return True
        if isinstance(st.value, ast.Call):
            c = chain(st.value.func)
            if c and c[0] in ('logger', 'logging', 'log', 'warnings') and len(c) >= 2:
                return True
    return False


def find_function(fn_name):
    import emsarray.masking as masking
    tree = ast.parse(inspect.getsource(masking))
    for st in tree.body:
        if isinstance(st, ast.FunctionDef) and st.name == fn_name:
            return st
    return None


def params_of(fn) -> list:
    return [a.arg for a in fn.args.posonlyargs + fn.args.args]


class Base:
    def __init__(self, where: str):
        self.where = where
        self.complaints: list = []

    def bad(self, what: str) -> str:
        """record a complaint, return the Lean string literal of it"""
        self.complaints.append(what)
        return lean_str(what)

    def assign(self, st, env) -> bool:
        """plain local assignments go into the environment; False when `st` is not one"""
        if isinstance(st, ast.AnnAssign) and isinstance(st.target, ast.Name) and st.value is not None:
            env[st.target.id] = subst(st.value, env)
            return True
        if isinstance(st, ast.Assign) and len(st.targets) == 1:
            t = st.targets[0]
            if isinstance(t, ast.Name):
                env[t.id] = subst(st.value, env)
                return True
            if isinstance(t, (ast.Tuple, ast.List)) and all(isinstance(e, ast.Name) for e in t.elts):
                v = subst(st.value, env)
                if isinstance(v, (ast.Tuple, ast.List)) and len(v.elts) == len(t.elts):
                    for e, x in zip(t.elts, v.elts):
                        env[e.id] = x
                else:
                    for k, e in enumerate(t.elts):
                        env[e.id] = ast.Subscript(value=copy.deepcopy(v), slice=ast.Constant(value=k), ctx=ast.Load())
                return True
        return False


# --------------------------------------------------------------------------------------------------
# 1. find_fill_value → decision list
# --------------------------------------------------------------------------------------------------
class FillTranslator(Base):
    def is_promote(self, node, k: int) -> bool:
        """`maybe_promote(data_array.dtype)[k]`"""
        if not (isinstance(node, ast.Subscript) and isinstance(node.slice, ast.Constant) and node.slice.value == k):
            return False
        c = call_of(node.value, 'maybe_promote', 'dtypes.maybe_promote', 'xarray.core.dtypes.maybe_promote')
        return c is not None and len(c.args) == 1 and not c.keywords and chain(c.args[0]) == (DATA_ARRAY, 'dtype')

    def cond(self, e) -> str:
        if isinstance(e, ast.BoolOp):
            op = '.and' if isinstance(e.op, ast.And) else '.or'
            out = self.cond(e.values[-1])
            for v in reversed(e.values[:-1]):
                out = f'({op} {self.cond(v)} {out})'
            return out
        if isinstance(e, ast.UnaryOp) and isinstance(e.op, ast.Not):
            return f'(.not {self.cond(e.operand)})'
        if isinstance(e, ast.Constant) and e.value is True:
            return '.tt'
        c = call_of(e, 'numpy.ma.is_masked', 'ma.is_masked')
        if c is not None and len(c.args) == 1 and not c.keywords and chain(c.args[0]) in ((DATA_ARRAY, 'values'), (DATA_ARRAY, 'data')):
            return '.isMaskedArray'
        c = call_of(e, 'issubclass')
        if c is not None and len(c.args) == 2 and chain(c.args[0]) == (DATA_ARRAY, 'dtype', 'type') \
                and norm_chain(c.args[1]) == ('numpy', 'floating'):
            return '.dtypeFloating'
        c = call_of(e, 'numpy.issubdtype')
        if c is not None and len(c.args) == 2 and chain(c.args[0]) == (DATA_ARRAY, 'dtype') \
                and norm_chain(c.args[1]) == ('numpy', 'floating'):
            return '.dtypeFloating'
        if isinstance(e, ast.Compare) and len(e.ops) == 1:
            op, left, right = e.ops[0], e.left, e.comparators[0]
            if isinstance(op, (ast.In, ast.NotIn)) and isinstance(left, ast.Constant) and isinstance(left.value, str):
                t = None
                if chain(right) == (DATA_ARRAY, 'attrs'):
                    t = f'(.hasAttr {lean_str(left.value)})'
                elif chain(right) == (DATA_ARRAY, 'encoding'):
                    t = f'(.inEncoding {lean_str(left.value)})'
                if t is not None:
                    return t if isinstance(op, ast.In) else f'(.not {t})'
            if isinstance(op, (ast.Eq, ast.NotEq)):
                dt = (DATA_ARRAY, 'dtype')
                if (self.is_promote(left, 0) and chain(right) == dt) or (self.is_promote(right, 0) and chain(left) == dt):
                    return '.dtypeSelfPromotes' if isinstance(op, ast.Eq) else '(.not .dtypeSelfPromotes)'
        return f'(.unsupported {self.bad(text(e))})'

    def outcome(self, e) -> str:
        if e is None or (isinstance(e, ast.Constant) and e.value is None):
            return '.returnNone'
        e = strip_cast(e)
        if norm_chain(e) in (('numpy', 'ma', 'masked'), ('ma', 'masked')):
            return '.maskedConstant'
        if norm_chain(e) in (('numpy', 'nan'), ('numpy', 'NaN'), ('numpy', 'NAN'), ('math', 'nan')):
            return '.nan'
        if isinstance(e, ast.Subscript) and chain(e.value) == (DATA_ARRAY, 'attrs') \
                and isinstance(e.slice, ast.Constant) and isinstance(e.slice.value, str):
            return f'(.attrValue {lean_str(e.slice.value)})'
        if self.is_promote(e, 1):
            return '.promotedFill'
        return f'(.unsupported {self.bad(text(e))})'

    def conj(self, pc, c):
        return c if pc is None else f'(.and {pc} {c})'

    def poison(self, clauses, what):
        s = self.bad(what)
        clauses.append((f'(.unsupported {s})', f'(.unsupported {s})'))

    def walk(self, stmts, env, pc, clauses) -> bool:
        """append the clauses of `stmts` (under the path condition `pc`); True when every path through them ends"""
        for st in stmts:
            if is_skippable(st):
                continue
            if self.assign(st, env):
                continue
            if isinstance(st, ast.Return):
                clauses.append((pc or '.tt', self.outcome(subst(st.value, env) if st.value is not None else None)))
                return True
            if isinstance(st, ast.Raise):
                exc = st.exc
                c = exc.func if isinstance(exc, ast.Call) else exc
                if is_name(c, 'ValueError'):
                    clauses.append((pc or '.tt', '.raiseValueError'))
                else:
                    clauses.append((pc or '.tt', f'(.unsupported {self.bad(text(st))})'))
                return True
            if isinstance(st, ast.For) and isinstance(st.target, ast.Name) and not st.orelse:
                it = subst(st.iter, env)
                if isinstance(it, (ast.List, ast.Tuple)) and all(isinstance(x, ast.Constant) for x in it.elts):
                    ended = False
                    for x in it.elts:
                        env[st.target.id] = x
                        if self.walk(st.body, env, pc, clauses):
                            ended = True
                            break
                    if ended:
                        return True
                    continue
                self.poison(clauses, f'loop over something that is not a literal list: {text(st.iter)}')
                return True
            if isinstance(st, ast.If):
                c = self.cond(subst(st.test, env))
                inner = dict(env)
                if not self.walk(st.body, inner, self.conj(pc, c), clauses):
                    if any(not is_skippable(b) for b in st.body):
                        self.poison(clauses, f'a branch that neither returns nor raises: if {text(st.test)}')
                        return True
                    if st.orelse:
                        self.poison(clauses, f'else of a branch that falls through: if {text(st.test)}')
                        return True
                    continue
                # the branch ended on every path: an `else` is what follows
                if st.orelse and self.walk(st.orelse, env, pc, clauses):
                    return True
                continue
            self.poison(clauses, text(st))
            return True
        return False

    def run(self, fn) -> list:
        ps = params_of(fn)
        if len(ps) < 1:
            s = self.bad('find_fill_value takes no parameter')
            return [(f'(.unsupported {s})', f'(.unsupported {s})')]
        env = {ps[0]: name(DATA_ARRAY)}
        clauses: list = []
        if not self.walk(fn.body, env, None, clauses):
            clauses.append(('.tt', '.returnNone'))
        return clauses


# --------------------------------------------------------------------------------------------------
# 2. calculate_grid_mask_bounds → MsBoundsProg
# --------------------------------------------------------------------------------------------------
def is_data_vars_iter(it, ds_name):
    """`<ds>.data_vars.items()` → 'items', `<ds>.data_vars.values()` → 'values', else None"""
    m = method_of(it, 'items', 'values')
    if m and not m[1].args and not m[1].keywords and chain(m[0]) == (ds_name, 'data_vars'):
        return m[1].func.attr
    return None


def bind_loop(st: ast.For, env, ds_name, key_name, value_name) -> bool:
    """bind the targets of `for k, v in <ds>.data_vars.items()` / `for v in <ds>.data_vars.values()` by role"""
    kind = is_data_vars_iter(subst(st.iter, env), ds_name)
    if kind == 'items' and isinstance(st.target, ast.Tuple) and len(st.target.elts) == 2 \
            and all(isinstance(e, ast.Name) for e in st.target.elts):
        env[st.target.elts[0].id] = name(key_name)
        env[st.target.elts[1].id] = name(value_name)
        return True
    if kind == 'values' and isinstance(st.target, ast.Name):
        env[st.target.id] = name(value_name)
        return True
    return False


def strip_mask_wrappers(node):
    """`m.reset_coords(drop=True)`, `m.copy()` are the mask itself"""
    while True:
        m = method_of(node, 'reset_coords', 'copy')
        if m is None:
            return node
        obj, call = m
        if call.func.attr == 'reset_coords':
            d = kw(call, 'drop')
            if call.args or not (isinstance(d, ast.Constant) and d.value is True) or len(call.keywords) != 1:
                return node
        elif call.args or call.keywords:
            return node
        node = obj


class BoundsTranslator(Base):
    def __init__(self, where):
        super().__init__(where)
        self.reduce = None       # Lean term once seen

    def is_mask_dims(self, node) -> bool:
        return chain(node) == (LOOP_MASK, 'dims')

    def is_other_dims(self, node) -> bool:
        """every dimension of the loop mask but the loop dimension"""
        c = call_of(node, 'list', 'tuple', 'set', 'sorted')
        if c is not None and len(c.args) == 1 and not c.keywords:
            return self.is_other_dims(c.args[0])
        if isinstance(node, ast.BinOp) and isinstance(node.op, ast.Sub):
            l, r = node.left, node.right
            lc = call_of(l, 'set', 'frozenset')
            if lc is not None and len(lc.args) == 1 and self.is_mask_dims(lc.args[0]) \
                    and isinstance(r, ast.Set) and len(r.elts) == 1 and is_name(r.elts[0], LOOP_DIM):
                return True
        if isinstance(node, (ast.ListComp, ast.GeneratorExp, ast.SetComp)) and len(node.generators) == 1:
            g = node.generators[0]
            if isinstance(g.target, ast.Name) and is_name(node.elt, g.target.id) and self.is_mask_dims(g.iter) and len(g.ifs) == 1:
                t = g.ifs[0]
                if isinstance(t, ast.Compare) and len(t.ops) == 1 and isinstance(t.ops[0], ast.NotEq):
                    a, b = t.left, t.comparators[0]
                    if (is_name(a, g.target.id) and is_name(b, LOOP_DIM)) or (is_name(b, g.target.id) and is_name(a, LOOP_DIM)):
                        return True
        return False

    def vec(self, e) -> str:
        e = strip_cast(e)
        c = call_of(e, 'reversed', 'numpy.flip')
        if c is not None and len(c.args) == 1 and not c.keywords:
            return f'(.reversed {self.vec(c.args[0])})'
        if isinstance(e, ast.Subscript) and isinstance(e.slice, ast.Slice) and e.slice.lower is None and e.slice.upper is None \
                and isinstance(e.slice.step, ast.UnaryOp) and isinstance(e.slice.step.op, ast.USub) \
                and isinstance(e.slice.step.operand, ast.Constant) and e.slice.step.operand.value == 1:
            return f'(.reversed {self.vec(e.value)})'
        c = call_of(e, 'list', 'tuple', 'numpy.asarray', 'numpy.array')
        if c is not None and len(c.args) == 1 and not c.keywords:
            return self.vec(c.args[0])
        if isinstance(e, ast.Attribute) and e.attr in ('values', 'data'):
            return self.vec(e.value)
        m = method_of(e, 'any')
        if m is not None and is_name(m[0], LOOP_MASK) and not m[1].args and len(m[1].keywords) == 1:
            d = kw(m[1], 'dim')
            if d is not None and self.is_other_dims(d):
                self.reduce = self.reduce or '.anyOverOtherDims'
                return '.values'
            what = self.bad(f'reduction over something else than the other dimensions: {text(e)}')
            self.reduce = f'(.unsupported {what})'
            return f'(.unsupported {what})'
        return f'(.unsupported {self.bad(text(e))})'

    def int_(self, e, idx=None) -> str:
        e = strip_cast(e)
        if isinstance(e, ast.Constant) and isinstance(e.value, int) and not isinstance(e.value, bool):
            return f'(.lit {e.value})' if e.value >= 0 else f'(.lit ({e.value}))'
        if isinstance(e, ast.UnaryOp) and isinstance(e.op, ast.USub) and isinstance(e.operand, ast.Constant) \
                and isinstance(e.operand.value, int):
            return f'(.lit (-{e.operand.value}))'
        if idx is not None and is_name(e, idx):
            return '.idx'
        if isinstance(e, ast.BinOp) and isinstance(e.op, (ast.Add, ast.Sub)):
            op = '.add' if isinstance(e.op, ast.Add) else '.sub'
            return f'({op} {self.int_(e.left, idx)} {self.int_(e.right, idx)})'
        c = call_of(e, 'int')
        if c is not None and len(c.args) == 1 and not c.keywords:
            return self.int_(c.args[0], idx)
        m = method_of(e, 'item')
        if m is not None and not m[1].args and not m[1].keywords:
            return self.int_(m[0], idx)
        c = call_of(e, 'len')
        if c is not None and len(c.args) == 1 and not c.keywords:
            return f'(.len {self.vec(c.args[0])})'
        if isinstance(e, ast.Attribute) and e.attr == 'size':
            return f'(.len {self.vec(e.value)})'
        c = call_of(e, 'numpy.argmax')
        if c is not None and len(c.args) == 1 and not c.keywords:
            return f'(.argmax {self.vec(c.args[0])})'
        m = method_of(e, 'argmax')
        if m is not None and not m[1].args and not m[1].keywords:
            return f'(.argmax {self.vec(m[0])})'
        c = call_of(e, 'next')
        if c is not None and len(c.args) == 1 and not c.keywords and isinstance(c.args[0], ast.GeneratorExp) \
                and len(c.args[0].generators) == 1:
            g = c.args[0].generators[0]
            en = call_of(g.iter, 'enumerate')
            if en is not None and len(en.args) == 1 and not en.keywords and not g.is_async \
                    and isinstance(g.target, ast.Tuple) and len(g.target.elts) == 2 \
                    and all(isinstance(t, ast.Name) for t in g.target.elts) and len(g.ifs) == 1:
                i_name, v_name = g.target.elts[0].id, g.target.elts[1].id
                test = g.ifs[0]
                want = None
                if is_name(test, v_name):
                    want = 'true'
                elif isinstance(test, ast.UnaryOp) and isinstance(test.op, ast.Not) and is_name(test.operand, v_name):
                    want = 'false'
                if want is not None and i_name != v_name:
                    return f'(.nextEnum {self.vec(en.args[0])} {want} {self.int_(c.args[0].elt, i_name)})'
        return f'(.unsupported {self.bad(text(e))})'

    def run(self, fn) -> dict:
        un = lambda what: f'(.unsupported {self.bad(what)})'
        out = {'maskIter': None, 'guard': None, 'dimIter': None, 'slice': None, 'store': None}
        ps = params_of(fn)
        if len(ps) < 1:
            w = 'calculate_grid_mask_bounds takes no parameter'
            return {'maskIter': un(w), 'guard': un(w), 'dimIter': un(w), 'reduce': un(w),
                    'slice': (un(w), un(w)), 'store': un(w)}
        env = {ps[0]: name(MASK)}
        store_var = None
        loops = []
        returned = None
        trouble = []
        for st in fn.body:
            if is_skippable(st):
                continue
            if isinstance(st, (ast.Assign, ast.AnnAssign)):
                t = st.targets[0] if isinstance(st, ast.Assign) and len(st.targets) == 1 else getattr(st, 'target', None)
                v = st.value
                empty = (isinstance(v, ast.Dict) and not v.keys) or (call_of(v, 'dict') is not None and not v.args and not v.keywords)
                if isinstance(t, ast.Name) and empty and store_var is None and not loops:
                    store_var = t.id
                    continue
                if self.assign(st, env):
                    continue
            if isinstance(st, ast.For) and not st.orelse and returned is None:
                loops.append(st)
                continue
            if isinstance(st, ast.Return) and returned is None:
                returned = st.value
                continue
            trouble.append(text(st))
        if len(loops) != 1:
            trouble.append(f'{len(loops)} top-level loops')
        if trouble:
            w = 'statements not understood: ' + ' ;; '.join(trouble)
            out['maskIter'] = un(w)
        store_ok = store_var is not None and is_name(returned, store_var)
        # ---- the loop over the masks
        guard = None
        dim_loops = []
        if loops:
            loop = loops[0]
            if out['maskIter'] is None:
                out['maskIter'] = '.dataVarsInOrder' if bind_loop(loop, env, MASK, LOOP_MASK_NAME, LOOP_MASK) \
                    else un(f'the masks are walked as: for {text(loop.target)} in {text(loop.iter)}')
            else:
                bind_loop(loop, env, MASK, LOOP_MASK_NAME, LOOP_MASK)
            body_trouble = []
            for st in loop.body:
                if is_skippable(st):
                    continue
                if isinstance(st, ast.If) and not st.orelse and guard is None and not dim_loops:
                    guard = self.guard(st, env)
                    continue
                if isinstance(st, ast.For) and not st.orelse:
                    dim_loops.append(st)
                    continue
                if not dim_loops and self.assign(st, env):
                    continue
                body_trouble.append(text(st))
            if len(dim_loops) != 1:
                body_trouble.append(f'{len(dim_loops)} loops over dimensions')
            if body_trouble:
                out['dimIter'] = un('loop body not understood: ' + ' ;; '.join(body_trouble))
        out['guard'] = guard or '.absent'
        # ---- the loop over the dimensions
        slice_terms = None
        if dim_loops:
            dl = dim_loops[0]
            it = subst(dl.iter, env)
            if isinstance(dl.target, ast.Name) and self.is_mask_dims(it):
                env[dl.target.id] = name(LOOP_DIM)
                if out['dimIter'] is None:
                    out['dimIter'] = '.maskDimsInOrder'
            elif out['dimIter'] is None:
                out['dimIter'] = un(f'the dimensions are walked as: for {text(dl.target)} in {text(dl.iter)}')
            stored = 0
            inner_trouble = []
            for st in dl.body:
                if is_skippable(st):
                    continue
                if self.assign(st, env):
                    continue
                if isinstance(st, ast.Assign) and len(st.targets) == 1 and isinstance(st.targets[0], ast.Subscript):
                    t = st.targets[0]
                    key = subst(t.slice, env)
                    v = subst(st.value, env)
                    sl = call_of(v, 'slice')
                    if store_var is not None and is_name(t.value, store_var) and is_name(key, LOOP_DIM) and stored == 0:
                        stored += 1
                        if sl is not None and len(sl.args) == 2 and not sl.keywords:
                            slice_terms = (self.int_(sl.args[0]), self.int_(sl.args[1]))
                        else:
                            w = un(f'what is stored is not slice(start, stop): {text(st.value)}')
                            slice_terms = (w, w)
                        continue
                inner_trouble.append(text(st))
            if stored != 1:
                inner_trouble.append(f'{stored} assignments bounds[dimension] = …')
            if inner_trouble:
                store_ok = False
                out['store'] = un('dimension loop not understood: ' + ' ;; '.join(inner_trouble))
        if out['store'] is None:
            out['store'] = '.byDimension' if store_ok else un('the slices are not collected in one dict keyed by dimension and returned')
        if slice_terms is None:
            w = un('no slice found')
            slice_terms = (w, w)
        out['slice'] = slice_terms
        out['dimIter'] = out['dimIter'] or un('no loop over the dimensions')
        out['maskIter'] = out['maskIter'] or un('no loop over the masks')
        out['reduce'] = self.reduce or un('the vector `values` is never used')
        return out

    def guard(self, st: ast.If, env) -> str:
        """`if not <loop mask>.any().item(): raise ValueError(…)`"""
        t = subst(st.test, env)
        body = [b for b in st.body if not is_skippable(b)]
        raises = len(body) == 1 and isinstance(body[0], ast.Raise) and body[0].exc is not None and \
            is_name(body[0].exc.func if isinstance(body[0].exc, ast.Call) else body[0].exc, 'ValueError')
        ok = False
        if isinstance(t, ast.UnaryOp) and isinstance(t.op, ast.Not):
            x = t.operand
            c = call_of(x, 'bool')
            if c is not None and len(c.args) == 1 and not c.keywords:
                x = c.args[0]
            m = method_of(x, 'item')
            if m is not None and not m[1].args and not m[1].keywords:
                x = m[0]
            if isinstance(x, ast.Attribute) and x.attr in ('values', 'data'):
                x = x.value
            m = method_of(x, 'any')
            if m is not None and not m[1].args and not m[1].keywords:
                obj = m[0]
                if isinstance(obj, ast.Attribute) and obj.attr in ('values', 'data'):
                    obj = obj.value
                ok = is_name(obj, LOOP_MASK)
        if ok and raises:
            return '.raiseIfNoTrue'
        return f'(.unsupported {self.bad("guard not understood: " + text(st))})'


# --------------------------------------------------------------------------------------------------
# 3. mask_grid_data_array → MsApplyProg
# --------------------------------------------------------------------------------------------------
class ApplyTranslator(Base):
    def dims(self, node):
        """`set(data_array.dims)` → '.varDims', `set(<loop mask>.dims)` → '.maskDims'"""
        c = call_of(node, 'set', 'frozenset')
        if c is None or len(c.args) != 1 or c.keywords:
            return None
        a = c.args[0]
        if chain(a) == (DATA_ARRAY, 'dims'):
            return '.varDims'
        if isinstance(a, ast.Attribute) and a.attr == 'dims' and is_name(strip_mask_wrappers(a.value), LOOP_MASK):
            return '.maskDims'
        return None

    def raw_dims(self, node):
        if chain(node) == (DATA_ARRAY, 'dims'):
            return '.varDims'
        if isinstance(node, ast.Attribute) and node.attr == 'dims' and is_name(strip_mask_wrappers(node.value), LOOP_MASK):
            return '.maskDims'
        return None

    def test(self, e) -> str:
        if isinstance(e, ast.Compare) and len(e.ops) == 1:
            a, b = self.dims(e.left), self.dims(e.comparators[0])
            op = e.ops[0]
            if a and b:
                if isinstance(op, ast.LtE):
                    return f'(.subset {a} {b})'
                if isinstance(op, ast.GtE):
                    return f'(.subset {b} {a})'
                if isinstance(op, ast.Lt):
                    return f'(.properSubset {a} {b})'
                if isinstance(op, ast.Gt):
                    return f'(.properSubset {b} {a})'
                if isinstance(op, ast.Eq):
                    return f'(.sameSet {a} {b})'
        m = method_of(e, 'issubset', 'issuperset')
        if m is not None and len(m[1].args) == 1 and not m[1].keywords:
            a = self.dims(m[0])
            b = self.dims(m[1].args[0]) or self.raw_dims(m[1].args[0])
            if a and b:
                return f'(.subset {a} {b})' if m[1].func.attr == 'issubset' else f'(.subset {b} {a})'
        c = call_of(e, 'all')
        if c is not None and len(c.args) == 1 and not c.keywords and isinstance(c.args[0], (ast.GeneratorExp, ast.ListComp)) \
                and len(c.args[0].generators) == 1:
            g = c.args[0].generators[0]
            elt = c.args[0].elt
            if isinstance(g.target, ast.Name) and not g.ifs and isinstance(elt, ast.Compare) and len(elt.ops) == 1 \
                    and isinstance(elt.ops[0], ast.In) and is_name(elt.left, g.target.id):
                a = self.raw_dims(g.iter) or self.dims(g.iter)
                b = self.raw_dims(elt.comparators[0]) or self.dims(elt.comparators[0])
                if a and b:
                    return f'(.subset {a} {b})'
        return f'(.unsupported {self.bad("dimension test not understood: " + text(e))})'

    def ret(self, e, restores=()) -> str:
        if e is None:
            return f'(.unsupported {self.bad("returns nothing")})'
        e = strip_cast(e)
        if is_name(e, DATA_ARRAY):
            return '.dataArray'
        m = method_of(e, 'where')
        if m is not None and is_name(m[0], DATA_ARRAY):
            call = m[1]
            args = list(call.args)
            cond = args[0] if args else kw(call, 'cond')
            other = args[1] if len(args) > 1 else kw(call, 'other')
            extra = [k.arg for k in call.keywords if k.arg not in ('cond', 'other')]
            if cond is not None and not extra and len(args) <= 2:
                cn = strip_mask_wrappers(cond)
                ct = '.loopMask' if is_name(cn, LOOP_MASK) else f'(.unsupported {self.bad("where() condition: " + text(cond))})'
                if other is None:
                    ot = '.dflt'
                elif is_name(other, FILL):
                    ot = '.fillValue'
                else:
                    ot = f'(.unsupported {self.bad("where() other: " + text(other))})'
                rs = ', '.join(lean_str(r) for r in restores)
                return f'(.whereMask {ct} {ot} [{rs}])'
        return f'(.unsupported {self.bad("returned value not understood: " + text(e))})'

    def returned(self, stmts, env) -> str | None:
        """a block of assignments ending in `return …`: the returned term; None when the block has another shape"""
        restores: dict = {}       # local name → fields copied back from the data array
        for st in stmts:
            if is_skippable(st):
                continue
            if isinstance(st, ast.Assign) and len(st.targets) == 1 and isinstance(st.targets[0], ast.Attribute) \
                    and isinstance(st.targets[0].value, ast.Name):
                t = st.targets[0]
                v = subst(st.value, env)
                holder = env.get(t.value.id)
                if holder is not None and chain(v) == (DATA_ARRAY, t.attr):
                    restores.setdefault(t.value.id, []).append(t.attr)
                    continue
                return None
            if self.assign(st, env):
                continue
            if isinstance(st, ast.Return):
                rs = ()
                if isinstance(st.value, ast.Name):
                    rs = tuple(sorted(set(restores.get(st.value.id, []))))
                return self.ret(subst(st.value, env) if st.value is not None else None, rs)
            return None
        return None

    def run(self, fn) -> dict:
        un = lambda what: f'(.unsupported {self.bad(what)})'
        ps = params_of(fn)
        if len(ps) < 2:
            w = 'mask_grid_data_array takes fewer than two parameters'
            return {k: un(w) for k in ('noFill', 'maskIter', 'test', 'pick', 'onMatch', 'fallback')}
        env = {ps[0]: name(MASK), ps[1]: name(DATA_ARRAY)}
        out = {k: None for k in ('noFill', 'maskIter', 'test', 'pick', 'onMatch', 'fallback')}
        stage = 0     # 0 before the try, 1 before the loop, 2 after the loop
        trouble = []
        body = list(fn.body)
        k = 0
        while k < len(body):
            st = body[k]
            k += 1
            if is_skippable(st):
                continue
            if isinstance(st, ast.Try) and stage == 0:
                stage = 1
                inner = [b for b in st.body if not is_skippable(b)]
                ok = len(inner) == 1 and isinstance(inner[0], ast.Assign) and len(inner[0].targets) == 1 \
                    and isinstance(inner[0].targets[0], ast.Name)
                if ok:
                    c = call_of(subst(inner[0].value, env), 'find_fill_value', 'masking.find_fill_value')
                    ok = c is not None and len(c.args) == 1 and not c.keywords and is_name(c.args[0], DATA_ARRAY)
                ok = ok and not st.orelse and not st.finalbody and len(st.handlers) == 1 \
                    and is_name(st.handlers[0].type, 'ValueError')
                if ok:
                    env[inner[0].targets[0].id] = name(FILL)
                    r = self.returned(st.handlers[0].body, dict(env))
                    out['noFill'] = r or un('the handler of ValueError does not end in a return: ' + text(st.handlers[0]))
                else:
                    out['noFill'] = un('not `try: x = find_fill_value(data_array) except ValueError: return …`: ' + text(st))
                continue
            if isinstance(st, ast.For) and stage <= 1 and not st.orelse:
                if stage == 0:
                    out['noFill'] = un('find_fill_value is not called in a try block before the loop')
                stage = 2
                out['maskIter'] = '.dataVarsInOrder' if bind_loop(st, env, MASK, LOOP_MASK_NAME, LOOP_MASK) \
                    else un(f'the masks are walked as: for {text(st.target)} in {text(st.iter)}')
                self.loop_body(st.body, dict(env), out)
                continue
            if isinstance(st, ast.Return) and stage == 2 and out['fallback'] is None:
                out['fallback'] = self.ret(subst(st.value, env) if st.value is not None else None)
                if any(not is_skippable(b) for b in body[k:]):
                    trouble.append('statements after the final return')
                break
            if stage < 2 and self.assign(st, env):
                continue
            trouble.append(text(st))
        if trouble:
            out['pick'] = un('statements not understood: ' + ' ;; '.join(trouble))
        for key, why in (('noFill', 'no try block round find_fill_value'), ('maskIter', 'no loop over the masks'),
                         ('test', 'no dimension test'), ('pick', 'no return inside the loop'),
                         ('onMatch', 'no return inside the loop'), ('fallback', 'no return after the loop')):
            if out[key] is None:
                out[key] = un(why)
        return out

    def loop_body(self, stmts, env, out) -> None:
        un = lambda what: f'(.unsupported {self.bad(what)})'
        stmts = [s for s in stmts if not is_skippable(s)]
        # leading assignments
        while stmts and self.assign(stmts[0], env):
            stmts = stmts[1:]
        if not stmts or not isinstance(stmts[0], ast.If) or stmts[0].orelse:
            out['test'] = un('loop body is not `if <dimension test>: … return …`: ' + (text(stmts[0]) if stmts else 'empty'))
            return
        st = stmts[0]
        test_node = subst(st.test, env)
        block = st.body
        rest = stmts[1:]
        inner = [b for b in st.body if not is_skippable(b)]
        if isinstance(test_node, ast.UnaryOp) and isinstance(test_node.op, ast.Not) and len(inner) == 1 \
                and isinstance(inner[0], ast.Continue):
            # `if not <test>: continue` followed by the rest of the body
            test_node = test_node.operand
            block = rest
            rest = []
        out['test'] = self.test(test_node)
        r = self.returned(block, dict(env))
        if r is None:
            out['pick'] = un('the branch of a mask that passes the test does not end in a return (is the last match used?)')
            out['onMatch'] = un('no return inside the loop')
        else:
            out['pick'] = '.firstMatch'
            out['onMatch'] = r
        if rest:
            out['pick'] = un('statements after the test inside the loop: ' + ' ;; '.join(text(s) for s in rest))


# --------------------------------------------------------------------------------------------------
# 4. mask_grid_dataset → the order of the steps
# --------------------------------------------------------------------------------------------------
class DatasetTranslator(Base):
    def run(self, fn) -> list:
        un = lambda what: f'(.unsupported {self.bad(what)})'
        ps = params_of(fn)
        if len(ps) < 2:
            return [un('mask_grid_dataset takes fewer than two parameters')]
        # what the names hold: ('mask'|'dataset', cropped?) | 'bounds' | 'paths' | 'merged' | other expressions
        env: dict = {}
        role = {ps[0]: ('dataset', False), ps[1]: ('mask', False)}
        steps: list = []

        def b(x):
            return 'true' if x else 'false'

        def role_of(node):
            return role.get(node.id) if isinstance(node, ast.Name) else None

        for st in fn.body:
            if is_skippable(st):
                continue
            if isinstance(st, (ast.Assign, ast.AnnAssign)):
                t = st.targets[0] if isinstance(st, ast.Assign) and len(st.targets) == 1 else getattr(st, 'target', None)
                v = strip_cast(st.value) if st.value is not None else None
                if isinstance(t, ast.Name) and v is not None:
                    c = call_of(v, 'calculate_grid_mask_bounds')
                    if c is not None and len(c.args) == 1 and not c.keywords and role_of(c.args[0]) == ('mask', False):
                        role[t.id] = 'bounds'
                        steps.append('.computeBounds')
                        continue
                    m = method_of(v, 'isel')
                    if m is not None and len(m[1].args) == 1 and not m[1].keywords and role_of(m[1].args[0]) == 'bounds' \
                            and role_of(m[0]) in (('mask', False), ('dataset', False)):
                        kind = role_of(m[0])[0]
                        role[t.id] = (kind, True)
                        steps.append('.cropMask' if kind == 'mask' else '.cropDataset')
                        continue
                    if call_of(v, 'pathlib.Path', 'Path') is not None or (isinstance(v, (ast.List, ast.Tuple)) and not v.elts) \
                            or (isinstance(v, ast.BinOp) and isinstance(v.op, ast.Div)):
                        role[t.id] = 'paths'
                        continue
                    c = call_of(v, 'xarray.open_mfdataset', 'xr.open_mfdataset')
                    if c is not None:
                        role[t.id] = 'merged'
                        steps.append('.mergeFiles')
                        continue
                steps.append(un(text(st)))
                continue
            if isinstance(st, ast.For) and not st.orelse:
                it = st.iter
                m = method_of(it, 'items')
                ds = None
                if m is not None and isinstance(m[0], ast.Attribute) and m[0].attr == 'data_vars':
                    ds = role_of(m[0].value)
                if ds and ds[0] == 'dataset' and isinstance(st.target, ast.Tuple) and len(st.target.elts) == 2 \
                        and all(isinstance(e, ast.Name) for e in st.target.elts):
                    var_name = st.target.elts[1].id
                    found = None
                    for node in ast.walk(ast.Module(body=st.body, type_ignores=[])):
                        c = call_of(node, 'mask_grid_data_array')
                        if c is not None:
                            found = c
                    if found is not None and len(found.args) == 2 and not found.keywords and is_name(found.args[1], var_name) \
                            and role_of(found.args[0]) and role_of(found.args[0])[0] == 'mask':
                        steps.append(f'(.maskEachDataVar {b(role_of(found.args[0])[1])} {b(ds[1])})')
                        continue
                steps.append(un('loop not understood: for ' + text(st.target) + ' in ' + text(st.iter)))
                continue
            if isinstance(st, ast.Expr) and isinstance(st.value, ast.Call):
                c = st.value
                m = method_of(c, 'append')
                if m is not None and role_of(m[0]) == 'paths':
                    continue
                if call_of(c, 'utils.to_netcdf_with_fixes', 'to_netcdf_with_fixes') is not None and c.args:
                    d = call_of(c.args[0], 'xarray.Dataset', 'xr.Dataset')
                    co = kw(d, 'coords') if d is not None else None
                    if d is not None and not d.args and co is not None and isinstance(co, ast.Attribute) and co.attr == 'coords' \
                            and role_of(co.value) and role_of(co.value)[0] == 'dataset':
                        steps.append(f'(.saveCoords {b(role_of(co.value)[1])})')
                        continue
                steps.append(un(text(st)))
                continue
            if isinstance(st, ast.Return):
                c = call_of(st.value, 'utils.dataset_like', 'dataset_like') if st.value is not None else None
                if c is not None and len(c.args) == 2 and not c.keywords and role_of(c.args[0]) and role_of(c.args[0])[0] == 'dataset' \
                        and role_of(c.args[1]) == 'merged':
                    steps.append(f'(.returnLike {b(role_of(c.args[0])[1])})')
                else:
                    steps.append(un(text(st)))
                break
            steps.append(un(text(st)))
        return steps


# --------------------------------------------------------------------------------------------------
# rendering
# --------------------------------------------------------------------------------------------------
def safe(where, fn_name, make, fallback):
    """run one translator; any surprise is a complaint and the fallback term"""
    tr = make(where)
    try:
        fn = find_function(fn_name)
        if fn is None:
            return fallback(tr, f'no function {fn_name} in the source of emsarray.masking'), tr.complaints
        return tr.run(fn), tr.complaints
    except Exception as e:                                   # never crash a run
        tr2 = make(where)
        return fallback(tr2, f'{type(e).__name__}: {e}'), tr2.complaints


def render_inner() -> str:
    def un(tr, what):
        return f'(.unsupported {tr.bad(what)})'

    fill, c1 = safe('find_fill_value', 'find_fill_value', FillTranslator,
                    lambda tr, w: [(un(tr, w), un(tr, w))])
    bounds, c2 = safe('calculate_grid_mask_bounds', 'calculate_grid_mask_bounds', BoundsTranslator,
                      lambda tr, w: {'maskIter': un(tr, w), 'guard': un(tr, w), 'dimIter': un(tr, w), 'reduce': un(tr, w),
                                     'slice': (un(tr, w), un(tr, w)), 'store': un(tr, w)})
    apply_, c3 = safe('mask_grid_data_array', 'mask_grid_data_array', ApplyTranslator,
                      lambda tr, w: {k: un(tr, w) for k in ('noFill', 'maskIter', 'test', 'pick', 'onMatch', 'fallback')})
    steps, c4 = safe('mask_grid_dataset', 'mask_grid_dataset', DatasetTranslator, lambda tr, w: [un(tr, w)])

    lines = [
        'import EmsModel.Core.MaskingSrc',
        '/- GENERATED by harness/trans_masking.py from the source text of emsarray.masking in the working tree. Do not edit. -/',
        'namespace Ems.Gen',
        'open Ems',
        '',
        '/-- `emsarray.masking.find_fill_value`: (test, how the function ends), in source order -/',
        'def msFindFillValue : List (MsCond × MsOutcome) := [',
        ',\n'.join(f'    ({c}, {o})' for c, o in fill) + ']',
        '',
        '/-- `emsarray.masking.calculate_grid_mask_bounds` -/',
        'def msBoundsProg : MsBoundsProg where',
        f"  maskIter := {bounds['maskIter']}",
        f"  guard := {bounds['guard']}",
        f"  dimIter := {bounds['dimIter']}",
        f"  reduce := {bounds['reduce']}",
        '  slice := {',
        f"    start := {bounds['slice'][0]},",
        f"    stop := {bounds['slice'][1]} }}",
        f"  store := {bounds['store']}",
        '',
        '/-- `emsarray.masking.mask_grid_data_array` -/',
        'def msApplyProg : MsApplyProg where',
        f"  noFill := {apply_['noFill']}",
        f"  maskIter := {apply_['maskIter']}",
        f"  test := {apply_['test']}",
        f"  pick := {apply_['pick']}",
        f"  onMatch := {apply_['onMatch']}",
        f"  fallback := {apply_['fallback']}",
        '',
        '/-- `emsarray.masking.mask_grid_dataset`: its steps in source order -/',
        'def msDatasetSteps : List MsDatasetStep := [',
        ',\n'.join(f'    {s}' for s in steps) + ']',
        '',
        '/-- what the translator could not render (function, Python text); empty when everything was understood -/',
        'def maskingSrcComplaints : List (String × String) := [',
        ',\n'.join(f'    ({lean_str(w)}, {lean_str(c)})' for w, cs in (('find_fill_value', c1), ('calculate_grid_mask_bounds', c2),
                                                                        ('mask_grid_data_array', c3), ('mask_grid_dataset', c4))
                   for c in cs) + ']',
        '',
        'end Ems.Gen',
        '',
    ]
    return '\n'.join(lines)


def render() -> str:
    """the complete text of Gen/MaskingSrc.lean for the source as it is now; never raises"""
    try:
        return render_inner()
    except Exception as e:                                   # pragma: no cover — belt and braces
        w = lean_str(f'translator failed: {type(e).__name__}: {e}')
        u = f'(.unsupported {w})'
        return '\n'.join([
            'import EmsModel.Core.MaskingSrc',
            '/- GENERATED by harness/trans_masking.py: the translator itself failed. Do not edit. -/',
            'namespace Ems.Gen', 'open Ems', '',
            f'def msFindFillValue : List (MsCond × MsOutcome) := [({u}, {u})]',
            f'def msBoundsProg : MsBoundsProg := ⟨{u}, {u}, {u}, {u}, ⟨{u}, {u}⟩, {u}⟩',
            f'def msApplyProg : MsApplyProg := ⟨{u}, {u}, {u}, {u}, {u}, {u}⟩',
            f'def msDatasetSteps : List MsDatasetStep := [{u}]',
            f'def maskingSrcComplaints : List (String × String) := [("translator", {w})]',
            '', 'end Ems.Gen', ''])



if __name__ == '__main__':
    import sys
    sys.path.insert(0, str(VERIF))
    from harness import pipelines
    pipelines.ensure_source_tree()
    print(render())
