"""
T — translator for the fan triangulation `emsarray.operations.triangulate._triangulate_polygons_by_length`.

The function is a short straight-line numpy program over the coordinates of the closed exterior rings of a batch of
polygons that all have the same number of vertices:

    vertex_count = len(polygons[0].exterior.coords) - 1
    coordinates = shapely.get_coordinates(shapely.get_exterior_ring(polygons))
    coordinates = coordinates.reshape((len(polygons), vertex_count + 1, 2))
    coordinates = coordinates[:, :-1, :]
    v0 = numpy.repeat(coordinates[:, 0, :].reshape((-1, 1, 2)), repeats=vertex_count - 2, axis=1)
    v1 = coordinates[:, 1:-1]
    v2 = coordinates[:, 2:]
    triangles = numpy.stack([v0, v1, v2], axis=2)

On every run this module takes its SOURCE TEXT from the working tree (`inspect.getsource` of the imported module),
executes the body symbolically with the executor of `harness/pipelines.py` (locals inlined, so renaming one is
invisible; the parameter is recognised by POSITION) and re-emits the returned value as one term of the numpy
expression language of `lean/EmsModel/Core/NpExpr.lean`, in `lean/EmsModel/Gen/TriFanSrc.lean`.  The theorems of
`lean/EmsModel/Props/C14Src.lean` are about that generated term.

What the executor of `pipelines.py` does not know is added here, in terms of the EXISTING constructors only:

* the inputs: `shapely.get_coordinates(shapely.get_exterior_ring(<parameter 0>))` is the input array `ring_coords`
  (shape `(n_polygons * ring_len, 2)`: the closed rings one after the other); `len(<parameter 0>)` is the symbolic size
  `n_polygons`; `len(<parameter 0>[0].exterior.coords)` is the symbolic size `ring_len` (vertices + the closing one);
* integer expressions `symbol ± literal` (`vertex_count + 1`, `vertex_count - 2`): a shape entry / repeat count of that
  value is emitted as the symbolic size named by its canonical form — `ring_len`, `ring_len-3` — whose value the Lean
  environment `Ems.triFanEnv` fixes (`L`, `L - 3`); so `vertex_count - 1` instead of `vertex_count - 2` is the
  *different* symbol `ring_len-2`;
* `numpy.repeat(x, repeats=k, axis=a)`: emitted as `broadcast_to(x, shape of x with axis a replaced by k)`, which is
  exactly the same array WHEN axis `a` of `x` has length 1.  That side condition is checked statically here by a
  symbolic shape inference over the term (`shape_of`); when the length of that axis is not the literal 1, or the shape
  is not known, the call becomes `unsupported` (no theorem accepts it);
* expression statements that only log (`logger.debug(...)`, `print(...)`, `warnings.warn(...)`) are skipped.

Whatever is not understood becomes `NpExpr.unsupported "<python text>"` and an entry of `Gen.triFanComplaints`, never a
guess and never an exception: `render()` always returns a file that builds, and a named theorem says what is wrong.
"""
from __future__ import annotations

import ast
import pathlib
import warnings

warnings.simplefilter('ignore')

VERIF = pathlib.Path(__file__).resolve().parent.parent
OUT = VERIF / 'lean' / 'EmsModel' / 'Gen' / 'TriFanSrc.lean'
TARGET = 'EmsModel.Gen.TriFanSrc'

MODULE = 'emsarray.operations.triangulate'
FUNCTION = '_triangulate_polygons_by_length'

# symbolic sizes (names shared with `Ems.triFanEnv` in lean/EmsModel/Core/TriFanSrc.lean)
N_POLYGONS = 'n_polygons'      # len(polygons)
RING_LEN = 'ring_len'          # len(polygons[0].exterior.coords): the vertices and the closing coordinate
INPUT = 'ring_coords'          # shapely.get_coordinates(shapely.get_exterior_ring(polygons)), shape (n * ring_len, 2)


class Aff:
    """the integer `symbol + offset`"""
    def __init__(self, sym: str, off: int):
        self.sym, self.off = sym, off

    def name(self) -> str:
        return self.sym if self.off == 0 else f'{self.sym}{self.off:+d}'


# --------------------------------------------------------------------------------------------------
# symbolic shapes of terms: a dimension is a monomial (coefficient, sorted tuple of atom names)

def _mono_mul(a, b):
    return (a[0] * b[0], tuple(sorted(a[1] + b[1])))


def _mono_div(total, known):
    """total / known when that is again a monomial, else None"""
    if known[0] == 0 or total[0] % known[0] != 0:
        return None
    rest = list(total[1])
    for f in known[1]:
        if f not in rest:
            return None
        rest.remove(f)
    return (total[0] // known[0], tuple(rest))


def _dim_of_term(d):
    if d[0] == 'lit':
        return (d[1], ())
    if d[0] == 'sym':
        return (1, (d[1],))
    return None


def _norm_axis(axis, rank):
    k = axis[1] if axis[0] == 'pos' else rank - axis[1]
    if axis[0] == 'neg' and axis[1] == 0:
        return None
    return k if 0 <= k < rank else None


def shape_of(term):
    """the shape of the value of a term as a list of monomials, or None when it is not statically known (or numpy
    would raise).  Only ever used to justify `repeat` -> `broadcast_to`; the Lean evaluator does its own inference."""
    k = term[0]
    if k == 'var':
        if term[1] == INPUT:
            return [(1, tuple(sorted((N_POLYGONS, RING_LEN)))), (2, ())]
        return None
    if k == 'reshape':
        src = shape_of(term[1])
        if src is None:
            return None
        total = (1, ())
        for d in src:
            total = _mono_mul(total, d)
        dims = [_dim_of_term(d) for d in term[2]]
        known = (1, ())
        for d in dims:
            if d is not None:
                known = _mono_mul(known, d)
        holes = [i for i, d in enumerate(dims) if d is None]
        if not holes:
            return dims if known == total else None
        if len(holes) > 1:
            return None
        rest = _mono_div(total, known)
        if rest is None:
            return None
        dims[holes[0]] = rest
        return dims
    if k == 'slice':
        src = shape_of(term[1])
        if src is None or len(term[2]) > len(src):
            return None
        out = []
        for i, d in enumerate(src):
            if i >= len(term[2]):
                out.append(d)
                continue
            s = term[2][i]
            if s[0] in ('idx', 'idxEnd'):
                continue
            a, b = s[1], s[2]
            if a[0] == 'none' and b[0] == 'none':
                out.append(d)
            elif d[1] == ():
                n = d[0]
                lo = 0 if a[0] == 'none' else (min(a[1], n) if a[0] == 'pos' else max(n - a[1], 0))
                hi = n if b[0] == 'none' else (min(b[1], n) if b[0] == 'pos' else max(n - b[1], 0))
                out.append((max(hi - lo, 0), ()))
            else:
                out.append((1, (f'<{d}[{a}:{b}]>',)))      # an opaque length
        return out
    if k == 'broadcastTo':
        dims = [_dim_of_term(d) for d in term[2]]
        return None if any(d is None for d in dims) else dims
    if k == 'stack':
        shapes = [shape_of(x) for x in term[1]]
        if not shapes or any(s is None or s != shapes[0] for s in shapes):
            return None
        ax = _norm_axis(term[2], len(shapes[0]) + 1)
        if ax is None:
            return None
        return shapes[0][:ax] + [(len(shapes), ())] + shapes[0][ax:]
    if k == 'expandDims':
        src = shape_of(term[1])
        if src is None:
            return None
        ax = _norm_axis(term[2], len(src) + 1)
        if ax is None:
            return None
        return src[:ax] + [(1, ())] + src[ax:]
    if k == 'transpose':
        src = shape_of(term[1])
        if src is None or sorted(term[2]) != list(range(len(src))):
            return None
        return [src[p] for p in term[2]]
    return None


def dim_term(d):
    """a monomial as a `DimTerm` of the Lean language, or None"""
    if d[1] == ():
        return ('lit', d[0]) if d[0] >= 0 else None
    if d[0] == 1 and len(d[1]) == 1 and not d[1][0].startswith('<'):
        return ('sym', d[1][0])
    return None


# --------------------------------------------------------------------------------------------------

def make_translator(param0: str | None):
    from harness import pipelines as P

    class FanTranslator(P.Translator):
        """the symbolic executor of pipelines.py + the inputs, integer expressions and `repeat` of the fan"""

        def is_param0(self, node) -> bool:
            v = self.expr(node)
            return isinstance(v, P.Chain) and param0 is not None and v.parts == (param0,)

        def as_aff(self, v):
            return v if isinstance(v, Aff) else None

        def e_BinOp(self, node):
            if isinstance(node.op, (ast.Add, ast.Sub)):
                left, right = self.expr(node.left), self.expr(node.right)
                sign = 1 if isinstance(node.op, ast.Add) else -1
                if isinstance(left, Aff) and isinstance(right, P.Int):
                    return Aff(left.sym, left.off + sign * right.n)
                if isinstance(left, P.Int) and isinstance(right, Aff) and sign == 1:
                    return Aff(right.sym, right.off + left.n)
                if isinstance(left, Aff) or isinstance(right, Aff):
                    return P.Bad(P.snippet(node))
            return super().e_BinOp(node)

        def dims_of(self, node):
            v = self.expr(node)
            items = v.items if isinstance(v, P.Tup) else [v]
            out = []
            for it in items:
                if isinstance(it, P.Int):
                    if it.n == -1:
                        out.append(('infer',))
                    elif it.n >= 0:
                        out.append(('lit', it.n))
                    else:
                        return None
                elif isinstance(it, P.Sym):
                    out.append(('sym', it.name))
                elif isinstance(it, Aff):
                    out.append(('sym', it.name()))
                else:
                    return None
            return out

        def repeat(self, x, kw, node):
            if kw is None or 'repeats' not in kw or 'axis' not in kw:
                return P.Bad(P.snippet(node) + '  -- repeat without repeats= / axis= (a flattening repeat) is not modelled')
            axis = self.axis_of(kw['axis'])
            rep = self.expr(kw['repeats'])
            if isinstance(rep, P.Int) and rep.n >= 0:
                rep_dim = (rep.n, ())
            elif isinstance(rep, Aff):
                rep_dim = (1, (rep.name(),))
            else:
                return P.Bad(P.snippet(node) + '  -- repeat count not understood')
            if axis is None:
                return P.Bad(P.snippet(node) + '  -- axis of repeat not a literal')
            shape = shape_of(x.term)
            if shape is None:
                return P.Bad(P.snippet(node) + '  -- shape of the repeated array not statically known')
            k = _norm_axis(axis, len(shape))
            if k is None:
                return P.Bad(P.snippet(node) + '  -- axis of repeat out of range')
            if shape[k] != (1, ()):
                return P.Bad(P.snippet(node) + '  -- repeat along an axis whose length is not statically 1 is not modelled')
            dims = [dim_term(rep_dim if i == k else d) for i, d in enumerate(shape)]
            if any(d is None for d in dims):
                return P.Bad(P.snippet(node) + '  -- shape of the repeated array is not a list of literal / symbolic sizes')
            # repeat along an axis of length 1 == broadcast_to (a new array, not a view: fresh identity)
            return P.Arr(('broadcastTo', x.term, dims), len(dims), dtype=x.dtype)

        def method(self, base, name, node):
            if name == 'repeat':
                return self.repeat(base, self.kwargs(node, ['repeats', 'axis']), node)
            return super().method(base, name, node)

        def function(self, parts, node):
            name = '.'.join(parts)
            if name == 'len':
                if node.keywords or len(node.args) != 1:
                    return P.Bad(P.snippet(node))
                a = node.args[0]
                if self.is_param0(a):
                    return Aff(N_POLYGONS, 0)
                # len(<parameter 0>[0].exterior.coords)
                if isinstance(a, ast.Attribute) and a.attr == 'coords' and isinstance(a.value, ast.Attribute) \
                        and a.value.attr == 'exterior' and isinstance(a.value.value, ast.Subscript) \
                        and self.int_of(a.value.value.slice) == 0 and self.is_param0(a.value.value.value):
                    return Aff(RING_LEN, 0)
                return P.Bad(P.snippet(node) + '  -- len() of something that is not an input of the pipeline')
            if name == 'shapely.get_coordinates':
                if not node.keywords and len(node.args) == 1 and isinstance(node.args[0], ast.Call) \
                        and P.snippet(node.args[0].func) == 'shapely.get_exterior_ring' \
                        and not node.args[0].keywords and len(node.args[0].args) == 1 \
                        and self.is_param0(node.args[0].args[0]):
                    return P.Arr(('var', INPUT), 2, dtype='float', oid='input:' + INPUT)
                return P.Bad(P.snippet(node) + '  -- coordinates of something other than the exterior rings of the polygons')
            if name in ('numpy.repeat', 'np.repeat'):
                kw = self.kwargs(node, ['a', 'repeats', 'axis'])
                if kw is None or 'a' not in kw:
                    return P.Bad(P.snippet(node))
                x = self.as_arr(self.expr(kw['a']), kw['a'])
                return self.repeat(x, kw, node)
            return super().function(parts, node)

        def block(self, body, kind):
            kept = []
            for st in body:
                if isinstance(st, ast.Expr) and isinstance(st.value, ast.Call) \
                        and not any(isinstance(n, (ast.NamedExpr, ast.Await, ast.Yield, ast.YieldFrom))
                                    for n in ast.walk(st.value)):
                    f = P.snippet(st.value.func)
                    if f == 'print' or f == 'warnings.warn' or f.split('.')[0] in ('logger', 'logging', 'log'):
                        continue            # logging does not change values
                kept.append(st)
            return super().block(kept, kind)

    return FanTranslator(FUNCTION)


def collect() -> dict:
    """-> {'term': …, 'complaints': [...]}; never raises"""
    complaints: list[str] = []
    try:
        import importlib
        from harness import pipelines as P
        P.ensure_source_tree()
        module = importlib.import_module(MODULE)
        fn = P.find_module_function(module, FUNCTION)
        if fn is None:
            text = f'{FUNCTION}: no such function in the source of {MODULE}'
            return {'term': ('unsupported', text), 'complaints': [text]}
        a = fn.args
        if a.vararg or a.kwarg or a.kwonlyargs or a.posonlyargs or a.defaults or len(a.args) != 1:
            text = f'{FUNCTION}: signature not understood: ({ast.unparse(a)})'
            return {'term': ('unsupported', text), 'complaints': [text]}
        tr = make_translator(a.args[0].arg)
        term = tr.run(fn, 'array')
        # asserts are not part of this fragment: the executor records them, nothing here proves them
        for t, _dims in tr.asserts:
            tr.complaints.append('an assert statement (not modelled in this function)')
        P.render_term(term)                 # make sure it renders
        return {'term': term, 'complaints': list(tr.complaints)}
    except Exception as e:                  # never crash: a file that builds and a precise complaint
        text = f'{FUNCTION}: {type(e).__name__}: {e}'
        return {'term': ('unsupported', text), 'complaints': complaints + [text]}


def render() -> str:
    try:
        from harness import pipelines as P
        it = collect()
        lines = [
            'import EmsModel.Core.NpExpr',
            '/- GENERATED by harness/trans_trifan.py from the source text of the working tree. Do not edit. -/',
            'namespace Ems.Gen',
            'open Ems',
            '',
            f'/-- what `{MODULE}.{FUNCTION}` returns, as a function of the input `{INPUT}` =',
            '`shapely.get_coordinates(shapely.get_exterior_ring(polygons))` and of the sizes',
            f'`{N_POLYGONS}` = `len(polygons)`, `{RING_LEN}` = `len(polygons[0].exterior.coords)` -/',
            'def triFanTriangles : NpExpr :=',
            '  ' + P.render_term(it['term'], 2),
            '',
            '/-- what the translator could not render (Python text); empty when everything was understood -/',
            'def triFanComplaints : List String := ' + P.r_list([P.lean_str(c) for c in it['complaints']], 2),
            '',
            'end Ems.Gen',
            '',
        ]
        return '\n'.join(lines)
    except Exception as e:                  # pipelines.py itself unusable: still a file that builds
        text = f'{type(e).__name__}: {e}'.replace('\\', '\\\\').replace('"', '\\"').replace('\n', ' ')
        return ('import EmsModel.Core.NpExpr\n'
                '/- GENERATED by harness/trans_trifan.py from the source text of the working tree. Do not edit. -/\n'
                'namespace Ems.Gen\nopen Ems\n\n'
                f'def triFanTriangles : NpExpr := (.unsupported "{text}")\n\n'
                f'def triFanComplaints : List String := ["{text}"]\n\nend Ems.Gen\n')


if __name__ == '__main__':
    import sys
    sys.path.insert(0, str(VERIF))
    from harness import translators
    print('rewritten' if translators.write_if_changed(OUT, render()) else 'unchanged')
    for c in collect()['complaints']:
        print('unsupported:', c)
