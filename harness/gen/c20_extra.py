"""Extra input classes for C20 (command line = library).

* GeoJSON geometries whose coordinates are *not* short numbers: long decimal fractions, fine dyadic
  fractions, values a hair away from a whole number, large magnitudes, a third ordinate; rings with holes,
  multi-part geometries, collections, Features.  "A GeoJSON string or file denotes exactly that geometry"
  speaks about every digit of every coordinate.
* clip boxes whose sides stop a hair short of / reach a hair beyond a cell edge of the dataset (so that any
  loss of precision between the argument and the library call changes which cells are kept), with the exact
  decimal spelling of such a number for the `a,b,c,d` form.
* point tables with free-text columns (station names, comments) around the coordinate columns, holding the
  characters that mean something to one CSV dialect or another (`#`, `;`, `,`, quotes, tabs, blanks at the
  ends, line breaks inside a quoted field, non-ASCII), and the dialects pandas itself can write.
* point tables of hundreds / thousands / tens of thousands of rows (a compact spec: row count, seed, the rows that
  lie outside the model), for whatever a command does to its input piece by piece.

Everything is drawn from the `rng` handed in; nothing here reads emsarray.
"""
from __future__ import annotations

import json
import random
from fractions import Fraction


# ---------------------------------------------------------------------------
# numbers

def exact_decimal(v: float) -> str:
    """the finite decimal expansion of a binary64 value, every digit (no exponent): float(result) == v"""
    f = Fraction(v)
    neg = f < 0
    f = abs(f)
    ip = f.numerator // f.denominator
    rest = f - ip
    digits = []
    while rest:
        rest *= 10
        d = rest.numerator // rest.denominator
        digits.append(str(d))
        rest -= d
    text = str(ip) + ('.' + ''.join(digits) if digits else '')
    return ('-' if neg else '') + text


def fine_coord(rng: random.Random, cls: str | None = None) -> float:
    """one coordinate; the classes differ in how many digits it takes to write the number down"""
    cls = cls or rng.choice(['int', 'quarter', 'dyadic', 'dyadic', 'decimal', 'decimal', 'near-int', 'near-int', 'big', 'tiny'])
    if cls == 'int':
        return float(rng.randint(-180, 180))
    if cls == 'quarter':
        return rng.randint(-720, 720) / 4
    if cls == 'dyadic':
        k = rng.randint(8, 30)
        return rng.randint(-180, 180) + rng.randrange(1, 2 ** k) / 2 ** k
    if cls == 'decimal':
        nd = rng.randint(7, 15)
        return float(f'{rng.randint(-180, 179)}.{rng.randrange(1, 10 ** nd):0{nd}d}')
    if cls == 'near-int':
        base = rng.randint(-180, 180)
        eps = rng.choice([10.0 ** -rng.randint(7, 12), 2.0 ** -rng.randint(21, 40)])
        return base + rng.choice([-1, 1]) * eps * rng.choice([1, 3, 4])
    if cls == 'big':
        return rng.randint(10 ** 5, 10 ** 9) + rng.randrange(1, 2 ** 12) / 2 ** 12
    if cls == 'tiny':
        return rng.choice([-1, 1]) * rng.randrange(1, 1000) * 10.0 ** -rng.randint(7, 18)
    raise ValueError(cls)


def has_fine_digits(obj) -> bool:
    """does some number in the (nested) coordinates need more than six decimals?"""
    if isinstance(obj, dict):
        return any(has_fine_digits(v) for v in obj.values())
    if isinstance(obj, (list, tuple)):
        return any(has_fine_digits(v) for v in obj)
    if isinstance(obj, float):
        return round(obj, 6) != obj
    return False


# ---------------------------------------------------------------------------
# GeoJSON

def fine_geojson(rng: random.Random) -> dict:
    """a GeoJSON mapping shapely.geometry.shape understands, coordinates of every `fine_coord` class"""
    dims = 3 if rng.random() < 0.15 else 2

    def pt():
        p = [fine_coord(rng), fine_coord(rng)]
        if dims == 3:
            p.append(fine_coord(rng, rng.choice(['int', 'decimal', 'dyadic'])))
        return p

    def ring(inside=None):
        if inside is None:
            x, y = fine_coord(rng), fine_coord(rng)
            w, h = rng.randint(1, 8) + fine_coord(rng, 'dyadic') % 1, rng.randint(1, 8) + fine_coord(rng, 'decimal') % 1
        else:
            x0, y0, w0, h0 = inside
            x, y, w, h = x0 + w0 / 4, y0 + h0 / 4, w0 / 3, h0 / 3
        z = [fine_coord(rng, 'decimal')] if dims == 3 else []
        r = [[x, y] + z, [x + w, y] + z, [x + w, y + h] + z, [x, y + h] + z, [x, y] + z]
        if rng.random() < 0.3 and inside is None:
            r.insert(2, [x + w + fine_coord(rng, 'tiny') % 1, y + h / 2] + z)     # one more vertex on the east side
        return r, (x, y, w, h)

    def polygon():
        outer, frame = ring()
        rings = [outer]
        if rng.random() < 0.3:
            rings.append(ring(frame)[0])
        return rings

    kind = rng.choice(['Point', 'MultiPoint', 'LineString', 'MultiLineString', 'Polygon', 'Polygon', 'Polygon',
                       'MultiPolygon', 'GeometryCollection'])
    if kind == 'Point':
        g = {'type': kind, 'coordinates': pt()}
    elif kind == 'MultiPoint':
        g = {'type': kind, 'coordinates': [pt() for _ in range(rng.randint(1, 4))]}
    elif kind == 'LineString':
        g = {'type': kind, 'coordinates': [pt() for _ in range(rng.randint(2, 5))]}
    elif kind == 'MultiLineString':
        g = {'type': kind, 'coordinates': [[pt() for _ in range(rng.randint(2, 4))] for _ in range(rng.randint(1, 3))]}
    elif kind == 'Polygon':
        g = {'type': kind, 'coordinates': polygon()}
    elif kind == 'MultiPolygon':
        g = {'type': kind, 'coordinates': [polygon() for _ in range(rng.randint(1, 3))]}
    else:
        g = {'type': kind, 'geometries': [
            {'type': 'Point', 'coordinates': pt()},
            {'type': 'Polygon', 'coordinates': polygon()},
        ][:rng.randint(1, 2)]}
    if rng.random() < 0.15:
        g = {'type': 'Feature', 'properties': {'name': 'area', 'id': rng.randint(0, 99)}, 'geometry': g}
    return g


def dump_json(rng: random.Random, obj) -> str:
    """one of the ways a JSON document is laid out in a file (all of them keep every digit: repr of a float)"""
    style = rng.choice(['default', 'compact', 'indent', 'indent', 'padded', 'sorted'])
    if style == 'compact':
        return json.dumps(obj, separators=(',', ':'))
    if style == 'indent':
        return json.dumps(obj, indent=rng.choice([1, 2, 4])) + rng.choice(['', '\n'])
    if style == 'padded':
        return rng.choice([' ', '\n', '\t']) + json.dumps(obj) + rng.choice([' ', '\n', '\r\n'])
    if style == 'sorted':
        return json.dumps(obj, sort_keys=True)
    return json.dumps(obj)


GEOJSON_FILE_NAMES = ['clip.geojson', 'clip.json', 'area.v2.geojson', 'sub/inner.json', 'sp ace.geojson', 'ünï.json',
                      'deep/er/shape.geojson']


def geojson_file_argument(rng: random.Random):
    """(argument text, file name inside the scratch directory)"""
    name = rng.choice(GEOJSON_FILE_NAMES)
    how = rng.choice(['plain', 'plain', 'dot', 'dotdot'])
    if how == 'dot':
        return './' + name, name
    if how == 'dotdot' and '/' in name:
        head, tail = name.split('/', 1)
        return f'{head}/../{name}', name
    return name, name


# ---------------------------------------------------------------------------
# clip boxes next to cell edges

def near_edge_box(rng: random.Random, polys, base):
    """`base` = [x0, y0, x1, y1] meeting the dataset; one to four sides are moved to a cell-edge coordinate of the
    dataset -/+ a small power of two.  Returns the box (floats exact in binary64) or None."""
    xs = sorted({Fraction(x) for p in polys if p for x, _ in p})
    ys = sorted({Fraction(y) for p in polys if p for _, y in p})
    box = [Fraction(v) for v in base]
    sides = rng.sample(range(4), rng.randint(1, 4))
    for s in sides:
        pool = xs if s in (0, 2) else ys
        eps = Fraction(1, 2 ** rng.randint(21, 30)) * rng.choice([-1, 1])
        # prefer an edge inside the extent of the base box so that the box still meets the dataset
        inner = [v for v in pool if Fraction(base[s % 2]) <= v <= Fraction(base[2 + s % 2])] or pool
        box[s] = rng.choice(inner) + eps
    if not (box[0] < box[2] and box[1] < box[3]):
        return None
    out = [float(v) for v in box]
    if any(Fraction(o) != v for o, v in zip(out, box)):
        return None
    return out


# ---------------------------------------------------------------------------
# point tables with text columns

WORDS = ['site', 'st', 'P', 'Reef', 'mooring', 'Stn', 'transect', 'CTD']
SPECIALS = ['#', '#', '#', ';', ',', '"', "'", '\t', '|', ':', '%', '&', '*', '@', '$', '!', '?', '=', '(', ')', '[', ']',
            '{', '}', '<', '>', '/', '\\', '~', '^', '+', '-', '.', ' ', '  ', 'é', 'ü', '°', '\n']


def label(rng: random.Random, plain: bool = False) -> str:
    """a station name / free-text remark; never a text pandas would read as a number, a boolean or a missing value"""
    w = rng.choice(WORDS)
    if plain:
        return f'{w} {rng.randint(1, 99)}'
    form = rng.choice(['numbered', 'inner', 'inner', 'lead', 'trail', 'pad'])
    n = rng.randint(1, 99)
    sp = rng.choice(SPECIALS)
    if form == 'numbered':
        return f'{w} {sp}{n}'
    if form == 'inner':
        return f'{w}{sp}{rng.choice(WORDS)}{rng.choice(SPECIALS) if rng.random() < 0.4 else ""}{n}'
    if form == 'lead':
        return f'{sp.strip() or "#"}{n} {w}'
    if form == 'trail':
        return f'{w} {n}{sp}'
    return f' {w} {n} '


def label_column(rng: random.Random, n: int) -> list:
    col = [label(rng, plain=rng.random() < 0.4) for _ in range(n)]
    if all(c.replace(' ', '').isalnum() for c in col):
        col[rng.randrange(n)] = label(rng)
    return col


def text_layout(rng: random.Random, table: dict, cols) -> tuple[dict, list]:
    """adds text columns to a points table; returns (table, column order).  The order matters: what a CSV reader
    loses in the middle of a line, it loses for every column to the right of it."""
    n = len(table[cols[0]])
    where = rng.choice(['before', 'after', 'both', 'between'])
    t = dict(table)
    order = []
    if where in ('before', 'both'):
        t['station'] = label_column(rng, n)
        order.append('station')
    order.append(cols[0])
    if where == 'between':
        t['station'] = label_column(rng, n)
        order.append('station')
    order.append(cols[1])
    if where in ('after', 'both', 'between'):
        t['remark'] = label_column(rng, n)
        order.append('remark')
    t['depth'] = [rng.randint(0, 400) / 4 for _ in range(n)]
    order.append('depth')
    for k in table:
        if k not in order:
            order.append(k)
    return t, order


CSV_STYLES = ['default', 'default', 'default', 'crlf', 'quote-all', 'quote-text']


def csv_kwargs(style: str) -> dict:
    import csv
    return {
        'default': {},
        'crlf': {'lineterminator': '\r\n'},
        'quote-all': {'quoting': csv.QUOTE_ALL},
        'quote-text': {'quoting': csv.QUOTE_NONNUMERIC},
    }[style]


# ---------------------------------------------------------------------------
# long point tables

# how many rows a point file has: a handful (the other generators), hundreds, thousands, tens of thousands.  A
# command that works through its input in pieces (blocks of rows, batches of points, a buffer) behaves like the
# library call on every short file; only a file longer than one piece tells the two apart.
ROW_CLASSES = {
    'hundreds': (150, 900),
    'thousands': (1001, 2400),
    'thousands+': (2049, 5200),
    'ten-thousands': (10001, 24000),
}


def long_points_spec(rng: random.Random, row_class: str, n_miss: int) -> dict:
    """a compact, replayable description of a long point table: row count, the seed the rows are drawn from and the
    rows that lie outside the model (spread over the whole file; one of them in the last tenth, one of them — when
    there are two or more — in the first tenth, so that whatever is done per piece is done to several pieces)"""
    lo, hi = ROW_CLASSES[row_class]
    n = rng.randint(lo, hi)
    miss = set()
    if n_miss >= 1:
        miss.add(rng.randrange(n - n // 10, n))
    if n_miss >= 2:
        miss.add(rng.randrange(0, n // 10))
    while len(miss) < n_miss:
        miss.add(rng.randrange(n))
    return {'n': n, 'seed': rng.randrange(2 ** 32), 'miss_rows': sorted(miss), 'rows': row_class}


def long_points_table(spec: dict, polys, cols) -> dict:
    """the table a `long_points_spec` denotes on a dataset with the cell polygons `polys` (generator's ground truth):
    every row inside some cell (its representative point) except `miss_rows`, which lie far outside; a name and a
    number column that identify the row, as a CSV of stations would have"""
    from shapely.geometry import Polygon
    rng = random.Random(spec['seed'])
    n = spec['n']
    cells = [p for p in polys if p]
    reps = {}

    def rep(i):
        if i not in reps:
            rp = Polygon([(float(x), float(y)) for x, y in cells[i]]).representative_point()
            reps[i] = (rp.x, rp.y)
        return reps[i]
    xs = [float(x) for p in cells for x, _ in p]
    ys = [float(y) for p in cells for _, y in p]
    miss = set(spec['miss_rows'])
    pts = []
    for r in range(n):
        if r in miss:
            pts.append((max(xs) + rng.randint(5, 500) + 0.5, min(ys) - rng.randint(5, 500) - 0.25, 'miss'))
        else:
            pts.append(rep(rng.randrange(len(cells))) + ('hit',))
    return {
        'name': [f'p{i}' for i in range(n)],
        cols[0]: [p[0] for p in pts], cols[1]: [p[1] for p in pts],
        'extra': [i * 3 for i in range(n)],
        'kind': [p[2] for p in pts],
    }
