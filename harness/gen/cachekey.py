"""
C16 — datasets, edits and key computation for the cache-key property.

A *case* is a JSON-serialisable dict

    {'recipe': <harness.gen.datasets recipe>, 'netcdf': bool, 'enrich': bool,
     'stabilise': bool, 'edits': [<edit>, ...], 'version': <str or None>}

that `materialise(case)` turns deterministically into `(dataset, state)`; the same function
runs in the parent and in the fresh interpreter children (`python -m harness.gen.cachekey`),
so a key computed elsewhere is the key of the very same construction.

`state` is the generator's ground truth about the convention side of the case:

    {'conv': 'cf1d'|..., 'subclass': bool, 'kwargs': {...constructor keywords...},
     'expected': [names the inventory must list, in order],
     'valid_roles': [optional UGRID connectivity roles that are valid by construction]}

Edits never call emsarray.  They are plain xarray / numpy manipulations.

*Stabilising* (see DESIGN.md F10): `marshal.dumps` (version 4) writes whether each object
is interned / referenced more than once, so the attribute bytes depend on reference counts.
A stabilised dataset has every attribute string interned and every other attribute value
kept alive by one extra reference, which makes the marshal output a function of the
content; all checks other than the F10 probes run on stabilised datasets so that F10 cannot
mask, or be mistaken for, anything else.
"""
from __future__ import annotations

import copy
import hashlib
import json
import os
import pickle
import sys
import tempfile
import warnings

warnings.simplefilter('ignore')

import numpy as np
import xarray as xr

from harness.gen import datasets as G

_KEEPALIVE: list = []


# --------------------------------------------------------------------------
# recording hash

class Recorder:
    """hashlib-style object that keeps everything it is fed (and the real blake2b of it)."""

    def __init__(self):
        self.chunks: list[bytes] = []
        self._h = hashlib.blake2b(digest_size=32)

    def update(self, b) -> None:
        b = bytes(b)
        self.chunks.append(b)
        self._h.update(b)

    def hexdigest(self) -> str:
        return self._h.hexdigest()

    @property
    def stream(self) -> bytes:
        return b''.join(self.chunks)


# --------------------------------------------------------------------------
# canonical content of attributes (independent of object identity)

def canon_value(v):
    if isinstance(v, np.ndarray):
        return ('a', v.dtype.str, list(v.shape), v.tobytes().hex())
    if isinstance(v, np.generic):
        return ('n', v.dtype.str, v.tobytes().hex())
    if isinstance(v, bool):
        return ('b', v)
    if isinstance(v, int):
        return ('i', v)
    if isinstance(v, float):
        return ('f', v.hex())
    if isinstance(v, str):
        return ('s', v)
    if isinstance(v, bytes):
        return ('y', v.hex())
    if isinstance(v, (list, tuple)):
        return ('l' if isinstance(v, list) else 't', [canon_value(x) for x in v])
    return ('?', repr(v))


def canon_attrs(attrs: dict):
    return [(canon_value(k), canon_value(v)) for k, v in attrs.items()]


def stabilise_value(v):
    if type(v) is str:
        return sys.intern(v)
    if isinstance(v, (list, tuple)):
        v = type(v)(stabilise_value(x) for x in v)
    _KEEPALIVE.append(v)
    return v


def stabilise(ds: xr.Dataset) -> None:
    """in place: intern attribute strings, pin every other attribute value"""
    for var in ds.variables.values():
        var.attrs = {stabilise_value(k): stabilise_value(v) for k, v in var.attrs.items()}
    ds.attrs = {stabilise_value(k): stabilise_value(v) for k, v in ds.attrs.items()}


def fresh_value(v):
    """content-equal, newly allocated object (what reading a file produces)"""
    if type(v) is str:
        return v.encode('utf-8', 'surrogatepass').decode('utf-8', 'surrogatepass')
    if isinstance(v, np.ndarray):
        return v.copy()
    if isinstance(v, np.generic):
        return v.dtype.type(v)
    if isinstance(v, (list, tuple)):
        return type(v)(fresh_value(x) for x in v)
    return copy.copy(v)


# --------------------------------------------------------------------------
# base datasets

NEUTRAL_ATTRS = [
    ('long_name', 'geometry variable'),
    ('comment', 'café €'),          # non-ASCII: marshal writes it as unicode
    ('level', 3),
    ('scale', 1.5),
    ('valid_min', np.int32(1)),
    ('valid_range', np.array([0, 360], dtype='i2')),
    ('weights', np.array([0.5, 0.25], dtype='f4')),
]


def ugrid_expected(recipe: dict) -> tuple[list, list]:
    enc = recipe.get('enc', {})
    tables = set(enc.get('tables', []))
    names = ['Mesh2', 'Mesh2_face_nodes', 'Mesh2_node_x', 'Mesh2_node_y']
    roles = []
    for role, table, name in [('face_edge_connectivity', 'face_edge', 'Mesh2_face_edges'),
                              ('face_face_connectivity', 'face_face', 'Mesh2_face_links'),
                              ('edge_node_connectivity', 'edge_node', 'Mesh2_edge_nodes'),
                              ('edge_face_connectivity', 'edge_face', 'Mesh2_edge_faces')]:
        if table in tables:
            names.append(name)
            roles.append(role)
    if enc.get('face_coords') in ('vars', 'coords'):
        names += ['Mesh2_face_x', 'Mesh2_face_y']
    return names, roles


def add_edge_coords(ds: xr.Dataset, built: G.Built, state: dict, how: str) -> xr.Dataset:
    """UGRID: characteristic edge coordinates (`edge_coordinates` of the mesh variable), as data variables
    (`how == 'vars'`) or as xarray coordinates (`'coords'`).  They are geometry whether or not the mesh declares an
    edge dimension or carries an edge connectivity table: without either, the edge dimension of the dataset is the
    one these two variables span.  Values: the edge midpoints (sums of dyadic node coordinates halved: exact)."""
    if built.conv != 'ugrid':
        raise ValueError('edge coordinates need a UGRID mesh')
    nodes = built.recipe['nodes']
    edim = built.extra['names']['edge_dim']
    ex = np.array([(float(nodes[a][0]) + float(nodes[b][0])) / 2 for a, b in built.extra['edges']], dtype='f8')
    ey = np.array([(float(nodes[a][1]) + float(nodes[b][1])) / 2 for a, b in built.extra['edges']], dtype='f8')
    exv = xr.Variable([edim], ex, attrs={'standard_name': 'longitude'})
    eyv = xr.Variable([edim], ey, attrs={'standard_name': 'latitude'})
    if how == 'coords':
        ds = ds.assign_coords({'Mesh2_edge_x': exv, 'Mesh2_edge_y': eyv})
    else:
        ds = ds.assign({'Mesh2_edge_x': exv, 'Mesh2_edge_y': eyv})
    mesh = ds.variables[state['expected'][0]]
    mesh.attrs = dict(mesh.attrs, edge_coordinates='Mesh2_edge_x Mesh2_edge_y')
    exp = list(state['expected'])
    k = exp.index('Mesh2_face_x') if 'Mesh2_face_x' in exp else len(exp)
    state['expected'] = exp[:k] + ['Mesh2_edge_x', 'Mesh2_edge_y'] + exp[k:]
    return ds


def initial_state(built: G.Built) -> dict:
    conv = built.conv
    st = {'conv': conv, 'subclass': False, 'kwargs': {}, 'valid_roles': []}
    if conv == 'ugrid':
        st['expected'], st['valid_roles'] = ugrid_expected(built.recipe)
    else:
        st['expected'] = list(built.extra['geom_names'])
    return st


def netcdf_roundtrip(ds: xr.Dataset) -> xr.Dataset:
    ds = ds.copy()
    for name, var in ds.variables.items():
        if '_FillValue' in var.attrs:
            # xarray refuses `_FillValue` in attrs on save: hand it over as encoding
            var.encoding['_FillValue'] = var.attrs.pop('_FillValue')
    with tempfile.TemporaryDirectory(prefix='verif_c16_') as tmp:
        path = os.path.join(tmp, 'case.nc')
        ds.to_netcdf(path)
        with xr.open_dataset(path) as loaded:
            out = loaded.load()
    return out


def enrich(ds: xr.Dataset, names: list) -> None:
    for k, name in enumerate(names):
        if name not in ds.variables:
            continue
        var = ds.variables[name]
        attrs = dict(var.attrs)
        # a rotating subset so that attribute counts and kinds differ between variables
        for j, (key, value) in enumerate(NEUTRAL_ATTRS):
            if (j + k) % 3 != 2:
                attrs[key] = fresh_value(value)
        var.attrs = attrs


# --------------------------------------------------------------------------
# edits

def _grid_dims(built: G.Built):
    dims, shape = built.grids[built.default_kind]
    return list(dims), list(shape)


def _replace_var(ds: xr.Dataset, name: str, dims, data, attrs, encoding=None) -> xr.Dataset:
    """same position in `ds.variables`, same coordinate/data status, new dims + data"""
    was_coord = name in ds.coords
    new = xr.Variable(dims, data, attrs=attrs, encoding=encoding)
    out_vars, out_coords = {}, {}
    for n, v in ds.variables.items():
        target = out_coords if n in ds.coords else out_vars
        if n == name:
            (out_coords if was_coord else out_vars)[n] = new
        else:
            target[n] = v
    # rebuild in the original `variables` order
    order = list(ds.variables)
    merged = {n: (out_coords[n] if n in out_coords else out_vars[n]) for n in order}
    out = xr.Dataset({n: v for n, v in merged.items() if n not in out_coords},
                     coords={n: v for n, v in merged.items() if n in out_coords}, attrs=dict(ds.attrs))
    return out


def _retarget(state: dict, old: str, new: str) -> None:
    state['expected'] = [new if n == old else n for n in state['expected']]


def apply_edit(ds: xr.Dataset, built: G.Built, state: dict, e: dict) -> xr.Dataset:
    op = e['op']
    rs = np.random.RandomState(e.get('seed', 0))

    # ---------------- non-geometry content ----------------
    if op == 'add_var':
        gdims, gshape = _grid_dims(built)
        dims, shape = list(gdims), list(gshape)
        if e.get('on') == 'time':
            n = ds.sizes.get('time', 2)
            dims, shape = ['time'] + dims, [n] + shape
        elif e.get('on') == 'scalar':
            dims, shape = [], []
        elif e.get('on') == 'newdim':
            dims, shape = dims + ['extra_dim'], shape + [2]
        data = (np.arange(int(np.prod(shape)) if shape else 1, dtype=e.get('dtype', 'f8')) + e.get('base', 5)).reshape(shape)
        out = ds.copy()
        out[e['name']] = xr.Variable(dims, data, attrs=dict(e.get('attrs', {'units': 'kg'})))
        return out
    if op == 'fortran_layout':
        out = ds.copy(deep=True)
        for n in e.get('names', []):
            if n in out.variables and out.variables[n].ndim >= 2:
                v = out.variables[n]
                v.values = np.asfortranarray(np.array(v.values))
        return out
    if op == 'prepend_var':
        # a data variable on a new dimension, placed FIRST in the dataset (as `time` is in most files)
        new = xr.Variable([e['dim']], np.arange(e['n'], dtype='f8') + e.get('base', 0), attrs=dict(e.get('attrs', {'units': '1'})))
        data_vars = {e['name']: new}
        data_vars.update({n: v for n, v in ds.variables.items() if n not in ds.coords})
        return xr.Dataset(data_vars, coords={n: v for n, v in ds.variables.items() if n in ds.coords}, attrs=dict(ds.attrs))
    if op == 'change_var':
        out = ds.copy(deep=True)
        v = out.variables[e['name']]
        vals = np.array(v.values)
        if vals.size:
            flat = vals.reshape(-1)
            k = e.get('flat', 0) % flat.size
            flat[k] = 0 if np.isnan(flat[k]) else flat[k] + 1
        v.values = vals
        return out
    if op == 'remove_var':
        return ds.drop_vars(e['name'])
    if op == 'var_attr':
        out = ds.copy()
        attrs = dict(out.variables[e['name']].attrs)
        if e.get('value') is None:
            attrs.pop(e['key'], None)
        else:
            attrs[e['key']] = e['value']
        out.variables[e['name']].attrs = attrs
        return out
    if op == 'time_steps':
        if 'time' not in ds.dims:
            return ds
        old = ds.sizes['time']
        return ds.isel(time=np.arange(e['n']) % old)
    if op == 'time_coord':
        n = ds.sizes.get('time', None)
        if n is None:
            return ds
        out = ds.copy()
        out = out.assign_coords(time=xr.Variable(['time'], np.arange(n, dtype='f8') * e.get('step', 1.0) + e.get('start', 0.0),
                                                attrs={'units': 'days since 1990-01-01', 'calendar': 'gregorian'}))
        return out
    if op == 'gattr':
        out = ds.copy()
        attrs = dict(out.attrs)
        if e.get('value') is None:
            attrs.pop(e['key'], None)
        else:
            attrs[e['key']] = e['value']
        out.attrs = attrs
        return out
    if op == 'reorder':
        order = list(ds.variables)
        rs.shuffle(order)
        return xr.Dataset({n: ds.variables[n] for n in order if n not in ds.coords},
                          coords={n: ds.variables[n] for n in order if n in ds.coords}, attrs=dict(ds.attrs))
    if op == 'rename_var':
        return ds.rename_vars({e['name']: e['to']})
    if op == 'rename_dim':
        if e['dim'] not in ds.dims or e['to'] in ds.dims or e['to'] in ds.variables:
            return ds
        return ds.rename_dims({e['dim']: e['to']})
    if op == 'set_coords':
        names = [n for n in e['names'] if n in ds.data_vars]
        return ds.set_coords(names)
    if op == 'reset_coords':
        names = [n for n in e['names'] if n in ds.coords and n not in ds.dims]
        return ds.reset_coords(names)
    if op == 'chunk':
        if e.get('size'):
            # several small chunks along every dimension (the bytes of the values are still their C-order bytes)
            return ds.chunk({d: e['size'] for d in ds.dims})
        return ds.chunk()
    # identity edits: the content of every variable stays what it was
    if op == 'copy':
        return ds.copy(deep=bool(e.get('deep')))
    if op == 'pickle':
        return pickle.loads(pickle.dumps(ds))
    if op == 'fresh_attrs':
        out = ds.copy()
        for var in out.variables.values():
            var.attrs = {fresh_value(k): fresh_value(v) for k, v in var.attrs.items()}
        return out
    if op == 'netcdf':
        return netcdf_roundtrip(ds)

    # ---------------- geometry content ----------------
    name = e.get('var')
    if op == 'g_value':
        out = ds.copy(deep=True)
        v = out.variables[name]
        vals = np.array(v.values)
        flat = vals.reshape(-1)
        k = e.get('flat', 0) % flat.size
        old = flat[k]
        if vals.dtype.kind == 'f':
            new = 0.0 if np.isnan(old) else old + 1
            if e.get('how') == 'nan' and not np.isnan(old):
                new = np.nan
            if e.get('how') == 'negzero':
                new = -0.0 if (old == 0 and not np.signbit(old)) else (0.0 if old != 0 or np.signbit(old) else -0.0)
            if e.get('how') == 'ulp':
                # the smallest change the type of the values can express: the next representable number
                if not np.isfinite(old):
                    raise ValueError('no next representable number')
                new = np.nextafter(old, vals.dtype.type(np.inf))
        else:
            others = [x for x in flat.tolist() if x != old]
            new = others[k % len(others)] if others and e.get('how') != 'plus1' else old + 1
        flat[k] = new
        v.values = vals
        return out
    if op == 'g_dtype':
        v = ds.variables[name]
        vals = np.asarray(v.values)
        how = e.get('how', 'astype')
        to = np.dtype(e['to'])
        if how == 'astype':
            new = vals.astype(to)
        else:  # 'view' / 'inplace_view': same bytes, other type
            if to.itemsize != vals.dtype.itemsize or to == vals.dtype:
                raise ValueError('view needs another dtype of the same width')
            new = np.ascontiguousarray(vals).view(to).reshape(vals.shape)
        if how == 'inplace_view':
            out = ds.copy()
            out.variables[name].values = new          # in-place assignment keeps attrs AND encoding
            return out
        return _replace_var(ds, name, v.dims, new, dict(v.attrs))
    if op == 'g_shape':
        v = ds.variables[name]
        vals = np.ascontiguousarray(v.values)
        how = e['how']
        dims = list(v.dims)
        if how == 'append1':
            ndims, nshape = dims + ['g_one'], list(vals.shape) + [1]
        elif how == 'prepend1':
            ndims, nshape = ['g_one'] + dims, [1] + list(vals.shape)
        elif how == 'reverse':
            if vals.ndim < 2 or len(set(vals.shape)) < 2:
                raise ValueError('reverse needs a non-square >= 2-D variable')
            ndims, nshape = dims[::-1], list(vals.shape)[::-1]
        elif how == 'flatten':
            if vals.ndim < 2:
                raise ValueError('flatten needs >= 2-D')
            ndims, nshape = ['g_flat_' + name], [vals.size]
        elif how == 'split':
            if vals.ndim != 1 or vals.size < 4 or vals.size % 2:
                raise ValueError('split needs an even 1-D variable')
            ndims, nshape = ['g_half_' + name, 'g_two'], [vals.size // 2, 2]
        else:
            raise ValueError(how)
        new = vals.reshape(nshape)
        if state['conv'] == 'ugrid' and name in _ugrid_role_names(ds, state).values():
            # a connectivity table with other dimensions changes which dimensions Mesh2DTopology INFERS as the
            # face / edge dimension when the mesh does not declare them; the validity of the optional tables is
            # then C10's business and unknown to this generator: the oracle still judges the case (the key must
            # change), the model is not asked for the stream
            state['uncertain'] = True
        for role, rname in _ugrid_role_names(ds, state).items():
            # Mesh2DTopology.has_valid_* compare the SET of dimensions: a transposed table stays valid
            if rname == name and role in state['valid_roles'] and set(ndims) != set(dims):
                state['valid_roles'] = [r for r in state['valid_roles'] if r != role]
                state['expected'] = [n for n in state['expected'] if n != name]
        return _replace_var(ds, name, ndims, new, dict(v.attrs), dict(v.encoding))
    if op == 'g_rename':
        to = e['to']
        out = ds.rename_vars({name: to})
        conv = state['conv']
        if conv in ('cf1d', 'cf2d', 'shoc_simple'):
            for other in out.variables.values():
                if other.attrs.get('bounds') == name:
                    other.attrs = {k: (to if (k == 'bounds') else v) for k, v in other.attrs.items()}
        elif conv == 'shoc_standard':
            from emsarray.conventions.shoc import ShocStandard
            cn = state['kwargs'].get('coordinate_names') or {
                k.value: list(v) for k, v in ShocStandard.coordinate_names.items()}
            cn = {k: [to if n == name else n for n in v] for k, v in cn.items()}
            state['kwargs'] = dict(state['kwargs'], coordinate_names=cn)
        elif conv == 'ugrid':
            mesh_name = state['expected'][0] if name != state['expected'][0] else to
            mesh = out.variables[mesh_name]
            attrs = {}
            for k, v in mesh.attrs.items():
                if isinstance(v, str) and k != 'cf_role':
                    v = ' '.join(to if w == name else w for w in v.split(' '))
                attrs[k] = v
            mesh.attrs = attrs
        _retarget(state, name, to)
        return out
    if op in ('g_attr_add', 'g_attr_change', 'g_attr_remove', 'g_attr_pun', 'g_attr_reorder'):
        out = ds.copy()
        v = out.variables[name]
        attrs = dict(v.attrs)
        key = e.get('key')
        if op == 'g_attr_add':
            if key in attrs:
                raise ValueError('attribute exists')
            attrs[key] = decode_value(e['value'])
        elif op == 'g_attr_remove':
            if key not in attrs:
                raise ValueError('no such attribute')
            del attrs[key]
            if key == 'bounds':
                gone = v.attrs.get('bounds')
                state['expected'] = [n for n in state['expected'] if n != gone]
        elif op == 'g_attr_change':
            if key not in attrs:
                raise ValueError('no such attribute')
            attrs[key] = changed_value(attrs[key], e.get('variant', 0))
        elif op == 'g_attr_pun':
            old = attrs.get(key)
            if not isinstance(old, np.generic) or old.dtype.kind not in 'iu' or old.dtype.itemsize not in (4, 8):
                raise ValueError('no integer numpy scalar to reinterpret')
            attrs[key] = old.view('f4' if old.dtype.itemsize == 4 else 'f8')
        elif op == 'g_attr_reorder':
            items = list(attrs.items())
            if len(items) < 2:
                raise ValueError('nothing to reorder')
            attrs = dict(items[1:] + items[:1])
        v.attrs = attrs
        return out
    if op == 'g_conv':
        if e['to'].startswith('subclass'):
            state['subclass'] = e['to'].partition(':')[2] or True
        else:
            state['conv'] = e['to']
        return ds.copy()
    raise ValueError(f'unknown edit {op}')


def _ugrid_role_names(ds: xr.Dataset, state: dict) -> dict:
    if state['conv'] != 'ugrid' or not state['expected']:
        return {}
    mesh = ds.variables.get(state['expected'][0])
    if mesh is None:
        return {}
    return {k: v for k, v in mesh.attrs.items() if isinstance(v, str) and k.endswith('_connectivity')}


def decode_value(spec):
    """JSON description of an attribute value → the value"""
    if isinstance(spec, dict):
        if spec['t'] == 'np':
            return np.dtype(spec['dtype']).type(spec['v'])
        if spec['t'] == 'arr':
            return np.array(spec['v'], dtype=spec['dtype'])
        if spec['t'] == 'float':
            return float(spec['v'])
        if spec['t'] == 'npstr':         # (round 6) a numpy string scalar: compares equal to the str
            return np.str_(spec['v'])
        if spec['t'] == 'tuple':         # (round 6) a tuple of specs
            return tuple(decode_value(x) for x in spec['v'])
    return spec


def changed_value(old, variant: int = 0):
    """a value of the SAME type and a different content"""
    if isinstance(old, np.ndarray):
        new = old.copy()
        flat = new.reshape(-1)
        flat[variant % flat.size] += 1
        return new
    if isinstance(old, np.generic):
        return old.dtype.type(old + 1)
    if isinstance(old, bool):
        return not old
    if isinstance(old, int):
        return old + 1 + variant
    if isinstance(old, float):
        return old + 0.5
    if isinstance(old, str):
        return [old + 'x', old[:-1] if len(old) > 1 else old + 'y', old.upper() if old.upper() != old else old.lower(),
                old + 'é'][variant % 4]
    raise ValueError(f'cannot change {type(old)}')


# --------------------------------------------------------------------------
# materialise a case

def materialise(case: dict):
    if case.get('big') is not None:
        # a dataset of realistic size, built with numpy alone (harness/gen/c16_extra.py)
        from harness.gen import c16_extra
        built = c16_extra.build(case['big'])
        ds, state = built.ds, built.state
    else:
        built = G.build(case['recipe'])
        ds = built.ds
        state = initial_state(built)
    if case.get('edge_coords'):
        ds = add_edge_coords(ds, built, state, case['edge_coords'])
    if case.get('enrich', True):
        enrich(ds, state['expected'])
    if case.get('netcdf'):
        ds = netcdf_roundtrip(ds)
    for name, dt in (case.get('enc_dtypes') or {}).items():
        # the type the variable is STORED with (what xarray keeps in `encoding['dtype']` after opening a file, and
        # what a user sets to save disk space) is not the type of the values held in memory
        ds.variables[name].encoding['dtype'] = np.dtype(dt)
    for e in case.get('edits', []):
        ds = apply_edit(ds, built, state, e)
    if case.get('stabilise', True):
        stabilise(ds)
    # unusual configurations: constructor keywords, and what they do to the expected inventory
    if case.get('kwargs'):
        state['kwargs'] = dict(state.get('kwargs', {}), **case['kwargs'])
    if case.get('expected_drop') or case.get('expected_add'):
        state['expected'] = [n for n in state['expected'] if n not in case.get('expected_drop', [])] \
            + list(case.get('expected_add', []))
    return ds, state, built


def convention_class(state: dict):
    import emsarray.conventions as c
    base = {
        'cf1d': c.grid.CFGrid1D, 'cf2d': c.grid.CFGrid2D,
        'shoc_simple': c.shoc.ShocSimple, 'shoc_standard': c.shoc.ShocStandard,
        'ugrid': c.ugrid.UGrid,
    }[state['conv']]
    sub = state.get('subclass')
    if isinstance(sub, str) and sub.startswith('named='):    # (round 6) a class of the same module with the given name
        return type(sub[len('named='):], (base,), {'__module__': base.__module__})
    if sub == 'name':        # another class of the same module
        return type('Local' + base.__name__, (base,), {'__module__': base.__module__})
    if sub == 'module':      # a class of the same name in another module
        return type(base.__name__, (base,), {'__module__': 'verif_c16_local'})
    if sub:
        return type('Local' + base.__name__, (base,), {'__module__': 'verif_c16_local'})
    return base


def make_convention(ds: xr.Dataset, state: dict):
    cls = convention_class(state)
    kwargs = {}
    for k, v in state.get('kwargs', {}).items():
        if k == 'coordinate_names':
            v = {kk: tuple(vv) for kk, vv in v.items()}
        kwargs[k] = v
    conv = cls(ds, **kwargs)
    conv.bind()
    return conv


def compute(case: dict) -> dict:
    """key and recorded stream of a case, through the real `make_cache_key`"""
    import emsarray
    from emsarray.operations.cache import make_cache_key
    old_version = emsarray.__version__
    try:
        ds, state, built = materialise(case)
        if case.get('version') is not None:
            emsarray.__version__ = case['version']
        conv = make_convention(ds, state)
        rec = Recorder()
        key_rec = make_cache_key(ds, rec)
        key = make_cache_key(ds)
        return {'ok': True, 'key': key, 'key_rec': key_rec, 'stream': rec.stream.hex(),
                'names': [str(n) for n in conv.get_all_geometry_names()]}
    except Exception as ex:  # noqa
        return {'ok': False, 'error': f'{type(ex).__name__}: {ex}'}
    finally:
        emsarray.__version__ = old_version


def child_main() -> int:
    dev_src = os.environ.get('EMSARRAY_VERIF_SRC')
    if dev_src:
        sys.path.insert(0, dev_src)
    payload = json.loads(sys.stdin.read())
    out = []
    for case in payload['cases']:
        r = compute(case)
        out.append({'ok': r['ok'], 'key': r.get('key'), 'stream_sha': hashlib.sha256(bytes.fromhex(r.get('stream', ''))).hexdigest(),
                    'error': r.get('error')})
    import emsarray
    sys.stdout.write('C16CHILD ' + json.dumps({'results': out, 'hashseed': os.environ.get('PYTHONHASHSEED'),
                                               'src': os.path.dirname(emsarray.__file__)}) + '\n')
    return 0


if __name__ == '__main__':
    sys.exit(child_main())
