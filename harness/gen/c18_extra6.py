"""C18, sixth round: the model at any resolution, and recorded tracks.

Two input classes the earlier rounds did not have:

* **resolution** (`place`): the same grids and meshes drawn at `2^-k` degrees per lattice unit (k = 1 .. 14: cells from 50 km
  down to a few metres), somewhere along the equator, with the same paths on the same (scaled) half-lattice.  Every
  coordinate stays a dyadic rational, so the exact clipping and the Lean clipper are used unchanged.  What changes is the
  metric side: path vertices and cut points a few metres to a few kilometres apart instead of 50 - 400 km.
* **tracks** (`track_recipe`, `make_track`): paths with up to a few hundred vertices, as an instrument records them: runs of
  fixes a fraction of a cell apart ("on station"), passages of legs that are several cells long, and every mixture of the
  two (a two-state chain), over a model that is long enough to hold them (up to ~170 cells along the track, 2 - 4 across).
  Vertices lie on the 1/4 or 1/8-cell lattice, legs are axis-parallel or at 45 degrees, x never decreases and a leg never
  doubles back, so positions on the path are unambiguous and every cut point is exactly representable.

Why along the equator: in this sandbox cartopy's PlateCarree -> azimuthal-equidistant conversion displaces the centre of every
per-vertex projection northwards by about 0.67 % of its latitude (21 km at 45 degrees; DESIGN.md 8.4 - the "non-zero start
distance").  The distances of the unchanged code are therefore only ordered correctly where that displacement is well below the
shortest piece of path between two cut points.  `Y_LIMIT` / the lattice of the vertices keep it below a quarter of that
(0.0067 * |y| * 4 <= shortest piece, y in lattice units from the equator), independent of k.
"""
from __future__ import annotations

import math
import random
from fractions import Fraction as F

from harness.gen import datasets as G

# furthest a vertex of a half-lattice path may lie from the equator, in lattice units (0.0067 * 18 * 4 = 0.48 <= 1/2)
Y_LIMIT = 18
KS = [1, 2, 3, 4, 5, 6, 7, 8, 9, 9, 10, 11, 12, 14]
TRACK_KS = [2, 3, 5, 7, 8, 9, 9, 10, 12]


def sub_rng(ctx, tag: str = '') -> random.Random:
    """a stream of this round's own: nothing here draws from `ctx.rng`"""
    return random.Random(f'{ctx.prop}:{ctx.seed}:{int(ctx.searching)}:c18-extra6{tag}')


# ------------------------------------------------------------------------------------------------
# resolution

def lattice_y_range(recipe: dict) -> tuple:
    ys = [p[1] for q in G.build({k: v for k, v in recipe.items() if k not in ('vars', 'sizes_extra', 'store')}).polys
          if q is not None for p in q]
    if not ys:
        return F(0), F(0)
    return min(ys), max(ys)


def place(recipe: dict, k: int, ax: int, yc: int) -> dict:
    """the same model at 2^-k degrees per lattice unit: lattice point (x, y) -> (ax + x / 2^k, (y - yc) / 2^k)"""
    s = 1.0 / (1 << k)           # a power of two: every product below is exact in binary floating point
    r = dict(recipe)
    conv = r['conv']
    if conv == 'cf1d':
        r['lat'] = [s * (v - yc) for v in r['lat']]
        r['lon'] = [ax + s * v for v in r['lon']]
    elif conv in ('cf2d', 'shoc_simple', 'shoc_standard'):
        if r.get('scale', 1) != 1:
            raise ValueError('place: a lattice recipe that already carries a scale')
        ox, oy = r.get('origin', (0, 0))
        r['scale'] = s
        r['origin'] = [ox + ax * (1 << k), oy - yc]
    elif conv == 'ugrid':
        r['nodes'] = [[ax + s * x, s * (y - yc)] for x, y in r['nodes']]
    else:
        raise ValueError(conv)
    r['e6'] = {**r.get('e6', {}), 'k': k, 'ax': ax, 'yc': yc}
    return r


def to_world(e6: dict, pts: list) -> list:
    s = F(1, 1 << e6['k'])
    return [(e6['ax'] + s * x, s * (y - e6['yc'])) for x, y in pts]


def to_lattice(e6: dict, x, y) -> tuple:
    s = F(1, 1 << e6['k'])
    return (F(x) - e6['ax']) / s, F(y) / s + e6['yc']


def random_placement(rng: random.Random, recipe: dict, ks=KS) -> dict:
    y0, y1 = lattice_y_range(recipe)
    yc = int(math.floor((y0 + y1) / 2))
    return place(recipe, rng.choice(ks), rng.randint(-170, 90), yc)


def keep_near_equator(path: list, yc: int, limit: int = Y_LIMIT) -> list:
    """the path as far as it stays within `limit` lattice units of the equator (at least its first leg's start)"""
    out = []
    for p in path:
        if abs(p[1] - yc) > limit:
            break
        out.append(p)
    return out


# ------------------------------------------------------------------------------------------------
# tracks

SHAPES = {
    # name: (probability of starting on station, P(station -> passage) per leg, P(passage -> station) per leg)
    'passage': (0.0, 1.0, 0.0),
    'stations': (0.5, 0.04, 0.5),
    'mixed': (0.5, 0.3, 0.3),
    'dense': (1.0, 0.01, 0.9),
}


def random_track_spec(rng: random.Random, rows: int | None = None) -> dict:
    shape = rng.choice(['passage', 'passage', 'stations', 'mixed', 'mixed', 'dense'])
    n = rng.choice([rng.randint(6, 64), rng.randint(65, 80), rng.randint(65, 140), rng.randint(100, 300)])
    if shape == 'passage':
        n = min(n, 110)
    return {'seed': rng.getrandbits(48), 'n': n, 'shape': shape, 'fine': rng.choice([4, 8, 8]),
            'wv': rng.choice([1, 1, 3]), 'rows': rows or rng.choice([2, 3, 3, 4])}


def make_track(spec: dict) -> list:
    """vertices in *cell units* (cells are 1 x 1 or wider, rows 0 .. spec['rows']); deterministic in `spec`"""
    rng = random.Random(spec['seed'])
    p_start, q_leave, q_enter = SHAPES[spec['shape']]
    fine = spec['fine']
    rows = spec['rows']
    ylo, yhi = F(-1), F(rows + 1)
    x = F(rng.randint(-2 * fine, fine), fine)
    y = F(rng.randint(0, rows * fine), fine)
    pts = [(x, y)]
    on_station = rng.random() < p_start
    last_vertical = 0
    kinds = ['E', 'E', 'NE', 'SE'] + ['N', 'S'] * spec['wv']
    while len(pts) < spec['n']:
        step = F(rng.randint(1, 3), fine) if on_station else F(rng.randint(3, 7), 2)
        kind = rng.choice(kinds)
        # stay over the model (one cell of margin on either side): turn round at the margin
        if kind in ('N', 'NE') and y + step > yhi:
            kind = {'N': 'S', 'NE': 'SE'}[kind]
        elif kind in ('S', 'SE') and y - step < ylo:
            kind = {'S': 'N', 'SE': 'NE'}[kind]
        if kind in ('N', 'NE') and y + step > yhi or kind in ('S', 'SE') and y - step < ylo:
            kind = 'E'
        if kind == 'N' and last_vertical == -1 or kind == 'S' and last_vertical == 1:
            kind = 'E'
        if kind == 'E':
            x, last_vertical = x + step, 0
        elif kind == 'NE':
            x, y, last_vertical = x + step, y + step, 0
        elif kind == 'SE':
            x, y, last_vertical = x + step, y - step, 0
        elif kind == 'N':
            y, last_vertical = y + step, 1
        else:
            y, last_vertical = y - step, -1
        pts.append((x, y))
        if on_station:
            on_station = not (rng.random() < q_leave)
        else:
            on_station = rng.random() < q_enter
    return pts


MAX_COLUMNS = 170


def track_recipe(rng: random.Random, number: int) -> dict:
    """a model long enough for a recorded track (the track is part of the recipe: recipe['e6']['tracks'])"""
    spec = random_track_spec(rng)
    rows = spec['rows']
    specs = [spec, random_track_spec(rng, rows)]        # two tracks over the same model
    reach = max(p[0] for sp in specs for p in make_track(sp))
    conv = ['cf1d', 'cf2d', 'cf1d', 'shoc_simple', 'ugrid', 'shoc_standard', 'cf1d', 'ugrid'][number % 8]
    # cw: lattice units per cell unit (the track is drawn in cell units)
    if conv == 'cf1d':
        cw = rng.choice([2, 4])                # centres at odd multiples of cw / 2, edges (midpoints) between them
        lon = [cw // 2]
        while lon[-1] < cw * (reach + 1) and len(lon) < MAX_COLUMNS:
            lon.append(lon[-1] + cw * rng.choice([1, 1, 1, 1, 2]))
        recipe = {'conv': 'cf1d', 'lat': [cw * j + cw // 2 for j in range(rows)], 'lon': lon,
                  'bounds': 'none', 'lon_first': rng.random() < 0.5}
        if rng.random() < 0.4:
            recipe['lat'] = recipe['lat'][::-1]
        if rng.random() < 0.3:
            recipe['lon'] = recipe['lon'][::-1]
    elif conv in ('cf2d', 'shoc_simple', 'shoc_standard'):
        cw = rng.choice([1, 2])
        nx = max(2, min(MAX_COLUMNS, int(math.ceil(reach)) + rng.randint(0, 2)))
        recipe = {'conv': conv, 'ny': rows, 'nx': nx, 'shear': [cw, 0, 0, cw], 'origin': [0, 0], 'coords_as': 'coords'}
        if conv == 'shoc_standard':
            nodes = [(j, i) for j in range(rows + 1) for i in range(nx + 1)]
            recipe['masked_nodes'] = [list(c) for c in rng.sample(nodes, rng.randint(0, max(1, nx // 12)))]
        else:
            recipe['bounds'] = 'stored'
            recipe['bounds_as'] = 'vars'
            if conv == 'cf2d':
                recipe['ydim'], recipe['xdim'] = rng.choice([('y', 'x'), ('nj', 'ni')])
            cells = [(j, i) for j in range(rows) for i in range(nx)]
            recipe['holes'] = [list(c) for c in rng.sample(cells, rng.randint(0, max(1, len(cells) // 10)))]
    else:
        cw = 2                                 # gen_mesh cuts its faces from 2 x 2 squares
        w = max(1, min(MAX_COLUMNS // 2, int(math.ceil(reach)) + rng.randint(0, 1)))
        mesh = G.gen_mesh(rng, w, rows, shear=None, concave=True, midpoints=True, drop=True)
        recipe = {'conv': 'ugrid', 'nodes': mesh['nodes'], 'faces': mesh['faces'],
                  'enc': {'start_index': rng.choice([0, 1]), 'fill': 'nan', 'transposed': rng.random() < 0.35, 'tables': [],
                          'edge_dim_declared': False, 'coords_as': 'vars', 'face_coords': None, 'fill_spec': 'i4big'}}
    recipe['e6'] = {'cw': cw, 'tracks': specs}
    return place(recipe, rng.choice(TRACK_KS), rng.randint(-170, 90), (rows * cw) // 2)


def track_paths(recipe: dict) -> list:
    """[(lattice path, label)] of a track recipe"""
    e6 = recipe['e6']
    out = []
    for spec in e6.get('tracks', []):
        pts = [(e6['cw'] * x, e6['cw'] * y) for x, y in make_track(spec)]
        out.append((pts, f"{spec['shape']}/{'<=64' if len(pts) <= 64 else '65-128' if len(pts) <= 128 else '>128'}"))
    return out


# ------------------------------------------------------------------------------------------------
# the paths of a recipe of this round (called from harness/props/c18.py in place of its own three paths)

def paths(ctx, rng: random.Random, recipe: dict, xs: list, ys: list, make_path) -> object:
    """yields (path in world coordinates, z ordinates or None)"""
    e6 = recipe['e6']
    yc = e6['yc']
    if e6.get('tracks'):
        for pts, label in track_paths(recipe):
            ctx.count('track:' + label)
            if rng.random() < 0.4:
                pts = pts[::-1]
                ctx.count('path:east-to-west')
            zs = [rng.choice([0, 10, 900, -50]) for _ in pts] if rng.random() < 0.2 else None
            yield to_world(e6, pts), zs
        return
    lx = [to_lattice(e6, x, y)[0] for x, y in ((min(xs), 0), (max(xs), 0))]
    ly = [to_lattice(e6, 0, y)[1] for y in (min(ys), max(ys))]
    for _ in range(3):
        pts = keep_near_equator(make_path(rng, lx, ly), yc)
        if len(pts) < 2:
            pts = [pts[0], (pts[0][0] + 1, pts[0][1])] if pts else [(lx[0], F(yc)), (lx[0] + 1, F(yc))]
        if rng.random() < 0.4:
            pts = pts[::-1]
            ctx.count('path:east-to-west')
        zs = [rng.choice([0, 10, 900, -50]) for _ in pts] if rng.random() < 0.3 else None
        ctx.count(f"resolution:2^-{e6['k']}")
        yield to_world(e6, pts), zs


# ------------------------------------------------------------------------------------------------
# metric side: the distance a segment covers is the length of its piece of the path

_GEOD = None
METRES_PER_DEGREE = 111_320.0
RATIOS: list = []         # (difference / tolerance) of every segment judged, for tuning and for the distribution


def _geod():
    global _GEOD
    if _GEOD is None:
        import pyproj
        _GEOD = pyproj.Geod(ellps='WGS84')
    return _GEOD


def point_at(path: list, t) -> tuple:
    k = min(int(math.floor(t)), len(path) - 2)
    s = t - k
    a, b = path[k], path[k + 1]
    return (a[0] + (b[0] - a[0]) * s, a[1] + (b[1] - a[1]) * s)


def metric_length(path: list, a, b) -> tuple:
    """(geodesic length in metres of the path between parameters a <= b - leg by leg, as the library measures: from each
    vertex to the next point -, number of path vertices strictly between them)"""
    inner = [path[j] for j in range(int(math.floor(a)) + 1, int(math.ceil(b))) if a < j < b]
    pts = [point_at(path, a)] + inner + [point_at(path, b)]
    g = _geod()
    total = 0.0
    for p, q in zip(pts, pts[1:]):
        total += g.inv(float(p[0]), float(p[1]), float(q[0]), float(q[1]))[2]
    return total, len(inner)


def length_tolerance(path: list, length: float, spanned: int) -> float:
    """what the sandbox's displaced projection centres (module docstring) can add to or take from a distance: up to
    0.67 % of the distance from the equator per measurement (one per end, one per vertex in between); taken at 1.5 % per
    measurement, plus 2 % of the length itself and a centimetre"""
    far = max(abs(float(p[1])) for p in path) * METRES_PER_DEGREE
    return 0.02 * length + (spanned + 2) * 0.015 * far + 0.01


def metric_failures(path: list, segs: list, got: list) -> list:
    """segments whose `end_distance - start_distance` is not the length of their piece: [(position, cell, covered, expected, tolerance)]"""
    out = []
    for pos, (s, (n, a, b)) in enumerate(zip(segs, got)):
        if not a < b:
            continue
        expected, spanned = metric_length(path, a, b)
        covered = float(s.end_distance) - float(s.start_distance)
        tol = length_tolerance(path, expected, spanned)
        RATIOS.append(abs(covered - expected) / tol)
        if not abs(covered - expected) <= tol:
            out.append((pos, n, covered, expected, tol))
    return out
