"""Two further input classes of the geometry export (C15).

**Cells that are there but have no polygon** (`flat_*`).  A cell loses its polygon in two ways: its bounds are missing
(NaN - the holes of the shared generator), or its bounds are perfectly finite and the cell is *degenerate*: an
axis-aligned grid with a zero-width ghost column / zero-height ghost row between two ordinary ones (stored bounds
`(102, 102)`), or three and more equal consecutive coordinate values (the bounds derived from them collapse in the
middle).  emsarray gives such a cell no polygon (`InvalidPolygonWarning`), so it is a hole of the export like any
other - but everything that tells holes from cells by looking at the *bounds* sees a cell.  Recipes:

* ``{'conv': 'cf1d', …, 'flat': {'lat': …, 'lon': …}}`` - an axis is described by its cell *edges*
  (strictly monotone) and the edges at which a ghost cell of zero extent sits; `build` below turns it into stored
  coordinate bounds (the only thing the shared cf1d builder cannot express), ground truth from the edges;
* plain shared-vocabulary cf1d recipes whose `lat` / `lon` repeat a value three or more times (`flat_repeat`).

**Coordinate regimes and mixed histories** (`REGIMES`, `regime_history`).  The numbers a dataset's cells are made of
are an input like any other: whole degrees (what the shared generator draws), fine fractions of a degree (corners
that need three to six decimal places: k / 8 … k / 64, exact in binary and in six decimal places alike), projected
coordinates in metres (eastings ~10^5, northings ~10^6, whole metres) and projected coordinates with sub-metre
parts.  `to_regime` re-expresses a shared-vocabulary recipe of any convention in a regime (an exact affine map
x -> x0 + s x of every coordinate; the recipe stays in the shared vocabulary).  A mixed history exports datasets of
*different* conventions and regimes one after the other in one process and then the first one again: the
export of a dataset is a function of that dataset, whatever kind of dataset the process exported before it.

Nothing here is random outside the `rng` handed in; recipes are JSON-able dicts.
"""
from __future__ import annotations

import copy
from fractions import Fraction

import numpy as np

from harness.gen import datasets as G

F = Fraction


# ---------------------------------------------------------------------------------------------------------------
# degenerate cells of an axis-aligned grid

def flat_axis(rng, n_real: int, n_ghost: int) -> dict:
    """an axis of `n_real` ordinary cells between strictly monotone integer edges and `n_ghost` ghost cells of zero
    extent, each sitting at one of the edges (first and last edge included; two ghosts may share an edge)"""
    start = rng.randint(-20, 20)
    edges = [start]
    for _ in range(n_real):
        edges.append(edges[-1] + rng.choice([1, 2, 2, 3, 4]))
    if rng.random() < 0.4:
        edges = edges[::-1]
    at = sorted(rng.randrange(len(edges)) for _ in range(n_ghost))
    return {'edges': edges, 'ghosts': at}


def axis_cells(axis: dict):
    """(coordinate values, bounds) of a `flat_axis`: a ghost at edge k is the cell (e_k, e_k) with coordinate e_k,
    standing before the ordinary cell (e_k, e_k+1) whose coordinate is the midpoint"""
    edges = [F(e) for e in axis['edges']]
    vals, bnds = [], []
    for k, e in enumerate(edges):
        for _ in range(axis['ghosts'].count(k)):
            vals.append(e)
            bnds.append((e, e))
        if k + 1 < len(edges):
            vals.append((e + edges[k + 1]) / 2)
            bnds.append((e, edges[k + 1]))
    return vals, bnds


def flat_ghost(rng, max_n: int = 5) -> dict:
    """a cf1d recipe with ghost columns and / or ghost rows (stored bounds)"""
    base = G.random_cf1d(rng, max_n=max_n, bounds='contig')
    which = rng.choice(['lon', 'lon', 'lat', 'both'])
    ny, nx = rng.randint(2, max_n), rng.randint(2, max_n)
    flat = {
        'lat': flat_axis(rng, ny, rng.choice([1, 1, 2]) if which in ('lat', 'both') else 0),
        'lon': flat_axis(rng, nx, rng.choice([1, 1, 2]) if which in ('lon', 'both') else 0),
    }
    base['flat'] = flat
    # (the coordinate values the shared builder sees; the bounds it derives from them are replaced by `build`)
    base['lat'] = [float(v) for v in axis_cells(flat['lat'])[0]]
    base['lon'] = [float(v) for v in axis_cells(flat['lon'])[0]]
    return base


def _repeat_axis(rng, n: int, runs: int) -> list:
    """`n` strictly monotone values with `runs` of them repeated three (sometimes four) times in a row: the bounds
    derived from the values (midpoints) have zero extent for the inner members of a run"""
    vals = G._axis(rng, n, rng.random() < 0.5)
    out = []
    picks = set(rng.sample(range(n), min(runs, n)))
    for k, v in enumerate(vals):
        out += [v] * (rng.choice([3, 3, 4]) if k in picks else 1)
    return out


def flat_repeat(rng, max_n: int = 4) -> dict:
    """a plain cf1d recipe (shared vocabulary) whose axes repeat a coordinate value: bounds derived by emsarray
    ('none') or stored as the same midpoints ('contig')"""
    base = G.random_cf1d(rng, max_n=max_n)
    which = rng.choice(['lon', 'lon', 'lat', 'both'])
    ny, nx = rng.randint(2, max_n), rng.randint(2, max_n)
    base['lat'] = _repeat_axis(rng, ny, rng.choice([1, 1, 2]) if which in ('lat', 'both') else 0)
    base['lon'] = _repeat_axis(rng, nx, rng.choice([1, 1, 2]) if which in ('lon', 'both') else 0)
    base['bounds'] = rng.choice(['none', 'contig'])
    return base


def random_flat(rng, k: int) -> dict:
    """the k-th degenerate-cell recipe: ghosts in stored bounds and repeated coordinate values in turn"""
    return flat_ghost(rng) if k % 2 == 0 else flat_repeat(rng)


def build(recipe: dict) -> G.Built:
    """`G.build` for every recipe of the shared vocabulary; a cf1d recipe with a `flat` entry has its stored bounds
    (and the ground truth: polygons, bounds) replaced by those of the described axes"""
    flat = recipe.get('flat')
    if not flat:
        return G.build(recipe)
    inner = {k: v for k, v in recipe.items() if k != 'flat'}
    inner['bounds'] = 'contig'
    lat, latb = axis_cells(flat['lat'])
    lon, lonb = axis_cells(flat['lon'])
    inner['lat'], inner['lon'] = [float(v) for v in lat], [float(v) for v in lon]
    built = G.build(inner)
    names = built.extra['names']
    for name, bnds in ((names['lat'] + '_bnds', latb), (names['lon'] + '_bnds', lonb)):
        var = built.ds[name]
        data = np.array([[float(a), float(b)] for a, b in bnds]).astype(var.dtype)
        var.values[...] = data               # in place: the variable stays what it was (data variable / coordinate)
        if not np.array_equal(built.ds[name].values, data):
            raise RuntimeError(f'stored bounds {name} were not replaced')
    polys = []
    for (y0, y1) in latb:
        for (x0, x1) in lonb:
            polys.append([(x0, y0), (x1, y0), (x1, y1), (x0, y1)])
    built.polys = polys
    built.recipe = recipe
    built.extra['latb'], built.extra['lonb'] = latb, lonb
    return built


# ---------------------------------------------------------------------------------------------------------------
# coordinate regimes

REGIMES = ('degrees', 'fine', 'metres', 'metres-fine')


def _max_den(built) -> int:
    return max((c.denominator for q in built.polys if q is not None for p in q for c in p), default=1)


def _max_abs(built):
    return max((abs(c) for q in built.polys if q is not None for p in q for c in p), default=F(0))


def _affine(recipe: dict, s, ox, oy) -> dict:
    """every coordinate of `recipe` mapped x -> ox + s x, y -> oy + s y (s, ox, oy: ints or floats that are exact
    binary fractions; ox, oy multiples of s for the lattice conventions, whose origin is counted in lattice steps)"""
    r = copy.deepcopy(recipe)
    if r['conv'] == 'cf1d':
        r['lat'] = [oy + s * v for v in r['lat']]
        r['lon'] = [ox + s * v for v in r['lon']]
    elif r['conv'] == 'ugrid':
        r['nodes'] = [[ox + s * n[0], oy + s * n[1]] for n in r['nodes']]
    else:
        k = r.get('scale', 1)
        x0, y0 = r.get('origin', (0, 0))
        r['scale'] = k * s
        # (origin is multiplied by the scale: k s (x0 + ox / (k s)) = s k x0 + ox)
        r['origin'] = [x0 + F(ox) / F(k * s), y0 + F(oy) / F(k * s)]
        if any(v.denominator != 1 for v in r['origin']):
            raise ValueError('offset is not a whole number of lattice steps')
        r['origin'] = [int(v) for v in r['origin']]
    return r


def to_regime(rng, recipe: dict, regime: str) -> dict:
    """`recipe` (whole-degree coordinates, as the shared generator draws them) in another coordinate regime"""
    if regime == 'degrees':
        return recipe
    probe = G.build(recipe)
    den = _max_den(probe)                    # 1, 2 or 4: the shared generators keep to halves and quarters
    k = recipe.get('scale', 1) if recipe['conv'] not in ('cf1d', 'ugrid') else 1
    if regime in ('fine', 'metres-fine'):
        # corners with exactly `places` binary = decimal places after the map; six is what every format keeps
        places = rng.choice([3, 4, 5, 6, 6, 6])
        shift = places - (den.bit_length() - 1)
        s = 1.0 / (1 << shift)               # an exact binary fraction
    else:
        s = rng.choice([1, 10, 250, 1000])
    step = F(k) * F(s)
    if regime == 'fine':
        # somewhere on the globe, a whole number of lattice steps away
        ox, oy = rng.randint(-170, 170), rng.randint(-80, 80)
        ox, oy = (step * round(F(ox) / step), step * round(F(oy) / step))
    else:
        ox = rng.choice([-1, 1]) * rng.randint(100_000, 900_000)
        oy = rng.choice([-1, 1]) * rng.randint(1_000_000, 9_000_000)
        ox, oy = (step * round(F(ox) / step), step * round(F(oy) / step))

    def plain(v):
        return int(v) if F(v).denominator == 1 else float(v)
    out = _affine(recipe, plain(F(s)), plain(ox), plain(oy))
    check = G.build(out)
    if _max_den(check) > 64 or _max_abs(check) >= 2 ** 31:
        raise ValueError(f'regime {regime}: corners outside six exact decimal places')
    return out


def regime_history(rng, fresh, k: int) -> list:
    """[(how, recipe)]: three datasets of different conventions, each in another coordinate regime (every order of
    regimes turns up), then the first dataset once more; `fresh(conv)` draws a whole-degree recipe from the shared
    generator"""
    regimes = list(REGIMES)
    rng.shuffle(regimes)
    regimes = regimes[:3]
    if 'metres' not in regimes and 'metres-fine' not in regimes:
        regimes[rng.randrange(3)] = 'metres'
    convs = [G.CONVS[(k + j * rng.choice([1, 2, 3])) % len(G.CONVS)] for j in range(3)]
    out = []
    for regime, conv in zip(regimes, convs):
        base = fresh(conv)
        try:
            out.append((f'regime:{regime}', to_regime(rng, base, regime)))
        except ValueError:
            # (a recipe whose corners are not binary fractions to begin with stays as it is)
            out.append(('regime:degrees', base))
    out.append(('regime:again', copy.deepcopy(out[0][1])))
    return out
