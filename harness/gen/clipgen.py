"""Clip geometries and clip execution helpers shared by the C07/C08/C09 property modules."""
from __future__ import annotations

import shutil
import tempfile
from fractions import Fraction

import numpy as np
import shapely
import xarray as xr


def random_geometry(rng, kept_polys: list):
    """A clip geometry placed relative to the cells: box / polygon / line / point / multi-part /
    touching only at an edge or corner / covering everything / hugging the border."""
    cells = [q for q in kept_polys if q is not None]
    xs = [float(p[0]) for q in cells for p in q]
    ys = [float(p[1]) for q in cells for p in q]
    x0, x1, y0, y1 = min(xs), max(xs), min(ys), max(ys)
    kind = rng.choice(['box', 'box', 'cellbox', 'poly', 'line', 'point', 'multi', 'touch-corner',
                       'touch-edge', 'cover', 'border'])
    q = rng.choice(cells)
    qx = [float(p[0]) for p in q]
    qy = [float(p[1]) for p in q]
    if kind == 'box':
        a, b = sorted([rng.uniform(x0, x1), rng.uniform(x0, x1)])
        c, d = sorted([rng.uniform(y0, y1), rng.uniform(y0, y1)])
        return kind, shapely.box(round(a * 2) / 2, round(c * 2) / 2, round(b * 2) / 2 + 0.5, round(d * 2) / 2 + 0.5)
    if kind == 'cellbox':
        return kind, shapely.box(min(qx), min(qy), max(qx), max(qy))
    if kind == 'poly':
        return kind, shapely.Polygon([(float(a), float(b)) for a, b in q]).buffer(0)
    if kind == 'line':
        q2 = rng.choice(cells)
        return kind, shapely.LineString([(sum(qx) / len(qx), sum(qy) / len(qy)),
                                         (sum(float(p[0]) for p in q2) / len(q2), sum(float(p[1]) for p in q2) / len(q2))])
    if kind == 'point':
        return kind, shapely.Point(sum(qx) / len(qx), sum(qy) / len(qy))
    if kind == 'multi':
        q2 = rng.choice(cells)
        return kind, shapely.MultiPoint([(sum(qx) / len(qx), sum(qy) / len(qy)),
                                         (float(q2[0][0]), float(q2[0][1]))])
    if kind == 'touch-corner':
        vx, vy = float(q[0][0]), float(q[0][1])
        return kind, shapely.Point(vx, vy)
    if kind == 'touch-edge':
        (ax, ay), (bx, by) = q[0], q[1]
        return kind, shapely.LineString([(float(ax), float(ay)), (float(bx), float(by))])
    if kind == 'cover':
        return kind, shapely.box(x0 - 10, y0 - 10, x1 + 10, y1 + 10)
    return kind, shapely.box(x0 - 1, y0 - 1, x0 + (x1 - x0) / 4 + 0.25, y1 + 1)


class WorkDir:
    def __enter__(self):
        self.path = tempfile.mkdtemp(prefix='verif_clip_')
        return self.path

    def __exit__(self, *a):
        shutil.rmtree(self.path, ignore_errors=True)


def bool_arr_str(da: xr.DataArray) -> str:
    dims = ','.join(f'{d}:{s}' for d, s in zip(da.dims, da.shape)) or '-'
    vals = np.asarray(da.values).reshape(-1)
    return f"{dims}|{','.join('1' if bool(v) else '0' for v in vals) or '-'}"
