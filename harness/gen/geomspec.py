"""Ground-truth → line-protocol encoders for the geometry operations (Core/GeomProto.lean),
and canonical printers for what real emsarray returns."""
from __future__ import annotations

import warnings
from fractions import Fraction

import numpy as np
import shapely

from harness.util import rat_str


def num(v) -> str:
    return '-' if v is None else rat_str(v)


def nums(vals) -> str:
    return ','.join(num(v) for v in vals)


def ring_str(pts) -> str:
    pts = list(pts)
    if len(pts) > 1 and pts[0] == pts[-1]:
        pts = pts[:-1]
    return ';'.join(f'{rat_str(x)},{rat_str(y)}' for x, y in pts)


def rings_str(polys) -> str:
    return '|'.join('-' if p is None else ring_str(p) for p in polys)


def impl_ring(poly) -> list:
    coords = [(Fraction(x), Fraction(y)) for x, y in poly.exterior.coords]
    return coords[:-1]


def geos_valid(q) -> bool:
    """GEOS validity of the polygon shapely builds from vertex list q"""
    try:
        p = shapely.polygons(np.array([[float(x), float(y)] for x, y in q]))
    except Exception:
        return False
    return bool(shapely.is_valid(p))


def geos_valid_bits(raw_polys) -> str:
    return ''.join('1' if (q is None or geos_valid(q)) else '0' for q in raw_polys)


def polys_args(built) -> str:
    """the `<conv> key=value…` part of a `polys` op, from the generator's ground truth"""
    r, ex = built.recipe, built.extra
    if built.conv == 'cf1d':
        s = f"cf1d lon={nums(r['lon'])} lat={nums(r['lat'])}"
        if r.get('bounds', 'none') != 'none':
            s += ' lonb=' + ','.join(f'{num(a)}:{num(b)}' for a, b in ex['lonb'])
            s += ' latb=' + ','.join(f'{num(a)}:{num(b)}' for a, b in ex['latb'])
        return s
    if built.conv in ('cf2d', 'shoc_simple'):
        ny, nx = r['ny'], r['nx']
        s = (f"cf2d ny={ny} nx={nx} lon={nums(v for row in ex['cx'] for v in row)} "
             f"lat={nums(v for row in ex['cy'] for v in row)}")
        if ex['corners'] is not None:
            holes = {tuple(h) for h in ex['holes']}
            xs, ys = [], []
            for j in range(ny):
                for i in range(nx):
                    for (x, y) in ex['corners'][j, i]:
                        xs.append(None if (j, i) in holes else x)
                        ys.append(None if (j, i) in holes else y)
            s += f' lonb={nums(xs)} latb={nums(ys)}'
        return s
    if built.conv == 'shoc_standard':
        ny, nx = r['ny'], r['nx']
        nodes = ex['nodes']
        xg = [None if p is None else p[0] for row in nodes for p in row]
        yg = [None if p is None else p[1] for row in nodes for p in row]
        return f'ara ny={ny} nx={nx} xg={nums(xg)} yg={nums(yg)}'
    if built.conv == 'ugrid':
        nodes, faces = r['nodes'], r['faces']
        return (f"ugrid nodex={nums(n[0] for n in nodes)} nodey={nums(n[1] for n in nodes)} "
                f"faces={';'.join(','.join(map(str, f)) for f in faces)}")
    raise ValueError(built.conv)


def impl_polys_out(conv, with_bounds: bool = True) -> str:
    """canonical `<rings> M=<mask> B=<bbox> W=<warned>` of a real convention object"""
    from emsarray.exceptions import InvalidPolygonWarning
    with warnings.catch_warnings(record=True) as rec:
        warnings.simplefilter('always')
        polys = conv.polygons
    warned = any(issubclass(w.category, InvalidPolygonWarning) for w in rec)
    rings = '|'.join('-' if p is None else ring_str(impl_ring(p)) for p in polys)
    mask = ''.join('1' if m else '0' for m in conv.mask)
    if with_bounds:
        try:
            b = conv.bounds
            bs = ','.join(rat_str(Fraction(float(v))) for v in b)
        except Exception:
            bs = 'ERR'
    else:
        bs = 'skip'
    return f"{rings} M={mask} B={bs} W={1 if warned else 0}"


def ring_str_raw(pts) -> str:
    return ';'.join(f'{rat_str(x)},{rat_str(y)}' for x, y in pts)
