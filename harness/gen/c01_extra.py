"""
Extra input classes for C01, on top of `gen/datasets.py` (which stays as it is).

A recipe drawn here is an ordinary `datasets.py` recipe with one more key, `'c01'`, that the
shared builders ignore:

    'c01': {'bind': 'class' | 'names' | 'topology',      # how the convention object is obtained
            'pair': 'primary' | 'extra',                 # which coordinate pair the explicit names select
            'extra': {...} | None}                       # a second latitude / longitude pair in the dataset

* **how the convention is obtained** (CF grids, SHOC simple): `Class(dataset)` (coordinates found by
  introspection, what `datasets.bind` does), `Class(dataset, latitude=…, longitude=…)` (the documented way
  of naming the coordinate pair) and `Class(dataset, topology=TopologyClass(dataset, latitude=…, longitude=…))`;
* **datasets with two coordinate pairs** (staggered grids: tracer points and velocity points on
  different dimensions of different sizes), the second pair declared before or after the first; explicit
  names pick either.  The ground truth `Built.grids` is then the grid of the *named* pair;
* **geographic extent of a CF 1-D axis**: longitudes that go exactly once round the globe (n cells of 360/n
  degrees, starting at 0, -180 or half a cell later, either direction), the same with the cyclic point
  repeated, the same one cell short, and regional ones; latitudes pole to pole or regional.  Index
  conversion must not depend on where on Earth the grid is.

`build(recipe)` / `bind(built)` fall back to `datasets.build` / `datasets.bind` for a recipe without the key,
so a check can use them for every recipe and every replay is exact.
"""
from __future__ import annotations

import random
from fractions import Fraction as F

import numpy as np
import xarray as xr

from harness.gen import datasets as G

BINDS = ['names', 'topology', 'names', 'class']
PAIRS = ['primary', 'extra', 'primary']
LON_CLASSES = ['global', 'regional', 'global0', 'cyclic', 'short']
GLOBAL_N = [3, 4, 5, 6, 8, 9, 10, 12]
CONV_CYCLE = ['cf1d', 'cf1d', 'cf2d', 'cf1d', 'shoc_simple']


def _num(v):
    v = F(v)
    return int(v) if v.denominator == 1 else float(v)


def global_lon(rng: random.Random, cls: str) -> list:
    """longitude cell centres of a grid that goes round the globe; every value is a multiple of 1/2"""
    n = rng.choice(GLOBAL_N)
    step = F(360, n)
    start = F(rng.choice([0, -180]))
    if cls != 'global0':
        start += step / 2            # centres half a cell in from the seam (5, 15, … 355)
    count = {'global': n, 'global0': n, 'cyclic': n + 1, 'short': max(2, n - 1)}[cls]
    vals = [start + k * step for k in range(count)]
    if rng.random() < 0.4:
        vals = vals[::-1]
    return [_num(v) for v in vals]


def global_lat(rng: random.Random) -> list:
    m = rng.choice([2, 3, 4, 5, 6])
    step = F(180, m)
    vals = [F(-90) + step / 2 + k * step for k in range(m)]
    if rng.random() < 0.4:
        vals = vals[::-1]
    return [_num(v) for v in vals]


def random_extra(rng: random.Random, k: int, tier: str = 'quick') -> dict:
    """the k-th recipe of the extra stream: convention, binding, pair and longitude class are walked
    systematically (cycles of coprime length), the rest is drawn"""
    conv = CONV_CYCLE[k % len(CONV_CYCLE)]
    n_conv = k // len(CONV_CYCLE) * CONV_CYCLE.count(conv) + CONV_CYCLE[:k % len(CONV_CYCLE)].count(conv)
    how = BINDS[n_conv % len(BINDS)]
    pair = PAIRS[n_conv % len(PAIRS)] if how != 'class' else 'primary'
    with_extra = pair == 'extra' or (how != 'class' and rng.random() < 0.5)
    if conv == 'cf1d':
        r = G.random_cf1d(rng, max_n=9 if tier == 'thorough' else 6)
        lon_class = LON_CLASSES[n_conv % len(LON_CLASSES)]
        if lon_class != 'regional':
            r['lon'] = global_lon(rng, lon_class)
        if rng.random() < 0.5:
            r['lat'] = global_lat(rng)
        r['lon_dtype'] = rng.choice(['f8', 'f8', 'f4', 'i4'])
        r['lat_dtype'] = rng.choice(['f8', 'f8', 'f4', 'i4'])
        r['coords_as'] = rng.choice(['coords', 'coords', 'vars'])
        extra = None
        if with_extra:
            ny, nx = G._shape2(rng, 6, min_n=2)
            names = rng.choice([('lat_u', 'lon_u', 'lat_u', 'lon_u'), ('yu', 'xu', 'lat_u', 'lon_u')])
            extra = {'lat': G._axis(rng, ny, True), 'lon': G._axis(rng, nx, True),
                     'ydim': names[0], 'xdim': names[1], 'latname': names[2], 'lonname': names[3],
                     'first': rng.random() < 0.5, 'var_order': rng.choice([[0, 1], [1, 0]])}
            if lon_class != 'regional' and rng.random() < 0.5:
                # the velocity points of a global grid: the same columns, half a cell further on
                step = F(r['lon'][1]) - F(r['lon'][0])
                extra['lon'] = [_num(F(v) + step / 2) for v in r['lon']]
    else:
        r = G.random_cf2d(rng, conv, max_n=8 if tier == 'thorough' else 5, holes=False)
        lon_class = 'curvilinear'
        extra = None
        if with_extra:
            ny, nx = G._shape2(rng, 5, min_n=1)
            extra = {'ny': ny, 'nx': nx, 'ydim': 'j_u', 'xdim': 'i_u', 'latname': 'lat_u', 'lonname': 'lon_u',
                     'first': rng.random() < 0.5, 'var_order': rng.choice([[0, 1], [1, 0]])}
    r['c01'] = {'bind': how, 'pair': pair, 'extra': extra, 'lon_class': lon_class}
    r['vary'] = G.random_vary(rng, conv)
    return r


def _add_extra_pair(built: G.Built, e: dict) -> None:
    lat_attrs = {'standard_name': 'latitude', 'units': 'degrees_north'}
    lon_attrs = {'standard_name': 'longitude', 'units': 'degrees_east'}
    ydim, xdim = e['ydim'], e['xdim']
    if built.conv == 'cf1d':
        ny, nx = len(e['lat']), len(e['lon'])
        lat_da = xr.DataArray(np.array([float(v) for v in e['lat']]), dims=[ydim], attrs=lat_attrs)
        lon_da = xr.DataArray(np.array([float(v) for v in e['lon']]), dims=[xdim], attrs=lon_attrs)
    else:
        ny, nx = e['ny'], e['nx']
        jj, ii = np.meshgrid(np.arange(ny, dtype='f8'), np.arange(nx, dtype='f8'), indexing='ij')
        lat_da = xr.DataArray(-40 + 2 * jj + ii, dims=[ydim, xdim], attrs=lat_attrs)
        lon_da = xr.DataArray(100 + 3 * ii - jj, dims=[ydim, xdim], attrs=lon_attrs)
    dims = [[ydim, xdim][a] for a in e.get('var_order', [0, 1])]
    shape = tuple({ydim: ny, xdim: nx}[d] for d in dims)
    u = xr.DataArray(np.arange(ny * nx, dtype='f8').reshape(shape) + 5000000, dims=dims)
    pair = {e['latname']: lat_da, e['lonname']: lon_da}
    if e.get('first'):
        # declared before the first pair: whatever looks for "the" latitude by walking the variables finds this one
        head = xr.Dataset(coords=pair, attrs=dict(built.ds.attrs))
        head['u_extra'] = u
        ds = head.merge(built.ds, combine_attrs='override')
    else:
        ds = built.ds.assign_coords(pair)
        ds['u_extra'] = u
    built.ds = ds
    built.extra['c01_extra_grid'] = {'face': ((ydim, xdim), (ny, nx))}


def build(recipe: dict) -> G.Built:
    info = recipe.get('c01')
    if not info:
        return G.build(recipe)
    b = G.BUILDERS[recipe['conv']](recipe)
    names = b.extra['names']
    b.extra['c01_names'] = (names['lat'], names['lon'])
    if info.get('extra'):
        _add_extra_pair(b, info['extra'])
        if info.get('pair') == 'extra':
            # the grid this convention object addresses is the one of the pair it was given
            b.extra['primary_grids'] = b.grids
            b.grids = b.extra['c01_extra_grid']
            b.extra['c01_names'] = (info['extra']['latname'], info['extra']['lonname'])
    if recipe.get('vary'):
        G.apply_vary(b, recipe['vary'])
    return b


def bind(built: G.Built):
    info = built.recipe.get('c01')
    if not info:
        return G.bind(built)
    cls = built.conv_class
    lat, lon = built.extra['c01_names']
    how = info.get('bind', 'class')
    if how == 'names':
        conv = cls(built.ds, latitude=lat, longitude=lon)
    elif how == 'topology':
        conv = cls(built.ds, topology=cls.topology_class(built.ds, latitude=lat, longitude=lon))
    else:
        conv = cls(built.ds)
    conv.bind()
    return conv
