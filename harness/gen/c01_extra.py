"""
Extra input classes for C01, on top of `gen/datasets.py` (which stays as it is).

A recipe drawn here is an ordinary `datasets.py` recipe with one more key, `'c01'`, that the
shared builders ignore:

    'c01': {'bind': 'class' | 'names' | 'topology',      # how the convention object is obtained
            'pair': 'primary' | 'extra',                 # which coordinate pair the explicit names select
            'extra': {...} | None}                       # a second latitude / longitude pair in the dataset

* **how the convention is obtained** (CF grids, SHOC simple): `Class(dataset)` (coordinates found by
  introspection, what `datasets.bind` does), `Class(dataset, latitude=…, longitude=…)` (the documented way
  of naming the coordinate pair) and `Class(dataset, topology=TopologyClass(dataset, latitude=…, longitude=…))`;
* **datasets with two coordinate pairs** (staggered grids: tracer points and velocity points on
  different dimensions of different sizes), the second pair declared before or after the first; explicit
  names pick either.  The ground truth `Built.grids` is then the grid of the *named* pair;
* **geographic extent of a CF 1-D axis**: longitudes that go exactly once round the globe (n cells of 360/n
  degrees, starting at 0, -180 or half a cell later, either direction), the same with the cyclic point
  repeated, the same one cell short, and regional ones; latitudes pole to pole or regional.  Index
  conversion must not depend on where on Earth the grid is.

* **the history of the convention object** (every convention): `'c01_history': [op, …]`, ordinary read-only
  questions put to the bound object *before* the index questions (the grid kind of every variable incl. the
  ones on no grid, depth / time coordinates, geometry, ravel / wind of the variables, selections, a clip
  mask, refused index questions, …), see `HISTORY_OPS`; `with_layers` adds a depth and a time coordinate for
  them to look at.  The ground truth does not change: what was asked before may not change an index space.

`build(recipe)` / `bind(built)` fall back to `datasets.build` / `datasets.bind` for a recipe without the key,
so a check can use them for every recipe and every replay is exact.
"""
from __future__ import annotations

import random
from fractions import Fraction as F

import numpy as np
import xarray as xr

from harness.gen import datasets as G

BINDS = ['names', 'topology', 'names', 'class']
PAIRS = ['primary', 'extra', 'primary']
LON_CLASSES = ['global', 'regional', 'global0', 'cyclic', 'short']
GLOBAL_N = [3, 4, 5, 6, 8, 9, 10, 12]
CONV_CYCLE = ['cf1d', 'cf1d', 'cf2d', 'cf1d', 'shoc_simple']


def _num(v):
    v = F(v)
    return int(v) if v.denominator == 1 else float(v)


def global_lon(rng: random.Random, cls: str) -> list:
    """longitude cell centres of a grid that goes round the globe; every value is a multiple of 1/2"""
    n = rng.choice(GLOBAL_N)
    step = F(360, n)
    start = F(rng.choice([0, -180]))
    if cls != 'global0':
        start += step / 2            # centres half a cell in from the seam (5, 15, … 355)
    count = {'global': n, 'global0': n, 'cyclic': n + 1, 'short': max(2, n - 1)}[cls]
    vals = [start + k * step for k in range(count)]
    if rng.random() < 0.4:
        vals = vals[::-1]
    return [_num(v) for v in vals]


def global_lat(rng: random.Random) -> list:
    m = rng.choice([2, 3, 4, 5, 6])
    step = F(180, m)
    vals = [F(-90) + step / 2 + k * step for k in range(m)]
    if rng.random() < 0.4:
        vals = vals[::-1]
    return [_num(v) for v in vals]


def random_extra(rng: random.Random, k: int, tier: str = 'quick') -> dict:
    """the k-th recipe of the extra stream: convention, binding, pair and longitude class are walked
    systematically (cycles of coprime length), the rest is drawn"""
    conv = CONV_CYCLE[k % len(CONV_CYCLE)]
    n_conv = k // len(CONV_CYCLE) * CONV_CYCLE.count(conv) + CONV_CYCLE[:k % len(CONV_CYCLE)].count(conv)
    how = BINDS[n_conv % len(BINDS)]
    pair = PAIRS[n_conv % len(PAIRS)] if how != 'class' else 'primary'
    with_extra = pair == 'extra' or (how != 'class' and rng.random() < 0.5)
    if conv == 'cf1d':
        r = G.random_cf1d(rng, max_n=9 if tier == 'thorough' else 6)
        lon_class = LON_CLASSES[n_conv % len(LON_CLASSES)]
        if lon_class != 'regional':
            r['lon'] = global_lon(rng, lon_class)
        if rng.random() < 0.5:
            r['lat'] = global_lat(rng)
        r['lon_dtype'] = rng.choice(['f8', 'f8', 'f4', 'i4'])
        r['lat_dtype'] = rng.choice(['f8', 'f8', 'f4', 'i4'])
        r['coords_as'] = rng.choice(['coords', 'coords', 'vars'])
        extra = None
        if with_extra:
            ny, nx = G._shape2(rng, 6, min_n=2)
            names = rng.choice([('lat_u', 'lon_u', 'lat_u', 'lon_u'), ('yu', 'xu', 'lat_u', 'lon_u')])
            extra = {'lat': G._axis(rng, ny, True), 'lon': G._axis(rng, nx, True),
                     'ydim': names[0], 'xdim': names[1], 'latname': names[2], 'lonname': names[3],
                     'first': rng.random() < 0.5, 'var_order': rng.choice([[0, 1], [1, 0]])}
            if lon_class != 'regional' and rng.random() < 0.5:
                # the velocity points of a global grid: the same columns, half a cell further on
                step = F(r['lon'][1]) - F(r['lon'][0])
                extra['lon'] = [_num(F(v) + step / 2) for v in r['lon']]
    else:
        r = G.random_cf2d(rng, conv, max_n=8 if tier == 'thorough' else 5, holes=False)
        lon_class = 'curvilinear'
        extra = None
        if with_extra:
            ny, nx = G._shape2(rng, 5, min_n=1)
            extra = {'ny': ny, 'nx': nx, 'ydim': 'j_u', 'xdim': 'i_u', 'latname': 'lat_u', 'lonname': 'lon_u',
                     'first': rng.random() < 0.5, 'var_order': rng.choice([[0, 1], [1, 0]])}
    r['c01'] = {'bind': how, 'pair': pair, 'extra': extra, 'lon_class': lon_class}
    r['vary'] = G.random_vary(rng, conv)
    return r


def _add_extra_pair(built: G.Built, e: dict) -> None:
    lat_attrs = {'standard_name': 'latitude', 'units': 'degrees_north'}
    lon_attrs = {'standard_name': 'longitude', 'units': 'degrees_east'}
    ydim, xdim = e['ydim'], e['xdim']
    if built.conv == 'cf1d':
        ny, nx = len(e['lat']), len(e['lon'])
        lat_da = xr.DataArray(np.array([float(v) for v in e['lat']]), dims=[ydim], attrs=lat_attrs)
        lon_da = xr.DataArray(np.array([float(v) for v in e['lon']]), dims=[xdim], attrs=lon_attrs)
    else:
        ny, nx = e['ny'], e['nx']
        jj, ii = np.meshgrid(np.arange(ny, dtype='f8'), np.arange(nx, dtype='f8'), indexing='ij')
        lat_da = xr.DataArray(-40 + 2 * jj + ii, dims=[ydim, xdim], attrs=lat_attrs)
        lon_da = xr.DataArray(100 + 3 * ii - jj, dims=[ydim, xdim], attrs=lon_attrs)
    dims = [[ydim, xdim][a] for a in e.get('var_order', [0, 1])]
    shape = tuple({ydim: ny, xdim: nx}[d] for d in dims)
    u = xr.DataArray(np.arange(ny * nx, dtype='f8').reshape(shape) + 5000000, dims=dims)
    pair = {e['latname']: lat_da, e['lonname']: lon_da}
    if e.get('first'):
        # declared before the first pair: whatever looks for "the" latitude by walking the variables finds this one
        head = xr.Dataset(coords=pair, attrs=dict(built.ds.attrs))
        head['u_extra'] = u
        ds = head.merge(built.ds, combine_attrs='override')
    else:
        ds = built.ds.assign_coords(pair)
        ds['u_extra'] = u
    built.ds = ds
    built.extra['c01_extra_grid'] = {'face': ((ydim, xdim), (ny, nx))}


def build(recipe: dict) -> G.Built:
    info = recipe.get('c01')
    if not info:
        return G.build(recipe)
    b = G.BUILDERS[recipe['conv']](recipe)
    names = b.extra['names']
    b.extra['c01_names'] = (names['lat'], names['lon'])
    if info.get('extra'):
        _add_extra_pair(b, info['extra'])
        if info.get('pair') == 'extra':
            # the grid this convention object addresses is the one of the pair it was given
            b.extra['primary_grids'] = b.grids
            b.grids = b.extra['c01_extra_grid']
            b.extra['c01_names'] = (info['extra']['latname'], info['extra']['lonname'])
    if recipe.get('vary'):
        G.apply_vary(b, recipe['vary'])
    return b


def bind(built: G.Built):
    """the convention object of the recipe, obtained the way the recipe says and - when the recipe carries a
    `'c01_history'` - after that history of questions has been put to this very object"""
    conv = _bind_fresh(built)
    if built.recipe.get('c01_history'):
        built.extra['c01_history_raised'] = apply_history(conv, built, built.recipe['c01_history'])
    return conv


def _bind_fresh(built: G.Built):
    info = built.recipe.get('c01')
    if not info:
        return G.bind(built)
    cls = built.conv_class
    lat, lon = built.extra['c01_names']
    how = info.get('bind', 'class')
    if how == 'names':
        conv = cls(built.ds, latitude=lat, longitude=lon)
    elif how == 'topology':
        conv = cls(built.ds, topology=cls.topology_class(built.ds, latitude=lat, longitude=lon))
    else:
        conv = cls(built.ds)
    conv.bind()
    return conv


# --------------------------------------------------------------------------
# the history of one convention object
#
# `dataset.ems` / a bound convention is ONE long-lived object per dataset, and most of what it knows is cached on it
# (`cached_property`).  The property quantifies over datasets and grids, not over "freshly made convention
# objects": the index spaces must be the same whatever was asked of the object before.  A recipe may therefore
# carry `'c01_history': [op, ...]`, a sequence of ordinary read-only questions (several of them end in an error
# that is part of their documented contract: a variable on no grid has no grid kind, a dataset may have no time
# coordinate) that `bind` puts to the object before handing it out.  None of them may change a single answer.

# every op gets `q`, which asks one question and swallows (and notes) whatever it raises: a question that ends in
# an error is part of a history like any other, and must not keep the following ones from being asked

def _h_grid_kind(c, built, q):
    # the grid kind of every variable of the dataset; the ones on no grid raise ValueError, as documented
    for name in list(c.dataset.variables):
        q(lambda: c.get_grid_kind(c.dataset[name]), expected=ValueError)


def _h_grid_kind_and_size(c, built, q):
    for name in list(c.dataset.data_vars):
        q(lambda: c.get_grid_kind_and_size(c.dataset[name]), expected=ValueError)


def _h_depth(c, built, q):
    q(lambda: c.depth_coordinates)
    q(lambda: c.get_all_depth_names())
    for name in list(c.dataset.data_vars):
        q(lambda: c.get_depth_coordinate_for_data_array(c.dataset[name]), expected=(ValueError, LookupError))
    q(lambda: c.depth_coordinate)


def _h_time(c, built, q):
    q(lambda: c.time_coordinate)       # NoSuchCoordinateError when there is none


def _h_geometry(c, built, q):
    for attr in ('polygons', 'face_centres', 'mask', 'bounds', 'geometry', 'strtree'):
        q(lambda: getattr(c, attr))


def _h_names(c, built, q):
    q(lambda: c.get_all_geometry_names())
    q(lambda: c.drop_geometry())


def _h_ravel(c, built, q):
    # every data variable made linear and wound back; the ones on no grid raise ValueError
    def there_and_back(da):
        flat = c.ravel(da)
        c.wind(flat, grid_kind=c.get_grid_kind(da))
    for name in list(c.dataset.data_vars):
        q(lambda: there_and_back(c.dataset[name]), expected=ValueError)


def _h_select(c, built, q):
    q(lambda: c.selector_for_index(c.wind_index(0)))
    q(lambda: c.select_index(c.wind_index(0)))
    q(lambda: c.select_variables(list(built.vars)[:1]))


def _h_floor(c, built, q):
    q(lambda: c.normalize_depth_variables())
    q(lambda: c.ocean_floor())


def _h_topology(c, built, q):
    for attr in ('face_node_array', 'edge_node_array', 'edge_face_array', 'face_edge_array', 'face_face_array',
                 'latitude', 'longitude', 'latitude_bounds', 'longitude_bounds', 'shape'):
        q(lambda: getattr(c.topology, attr), expected=AttributeError)


def _h_bad_index(c, built, q):
    # index questions that are refused: their refusal must leave nothing behind either
    for call in (lambda: c.wind_index(-1), lambda: c.wind_index(10 ** 6), lambda: c.wind_index(0, grid_kind='nope'),
                 lambda: c.ravel_index(()), lambda: c.ravel_index(('nope', 0, 0))):
        q(call, expected=Exception)


def _h_hash(c, built, q):
    import hashlib
    q(lambda: c.hash_geometry(hashlib.sha1()))


def _h_clip_mask(c, built, q):
    from shapely.geometry import box

    def clip():
        x0, y0, x1, y1 = c.bounds
        c.make_clip_mask(box(x0, y0, (x0 + x1) / 2, (y0 + y1) / 2), buffer=1)
    q(clip)


HISTORY_OPS = {
    'grid_kind': _h_grid_kind, 'depth': _h_depth, 'geometry': _h_geometry, 'ravel': _h_ravel,
    'time': _h_time, 'names': _h_names, 'select': _h_select, 'grid_kind_and_size': _h_grid_kind_and_size,
    'floor': _h_floor, 'topology': _h_topology, 'bad_index': _h_bad_index, 'hash': _h_hash,
    'clip_mask': _h_clip_mask,
}
HISTORY_NAMES = list(HISTORY_OPS)
HISTORY_LENGTHS = [1, 2, 0, 3]


def random_history(rng: random.Random, u: int) -> list:
    """the history of the u-th dataset of a convention: its length walks 1, 2, 0, 3 (a fresh object stays covered),
    its first question walks `HISTORY_NAMES` (13 and 4 are coprime), the rest is drawn; a question may repeat"""
    n = HISTORY_LENGTHS[u % len(HISTORY_LENGTHS)]
    if n == 0:
        return []
    return [HISTORY_NAMES[u % len(HISTORY_NAMES)]] + [rng.choice(HISTORY_NAMES) for _ in range(n - 1)]


SHOC_LAYER_NAMES = {'shoc_simple': ('zc', 'time'), 'shoc_standard': ('z_centre', 't')}


def with_layers(rng: random.Random, recipe: dict) -> dict:
    """a depth coordinate and a time coordinate (on the `k` / `time` dimensions the tagged variables already use),
    so that the questions about depths and times have something to look at; needs `attach_vars` to have run"""
    recipe = dict(recipe)
    zname = rng.choice(['zc', 'k'])          # an ordinary variable, or the dimension coordinate itself
    tname = rng.choice(['t', 'time'])
    if recipe['conv'] in SHOC_LAYER_NAMES:   # (the SHOC conventions know their depth / time coordinates by name)
        zname, tname = SHOC_LAYER_NAMES[recipe['conv']]
    recipe['vars'] = list(recipe['vars']) + [
        {'name': zname, 'kind': None, 'extra': ['k'], 'base': 9000000, 'dtype': 'f8',
         'attrs': {'standard_name': 'depth', 'positive': rng.choice(['down', 'up']), 'axis': 'Z'}},
        {'name': tname, 'kind': None, 'extra': ['time'], 'base': 0, 'dtype': 'M8',
         'attrs': {'standard_name': 'time'}},
    ]
    return recipe


def apply_history(conv, built: G.Built, ops: list) -> list:
    """put the questions to the object; whatever they answer or raise is not C01's business (other properties
    look at it) - returns the (op, exception name) pairs of the ones that raised something other than the error
    their contract announces, for the input distribution"""
    import warnings
    raised = []
    for op in ops:
        def q(fn, expected=(), op=op):
            try:
                with warnings.catch_warnings():
                    warnings.simplefilter('ignore')
                    fn()
            except expected:
                pass
            except Exception as e:  # noqa: BLE001
                raised.append((op, type(e).__name__))
        q(lambda: HISTORY_OPS[op](conv, built, q))
    return raised
