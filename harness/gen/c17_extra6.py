"""
C17 — two input classes of "a dataset saved through the convention's save method".

1. **Variables of every rank, rank 0 included** (`random_selection`, `apply_levels`, `apply_select`).
   Model output is rarely saved whole: a user takes the surface layer, one snapshot, one ensemble member
   (`dataset.isel(k=0)`, `dataset.isel(time=3)`) and saves that.  Every coordinate of a selected dimension stays in
   the dataset as a variable WITHOUT dimensions; so do the dependent data variables along it.  The class generated
   here: a level variable (f8 / f4 / i4, as the index coordinate of its dimension, as a coordinate with another name
   or as a data variable; with or without a `_FillValue` of its own in the attributes or the encoding) on each of the
   non-grid dimensions `k`, `spare`; a selection of one index along a non-empty subset of {`time`, `k`, `spare`},
   applied in memory before the save or to the dataset opened from a file; and variables that never had a dimension
   (`scalars`: f8 / f4 / i4 / datetime64 / timedelta64, coordinate or data variable).
   The ground truth of everything is the recipe: the value of level `i` of a dimension is `level_value(dim, i)`, of a
   scalar `scalar_value(spec)`; whether the source had a `_FillValue` is the `fill` field.

2. **Histories of saves** (`random_history`, `play_history`).  A process saves many datasets, some of them with
   keyword arguments of `xarray.Dataset.to_netcdf` chosen for that one file (`encoding=` packing or compressing a
   variable, `format=`, `unlimited_dims=`, `engine=`, a call that fails).  A history is a list of such earlier calls
   - on datasets of any convention, through the bound convention object, the `.ems` accessor or
   `emsarray.utils.to_netcdf_with_fixes`, or on the very dataset that is judged afterwards - played before the
   judged PLAIN save.  What the earlier calls wrote is not judged (a packed file is lossy on request); the plain
   save after them is held against the whole property.

Everything is described by JSON-able dicts so that a failing round trip is replayed from its description alone.
"""
from __future__ import annotations

import random

import numpy as np

LEVEL_DIMS = ('k', 'spare')
LEVEL_DTYPES = ('f8', 'f8', 'f4', 'i4')
SCALAR_DTYPES = ('f8', 'f4', 'i4', 'M8', 'm8')
KIND_OF = {'f8': 'float', 'f4': 'float', 'i4': 'int', 'i8': 'int', 'u4': 'uint', 'M8': 'datetime', 'm8': 'timedelta',
           'i4fill': 'int', 'i4missing': 'int', 'i4fill0': 'int'}


# --------------------------------------------------------------------------
# 1. ranks

def level_value(dim: str, i: int) -> float:
    """value of level `i` of `dim`: a dyadic rational, exact in f4 and f8 (and an integer for `spare`)"""
    return -(0.5 + 1.25 * i) if dim == 'k' else float(10 + 3 * i)


def level_values(spec: dict, n: int) -> np.ndarray:
    vals = [level_value(spec['dim'], i) for i in range(n)]
    if spec['dtype'] == 'i4':
        return np.array([int(2 * v) for v in vals], dtype='i4')
    return np.array(vals, dtype=spec['dtype'])


def scalar_value(spec: dict):
    t = int(spec['tag'])
    if spec['dtype'] == 'M8':
        return np.datetime64('2000-01-01T00:00:00', 'ns') + np.timedelta64(t, 's')
    if spec['dtype'] == 'm8':
        return np.timedelta64(t, 's').astype('timedelta64[ns]')
    if spec['dtype'] == 'i4':
        return np.int32(t)
    return np.dtype(spec['dtype']).type(t + 0.25)


def random_selection(rng: random.Random, sizes_extra: dict, mode: str, first: bool = False) -> dict:
    """-> {'levels': [...], 'select': {dim: index}, 'when': 'before' | 'after', 'scalars': [...]}"""
    levels = []
    for dim in LEVEL_DIMS:
        if first and dim != 'k':
            continue
        if not first and rng.random() < 0.2:
            continue
        role = 'index' if first else rng.choice(['index', 'index', 'coord', 'var'])
        levels.append({
            'dim': dim, 'name': dim if role == 'index' else f'lev_{dim}', 'role': role,
            'dtype': 'f8' if first else rng.choice(LEVEL_DTYPES),
            'fill': None if first else rng.choice([None, None, None, 'attr', 'enc']),
        })
    dims = [lv['dim'] for lv in levels]
    if first:
        chosen = ['k']
    else:
        pool = dims + ['time']
        chosen = [d for d in pool if rng.random() < 0.55] or [rng.choice(pool)]
    select = {d: rng.randrange(int(sizes_extra.get(d, 1))) for d in chosen}
    scalars = []
    if not first:
        for n in range(rng.choice([0, 0, 1, 2])):
            dtype = rng.choice(SCALAR_DTYPES)
            if dtype == 'M8' and mode == 'file':
                # a datetime variable read from a file has CF time units in its encoding and would compete with
                # the time variable of the round trip for being THE time coordinate (that question is the
                # time-coordinate stream's); in memory it has none
                dtype = 'f8'
            scalars.append({'name': f'sc{n}', 'dtype': dtype, 'role': rng.choice(['coord', 'var']),
                            'tag': rng.randint(1, 900), 'fill': rng.choice([None, None, 'enc']) if dtype[0] == 'f' else None})
    return {'levels': levels, 'select': select, 'scalars': scalars,
            'when': 'after' if (mode == 'file' and not first and rng.random() < 0.5) else 'before'}


def _fill_of(dtype: str):
    return np.dtype('i4' if dtype == 'i4' else dtype).type(-99)


def apply_levels(ds, sel: dict, sizes_extra: dict):
    """the level variables and the scalars of the recipe, added to the generator's dataset"""
    import xarray as xr
    for lv in sel.get('levels', []):
        n = int(ds.sizes.get(lv['dim'], sizes_extra.get(lv['dim'], 1)))
        da = xr.DataArray(level_values(lv, n), dims=[lv['dim']], attrs={'long_name': f"level of {lv['dim']}"})
        if lv['fill'] == 'attr':
            da.attrs['_FillValue'] = _fill_of(lv['dtype'])
        elif lv['fill'] == 'enc':
            da.encoding['_FillValue'] = _fill_of(lv['dtype'])
        if lv['role'] == 'var':
            ds[lv['name']] = da
        else:
            ds = ds.assign_coords({lv['name']: da})
    for sc in sel.get('scalars', []):
        da = xr.DataArray(scalar_value(sc), dims=[], attrs={'long_name': 'a value without dimensions'})
        if sc.get('fill') == 'enc':
            da.encoding['_FillValue'] = _fill_of(sc['dtype'])
        if sc['role'] == 'var':
            ds[sc['name']] = da
        else:
            ds = ds.assign_coords({sc['name']: da})
    return ds


def apply_select(ds, sel: dict):
    return ds.isel({d: int(i) for d, i in sel.get('select', {}).items() if d in ds.dims})


def select_truth(dims: tuple, values: np.ndarray, sel: dict | None) -> tuple:
    """the generator's expected (dims, values) of a variable after the selection"""
    if not sel:
        return tuple(dims), values
    dims = list(dims)
    for d, i in sel.get('select', {}).items():
        if d in dims:
            ax = dims.index(d)
            values = np.take(values, int(i), axis=ax)
            dims.pop(ax)
    return tuple(dims), np.asarray(values)


def extras_truth(sel: dict, sizes: dict) -> list:
    """[(name, dims, values, source has _FillValue, memory kind)] of the level variables and scalars after the selection"""
    out = []
    for lv in sel.get('levels', []):
        n = int(sizes.get(lv['dim'], 1))
        dims, vals = select_truth((lv['dim'],), level_values(lv, n), sel)
        out.append((lv['name'], dims, vals, lv['fill'] is not None, KIND_OF[lv['dtype']], lv['fill']))
    for sc in sel.get('scalars', []):
        out.append((sc['name'], (), np.asarray(scalar_value(sc)), sc.get('fill') is not None, KIND_OF[sc['dtype']], sc.get('fill')))
    return out


def as_number(a) -> np.ndarray:
    a = np.asarray(a)
    if a.dtype.kind == 'M':
        return ((a.astype('datetime64[ns]') - np.datetime64('2000-01-01T00:00:00', 'ns')) / np.timedelta64(1, 's')).astype('f8')
    if a.dtype.kind == 'm':
        return (a.astype('timedelta64[ns]') / np.timedelta64(1, 's')).astype('f8')
    return a.astype('f8')


# --------------------------------------------------------------------------
# 2. histories

KWARG_CLASSES = ['pack', 'fillenc', 'compress', 'format', 'unlimited', 'engine', 'bad', 'plain']
FORMATS = ['NETCDF4_CLASSIC', 'NETCDF3_64BIT', 'NETCDF4']


def float_vars(recipe: dict) -> list:
    return [vr['name'] for vr in recipe.get('vars', []) if vr.get('dtype', 'f8') in ('f8', 'f4')]


def random_call(rng: random.Random, recipe: dict | None, judged: dict, cls: str | None = None) -> dict:
    """one earlier call. `recipe` None: on the dataset that is judged afterwards (`same`)"""
    cls = cls or rng.choice(KWARG_CLASSES)
    target_recipe = judged if recipe is None else recipe
    names = float_vars(target_recipe) or [vr['name'] for vr in target_recipe.get('vars', [])][:1]
    call = {'same': recipe is None, 'recipe': recipe, 'cls': cls,
            'via': rng.choice(['convention', 'convention', 'accessor', 'utils']) if recipe is not None else 'convention',
            'var': rng.choice(names) if names else None}
    if cls == 'format':
        call['format'] = rng.choice(FORMATS)
    return call


def call_kwargs(call: dict) -> dict:
    cls, var = call['cls'], call.get('var')
    if cls == 'pack' and var:
        return {'encoding': {var: {'dtype': 'int16', 'scale_factor': 0.5, 'add_offset': 1.0, '_FillValue': np.int16(-32768)}}}
    if cls == 'fillenc' and var:
        return {'encoding': {var: {'_FillValue': -1.0, 'dtype': 'float32'}}}
    if cls == 'compress' and var:
        return {'encoding': {var: {'zlib': True, 'complevel': 4}}}
    if cls == 'format':
        return {'format': call.get('format', 'NETCDF4_CLASSIC')}
    if cls == 'unlimited':
        return {'unlimited_dims': ['time']}
    if cls == 'engine':
        return {'engine': 'netcdf4', 'mode': 'w'}
    if cls == 'bad':
        return {'encoding': {'no_such_variable_in_any_dataset': {'dtype': 'int16', '_FillValue': np.int16(-1)}}}
    return {}


def random_history(rng: random.Random, judged_recipe: dict, make_recipe, first: bool = False) -> list:
    """`make_recipe(conv | None)` -> a recipe with tagged variables; the history, oldest call first"""
    if first:
        return [random_call(rng, make_recipe(judged_recipe['conv']), judged_recipe, cls='pack')]
    calls = []
    for _ in range(rng.choice([1, 1, 2, 3])):
        c = rng.random()
        if c < 0.25:
            calls.append(random_call(rng, None, judged_recipe))
        elif c < 0.6:
            calls.append(random_call(rng, make_recipe(judged_recipe['conv']), judged_recipe))
        else:
            calls.append(random_call(rng, make_recipe(None), judged_recipe))
    return calls


def history_dataset(recipe: dict):
    """the dataset of an earlier call: the recipe's dataset with a plain time coordinate"""
    import xarray as xr
    from harness.gen import datasets as G
    built = G.build(recipe)
    ds = built.ds
    nt = int(ds.sizes.get('time', recipe.get('sizes_extra', {}).get('time', 2)))
    tname = {'shoc_standard': 't'}.get(recipe['conv'], 'time')
    data = np.array([np.datetime64('2001-01-01T00:00:00', 's') + np.timedelta64(6 * k, 'h') for k in range(nt)])
    da = xr.DataArray(data, dims=['time'], attrs={'long_name': 'Time'})
    da.encoding.update({'units': 'hours since 1990-01-01 00:00:00 +10:00', 'calendar': 'proleptic_gregorian'})
    if tname == 'time':
        ds = ds.assign_coords({tname: da})
    else:
        ds[tname] = da
    built.ds = ds
    return built


def tagged_descs(built_vars: dict, sel: dict | None = None) -> list:
    """[(name, rank, kind, fill)] of the generator's tagged variables (after the selection, if any)"""
    out = []
    for name, info in built_vars.items():
        dims, _ = select_truth(info.dims, np.zeros(info.shape), sel)
        out.append((name, len(dims), KIND_OF.get(info.dtype, 'int'), 'attr' if info.dtype in ('i4fill', 'i4fill0') else None))
    return out


def var_token(name: str, rank: int, kind: str, fill, mode: str) -> str:
    """`name:rank:mem:disk:enc:attr` of the model's `savehist`: the variable as the save method sees it. A source in
    memory carries its fill value where the recipe put it; a source opened from a file carries it in the encoding
    (and xarray has decoded an integer variable that has one to floats)."""
    if mode == 'file':
        has = fill is not None
        mem = 'float' if (has and kind in ('int', 'uint')) else kind
        return f"{name}:{rank}:{mem}:{kind}:{'value' if has else 'absent'}:0"
    return f"{name}:{rank}:{kind}:{kind}:{'value' if fill == 'enc' else 'absent'}:{int(fill == 'attr')}"


def enc_token(call: dict, kind_of_var: dict) -> str:
    """`name:disk:slot,…` of the model's `savehist` for the `encoding=` of an earlier call"""
    enc = call_kwargs(call).get('encoding')
    if not enc:
        return '-'
    out = []
    for name, e in enc.items():
        dtype = e.get('dtype')
        disk = kind_of_var.get(name, 'float') if dtype is None else ('int' if str(dtype).startswith('int') else 'float')
        out.append(f"{name}:{disk}:{'value' if '_FillValue' in e else 'absent'}")
    return ','.join(out)


def play_history(history: list, tmp: str, same=None) -> list:
    """Plays the earlier calls (oldest first) on the real code. Returns per call {'outcome': 'ok' | the exception's
    name, 'fills': {variable: has _FillValue} of the file it wrote, 'vars': tagged_descs of its dataset (None for a
    call on the judged dataset)}: the calls are the history, not the judged input - what they wrote is compared with
    the model's reading of their `encoding=`, the property is not judged on them."""
    import os
    import netCDF4
    from harness.gen import datasets as G
    outcomes = []
    for n, call in enumerate(history):
        path = os.path.join(tmp, f'earlier{n}.nc')
        rec = {'outcome': None, 'fills': None, 'vars': None}
        outcomes.append(rec)
        try:
            kwargs = call_kwargs(call)
            if call.get('same'):
                if same is None:
                    rec['outcome'] = 'skipped'
                    continue
                same.to_netcdf(path, **kwargs)
            else:
                built = history_dataset(call['recipe'])
                rec['vars'] = tagged_descs(built.vars)
                if call['via'] == 'utils':
                    from emsarray.utils import to_netcdf_with_fixes
                    conv = G.bind(built)
                    to_netcdf_with_fixes(built.ds, path, time_variable=conv.time_coordinate, **kwargs)
                elif call['via'] == 'accessor':
                    G.bind(built)
                    built.ds.ems.to_netcdf(path, **kwargs)
                else:
                    G.bind(built).to_netcdf(path, **kwargs)
            with netCDF4.Dataset(path) as nc:
                rec['fills'] = {k: ('_FillValue' in v.ncattrs()) for k, v in nc.variables.items()}
            rec['outcome'] = 'ok'
        except Exception as e:   # noqa: BLE001 - the outcome of an earlier call is not judged
            rec['outcome'] = type(e).__name__
        finally:
            try:
                os.unlink(path)
            except OSError:
                pass
    return outcomes
