"""Further input classes for C20 (command line = library), sixth round.

* **where a point lies relative to the cells** — so far every hit was a point strictly inside one cell and every
  miss lay far away.  Here the generator's ground truth (the cell polygons, exact rationals) is used to place
  points *on* the geometry: a vertex of a cell, the extreme vertices of the whole model (least / greatest x or y),
  the middle of an edge that belongs to one cell only (the rim of the model, the rim of a gap), the middle of an
  edge two cells share, a point of the rim that lies on the model's bounding box, and points a small power of two
  inside / outside of all of these.  Whether such a point belongs to a cell is the library's business (C04); what
  this property says is that the command line does with the table exactly what the library call does.
* **clip regions whose sides coincide with cell edges** — a box with sides taken from the cells' own coordinates
  (no offset), the bounding box of the model itself, a box that shares only an edge or a corner with the model.
* **histories on a path** — the command line names files; the property speaks about what a file holds *when the
  command runs*.  A history is a sequence of uses of the same paths in one process (the way `emsarray.cli.main` is
  called from a script or a test suite) with the content changed in between: another geometry, an unreadable
  document, the file removed and created again, a directory in its place, a different path spelling of the same
  file, other files written next to it.

Everything is drawn from the `rng` handed in; nothing here reads emsarray.
"""
from __future__ import annotations

import json
import random
from fractions import Fraction

from harness.gen import c20_extra as GX


# ---------------------------------------------------------------------------
# points placed on the geometry

POINT_CLASSES = ['vertex', 'vertex-extreme', 'edge-rim', 'edge-shared', 'edge-on-extent', 'inside',
                 'hair-inside', 'hair-outside']


def _exact(v: Fraction):
    f = float(v)
    return f if Fraction(f) == v else None


def geometry_facts(polys) -> dict:
    """ground truth of a set of cell polygons: vertices, edges with the number of cells that have them, extent"""
    cells = [[(Fraction(x), Fraction(y)) for x, y in p] for p in polys if p]
    edges = {}
    for c in cells:
        for a, b in zip(c, c[1:] + c[:1]):
            if a != b:
                edges[frozenset((a, b))] = edges.get(frozenset((a, b)), 0) + 1
    verts = sorted({v for c in cells for v in c})
    xs = [v[0] for v in verts]
    ys = [v[1] for v in verts]
    return {'cells': cells, 'verts': verts, 'edges': edges, 'extent': (min(xs), min(ys), max(xs), max(ys))}


def on_extent(facts, p) -> bool:
    x0, y0, x1, y1 = facts['extent']
    return p[0] in (x0, x1) or p[1] in (y0, y1)


def placed_point(rng: random.Random, facts: dict, cls: str):
    """one point of the class, as (x, y) floats that are exactly the rational point meant, or None"""
    verts, edges, cells = facts['verts'], facts['edges'], facts['cells']
    x0, y0, x1, y1 = facts['extent']

    def mid(e):
        a, b = sorted(e)
        t = Fraction(rng.choice([1, 1, 1, 3]), rng.choice([2, 4]))
        t = t if t < 1 else Fraction(1, 2)
        return (a[0] + (b[0] - a[0]) * t, a[1] + (b[1] - a[1]) * t)
    p = None
    if cls == 'vertex':
        p = rng.choice(verts)
    elif cls == 'vertex-extreme':
        key = rng.choice([lambda v: v[0], lambda v: -v[0], lambda v: v[1], lambda v: -v[1]])
        best = min(key(v) for v in verts)
        p = rng.choice([v for v in verts if key(v) == best])
    elif cls in ('edge-rim', 'edge-shared', 'edge-on-extent'):
        if cls == 'edge-rim':
            pool = [e for e, n in edges.items() if n == 1]
        elif cls == 'edge-shared':
            pool = [e for e, n in edges.items() if n >= 2]
        else:
            pool = [e for e in edges
                    if any(all(v[0] == x for v in e) for x in (x0, x1)) or any(all(v[1] == y for v in e) for y in (y0, y1))]
        if pool:
            p = mid(rng.choice(sorted(pool, key=sorted)))
    elif cls == 'inside':
        c = rng.choice(cells)
        n = len(c)
        p = (sum(v[0] for v in c) / n, sum(v[1] for v in c) / n)
    elif cls in ('hair-inside', 'hair-outside'):
        # from a point of the rim, a small power of two towards / away from the middle of the model
        base = placed_point(rng, facts, rng.choice(['vertex-extreme', 'edge-rim', 'edge-on-extent']))
        if base is not None:
            bx, by = Fraction(base[0]), Fraction(base[1])
            eps = Fraction(1, 2 ** rng.randint(8, 30))
            cx, cy = (x0 + x1) / 2, (y0 + y1) / 2
            sx = (1 if cx > bx else -1 if cx < bx else 0) * (1 if cls == 'hair-inside' else -1)
            sy = (1 if cy > by else -1 if cy < by else 0) * (1 if cls == 'hair-inside' else -1)
            p = (bx + sx * eps, by + sy * eps)
    if p is None:
        return None
    fx, fy = _exact(Fraction(p[0])), _exact(Fraction(p[1]))
    if fx is None or fy is None:
        return None
    return fx, fy


def placed_points_table(rng: random.Random, polys, cols, n: int, n_far: int = 0, classes=None) -> tuple[dict, dict]:
    """a point table whose rows are placed on the geometry (one class per row, every class of `classes` tried at
    least once when n allows) plus `n_far` rows far outside; returns (table, how many rows of each class, and how
    many rows lie on the bounding box of the model)"""
    facts = geometry_facts(polys)
    classes = list(classes or POINT_CLASSES)
    order = classes[:]
    rng.shuffle(order)
    rows = []
    tries = 0
    while len(rows) < n and tries < 8 * n:
        cls = order[tries % len(order)] if tries < len(order) else rng.choice(classes)
        tries += 1
        p = placed_point(rng, facts, cls)
        if p is not None:
            rows.append((p[0], p[1], cls))
    x0, y0, x1, y1 = facts['extent']
    for _ in range(n_far):
        rows.append((float(x1) + rng.randint(5, 500) + 0.5, float(y0) - rng.randint(5, 500) - 0.25, 'far'))
    rng.shuffle(rows)
    stats = {}
    for x, y, cls in rows:
        stats[cls] = stats.get(cls, 0) + 1
        if on_extent(facts, (Fraction(x), Fraction(y))):
            stats['on-extent'] = stats.get('on-extent', 0) + 1
    table = {
        'name': [f'p{i}' for i in range(len(rows))],
        cols[0]: [r[0] for r in rows], cols[1]: [r[1] for r in rows],
        'extra': [i * 3 for i in range(len(rows))],
        'kind': [r[2] for r in rows],
    }
    return table, stats


# ---------------------------------------------------------------------------
# clip boxes whose sides are cell edges

def on_edge_box(rng: random.Random, polys, how: str | None = None):
    """[x0, y0, x1, y1] with sides on coordinates of the cells themselves.  `extent`: the bounding box of the model;
    `edges`: each side on some vertex coordinate; `touch`: a box outside the model that shares one side (or one
    corner) with its bounding box.  Returns (box, how) or (None, how)."""
    facts = geometry_facts(polys)
    x0, y0, x1, y1 = facts['extent']
    how = how or rng.choice(['extent', 'edges', 'edges', 'touch'])
    xs = sorted({v[0] for v in facts['verts']})
    ys = sorted({v[1] for v in facts['verts']})
    if how == 'extent':
        box = [x0, y0, x1, y1]
    elif how == 'edges':
        if len(xs) < 2 or len(ys) < 2:
            return None, how
        a, b = sorted(rng.sample(xs, 2))
        c, d = sorted(rng.sample(ys, 2))
        box = [a, c, b, d]
    else:
        w, h = rng.randint(1, 4), rng.randint(1, 4)
        side = rng.choice(['w', 'e', 's', 'n', 'corner'])
        if side == 'w':
            box = [x0 - w, y0, x0, y1]
        elif side == 'e':
            box = [x1, y0, x1 + w, y1]
        elif side == 's':
            box = [x0, y0 - h, x1, y0]
        elif side == 'n':
            box = [x0, y1, x1, y1 + h]
        else:
            box = [x1, y1, x1 + w, y1 + h]
    if not (box[0] < box[2] and box[1] < box[3]):
        return None, how
    out = [_exact(Fraction(v)) for v in box]
    if any(o is None for o in out):
        return None, how
    return out, how


# ---------------------------------------------------------------------------
# histories of a geometry file

HISTORY_NAMES = ['region.geojson', 'region.json', 'clip.geojson', 'areas/zone.v2.json', 'sp ace.geojson']
BROKEN_DOCUMENTS = ['nope', '', '{', '{"type": "Polygon"}', '{"not": "geojson"}', '[1, 2, 3, 4]', '{"type": "Nope", "coordinates": []}',
                    '{"type": "Polygon", "coordinates": [[[0, 0], [1, 1]', 'null']


def simple_region(rng: random.Random, k: int) -> dict:
    """a GeoJSON polygon; the k-th of a history differs from every other one (its first ordinate is k + a fraction)"""
    x = k * 16 + rng.randint(0, 7) + rng.choice([0, 0.25, 0.5, GX.fine_coord(rng, 'decimal') % 1])
    y = rng.randint(-60, 60) + rng.choice([0, 0.5, GX.fine_coord(rng, 'dyadic') % 1])
    w, h = rng.randint(1, 6), rng.randint(1, 6)
    ring = [[x, y], [x + w, y], [x + w, y + h], [x, y + h], [x, y]]
    if rng.random() < 0.3:
        ring.insert(2, [x + w + 0.5, y + h / 2])
    g = {'type': 'Polygon', 'coordinates': [ring]}
    if rng.random() < 0.15:
        g = {'type': 'Feature', 'properties': {'k': k}, 'geometry': g}
    return g


def spellings(rng: random.Random, name: str) -> list[str]:
    """ways to write the path of `name` relative to the scratch directory (which is the working directory)"""
    out = [name, './' + name]
    if '/' in name:
        head, _ = name.split('/', 1)
        out.append(f'{head}/../{name}')
    else:
        out.append(f'other/../{name}')
    return out


def geometry_file_history(rng: random.Random, n_steps: int | None = None) -> list[dict]:
    """steps `{'set': {path: text | None (a directory) | False (removed)}, 's': argument, 'path': path, 'name': final
    component, 'ver': {path: version number of the text}}`: the directory lives on from step to step, `set` is what
    changes before the argument is evaluated.  Every valid text of a history denotes another geometry."""
    name = rng.choice(HISTORY_NAMES)
    other = rng.choice([n for n in HISTORY_NAMES if n != name and n.split('/')[0] != name.split('/')[0]])
    n_steps = n_steps or rng.randint(3, 6)
    steps = []
    ver = 0
    state = 'absent'
    setup = {'other/keep.txt': 'x'}
    for i in range(n_steps):
        if i == 0:
            ev = rng.choice(['valid', 'valid', 'valid', 'broken', 'absent'])
        else:
            ev = rng.choice(['valid', 'valid', 'valid', 'valid', 'broken', 'remove', 'same', 'other', 'dir'])
        change = dict(setup) if i == 0 else {}
        vers = {}
        if ev == 'valid' or (ev == 'same' and state == 'absent'):
            ver += 1
            change[name] = GX.dump_json(rng, simple_region(rng, ver))
            vers[name] = ver
            state = 'valid'
        elif ev == 'broken':
            ver += 1
            change[name] = rng.choice(BROKEN_DOCUMENTS)
            vers[name] = ver
            state = 'broken'
        elif ev in ('remove', 'absent'):
            if state != 'absent':
                change[name] = False
            state = 'absent'
        elif ev == 'dir':
            if state != 'absent':
                change[name] = False
            steps.append({'set': dict(change), 's': name, 'path': name, 'name': name.rsplit('/', 1)[-1], 'ver': {}})
            change = {name: None}
            state = 'dir'
        elif ev == 'other':
            # another file is written; the one asked about stays as it is
            ver += 1
            change[other] = GX.dump_json(rng, simple_region(rng, ver))
            vers[other] = ver
        ask = name if rng.random() < 0.85 or ev != 'other' else other
        steps.append({'set': change, 's': rng.choice(spellings(rng, ask)), 'path': ask, 'name': ask.rsplit('/', 1)[-1],
                      'ver': vers})
        if state == 'dir':
            # a directory cannot be overwritten by a text: take it away again before the next step
            steps.append({'set': {name: False}, 's': name, 'path': name, 'name': name.rsplit('/', 1)[-1], 'ver': {}})
            state = 'absent'
    return steps
