"""
C03, further input classes: HOW the values of a variable are held, and WHICH variables one convention object has
already been asked about.

**Representations.**  "Values are only moved, never altered" is a statement about the values, whatever holds them.
A variable read from a classic (netCDF-3) file is big-endian, model time is `datetime64`, a spectrum is complex, a
packed field is `float16` / `int16`; the same numbers may sit in a column-major, strided or read-only buffer.  A
*storage* is `[type, byte order, layout]`; `hold(tags, storage)` puts integer tags into it, `tags_of(values)` reads
them back BY VALUE (never by reinterpreting bytes), so two arrays holding the same numbers in different byte orders
have the same tags.

**Histories of variables that look alike.**  `dataset.ems` is one object.  It is handed the dataset's own variable,
then the same variable with its dimensions in another order (`temp.transpose(...)`: same name; the same shape too
whenever two of its dimensions are equally long - a square grid, as many time steps as rows, as many records as mesh
faces), then an unrelated array that happens to carry that name and shape but lies on no grid.  What it answers for
each may depend on that array alone.  `plan(rng, conv, tier)` makes a dataset whose sizes COINCIDE and *families* of
such presentations; every member is described by a JSON spec, its expected outcome follows from the spec alone
(`expect_ravel`), and `member(built, spec)` makes the array - from the generated dataset (`source: dataset`, then
`.transpose`) or from scratch (`source: fresh`).
"""
from __future__ import annotations

import random
import sys

import numpy as np
import xarray as xr

from harness.gen import datasets as G

FOREIGN = '>' if sys.byteorder == 'little' else '<'
EPOCH = np.datetime64('2000-01-01T00:00:00', 'ns')

# tags stay below 2048, so every one of these types holds them exactly
TYPES = ['i2', 'i4', 'i8', 'u2', 'u4', 'f2', 'f4', 'f8', 'c8', 'c16', 'M8[ns]', 'm8[ns]']
ORDERS = ['native', 'foreign', 'foreign']
LAYOUTS = ['C', 'F', 'strided', 'readonly']
MAX_ELEMS = 400


def pick_storage(rng: random.Random) -> list:
    return [rng.choice(TYPES), rng.choice(ORDERS), rng.choice(LAYOUTS)]


def hold(tags: np.ndarray, storage: list) -> np.ndarray:
    """the integer `tags` (any shape) held as `storage` = [type, byte order, layout]"""
    typ, order, layout = storage
    tags = np.asarray(tags, dtype='i8')
    if typ.startswith('M8'):
        data = EPOCH + tags.astype('timedelta64[s]').astype('timedelta64[ns]')
    elif typ.startswith('m8'):
        data = tags.astype('timedelta64[s]').astype('timedelta64[ns]')
    else:
        data = tags.astype(typ)
    if order == 'foreign' and data.dtype.itemsize > 1:
        data = data.astype(data.dtype.newbyteorder(FOREIGN))      # converts BY VALUE: the same numbers, bytes swapped
    if layout == 'F':
        data = np.asfortranarray(data)
    elif layout == 'strided' and data.ndim >= 1:
        big = np.zeros(tuple(2 * k for k in data.shape), dtype=data.dtype)
        view = big[tuple(slice(None, None, 2) for _ in data.shape)]
        view[...] = data
        data = view
    elif layout == 'readonly':
        data = data.copy()
        data.setflags(write=False)
    return data


def tags_of(values) -> np.ndarray:
    """the integer tags an array holds, read by value; raises when it holds anything that is not a tag"""
    a = np.asarray(values)
    if a.dtype.kind == 'M':
        t = (a.astype('datetime64[ns]') - EPOCH) / np.timedelta64(1, 's')
    elif a.dtype.kind == 'm':
        t = a.astype('timedelta64[ns]') / np.timedelta64(1, 's')
    elif a.dtype.kind == 'c':
        if (a.imag != 0).any():
            raise ValueError('imaginary part')
        t = a.real
    elif a.dtype.kind in 'iuf':
        t = a
    else:
        raise ValueError(f'storage type {a.dtype}')
    t = np.asarray(t, dtype='f8')
    if t.size and (not np.isfinite(t).all() or (t != np.round(t)).any() or np.abs(t).max() >= 2 ** 52):
        raise ValueError('not integer tags')
    return t.astype('i8')


def kind_of_type(dtype) -> str:
    """storage type without its byte order (`>f8` and `<f8` hold the same values)"""
    d = np.dtype(dtype)
    return d.newbyteorder('=').str.lstrip('<>=|')


def arr_str(dims, tags: np.ndarray) -> str:
    tags = np.asarray(tags)
    ds = ','.join(f'{d}:{s}' for d, s in zip(dims, tags.shape)) or '-'
    return ds + '|' + (','.join(str(int(v)) for v in tags.reshape(-1)) or '-')


def da_str(da) -> str:
    """canonical form of what the implementation returned; `ODD…` when it holds something that is not a tag"""
    try:
        return arr_str(list(da.dims), tags_of(da.values))
    except Exception as e:  # noqa: BLE001
        try:
            head = np.asarray(da.values).reshape(-1)[:4].tolist()
        except Exception:  # noqa: BLE001
            head = '?'
        return f'ODD({type(e).__name__}:{e};dims={tuple(da.dims)};values={head}...)'.replace(' ', '')


# --------------------------------------------------------------------------
# datasets whose sizes coincide

def coincident_recipe(rng: random.Random, conv: str, tier: str) -> dict:
    """a recipe of `conv`; two times out of three a 2-D grid is SQUARE (both grid dimensions equally long)"""
    if conv == 'ugrid':
        return dict(G.random_recipe(rng, conv, tier, max_w=2, max_h=2))
    r = dict(G.random_recipe(rng, conv, tier, max_n=4, holes=False) if conv != 'cf1d' else G.random_recipe(rng, conv, tier, max_n=4))
    if rng.random() < 0.67:
        if conv == 'cf1d':
            n = max(2, min(len(r['lat']), len(r['lon'])))
            r['lat'] = G._axis(rng, n, True)
            r['lon'] = G._axis(rng, n, True)
        else:
            n = max(r['ny'], r['nx']) if rng.random() < 0.5 else max(2, min(r['ny'], r['nx']))
            r['ny'] = r['nx'] = n
            r.pop('holes', None)
            r.pop('masked_nodes', None)
            r.pop('twist', None)
    return r


EXTRA_NAMES = ['time', 'k', 'record', 'spare']
DS_TYPES = ['f8', 'f4', 'i4', 'i8', 'u4']      # what `datasets._add_vars` can store


def plan(rng: random.Random, conv: str, tier: str) -> tuple:
    """(recipe, families): a dataset whose extra dimensions are as long as grid dimensions (or as the whole grid),
    with one data variable per family, and the presentations of each family in the order in which they are used"""
    recipe = coincident_recipe(rng, conv, tier)
    probe = G.build(recipe)
    grids = {k: (list(d), list(s)) for k, (d, s) in probe.grids.items()}
    all_grid_dims = [d for gd, _ in grids.values() for d in gd]
    kinds = [k for k, (_, s) in grids.items() if 1 <= int(np.prod(s)) <= 40]
    if not kinds:
        kinds = [min(grids, key=lambda k: int(np.prod(grids[k][1])))]
    # lengths that occur among the grid dimensions: the extra dimensions take them
    grid_lengths = sorted({n for _, s in grids.values() for n in s})
    sizes_extra = {}
    for d in EXTRA_NAMES:
        sizes_extra[d] = rng.choice(grid_lengths) if rng.random() < 0.7 else rng.randint(1, 4)
    families, var_recipes, used = [], [], set()
    for f in range(2 if tier == 'quick' else 3):
        kind = rng.choice(kinds)
        gdims, gshape = grids[kind]
        gsize = int(np.prod(gshape))
        sz = dict(sizes_extra)
        sz.update(zip(gdims, gshape))
        extras = rng.sample(EXTRA_NAMES, rng.choice([0, 1, 1, 2, 2]))
        if extras and rng.random() < 0.6 and extras[0] not in used:
            # one of them as long as a grid dimension of THIS kind (the others were drawn from all kinds)
            sizes_extra[extras[0]] = sz[extras[0]] = rng.choice(gshape)
        used.update(extras)
        while extras and gsize * int(np.prod([sz[d] for d in extras])) > MAX_ELEMS:
            extras.pop()
        name = rng.choice(['temp', 'eta', 'u', f'var{f}']) + ('' if f == 0 else f'_{f}')
        stored = list(gdims) + extras
        order = list(range(len(stored)))
        rng.shuffle(order)
        base = rng.randint(0, 40) + 500 * f
        dtype = rng.choice(DS_TYPES)
        var_recipes.append({'name': name, 'kind': kind, 'extra': extras, 'base': base, 'dtype': dtype, 'order': order})
        stored = [stored[k] for k in order]
        fam = {'kind': kind, 'name': name, 'gdims': list(gdims), 'gshape': list(gshape), 'stored': stored,
               'sizes': {d: sz[d] for d in stored}, 'base': base, 'members': []}
        families.append(fam)
    recipe['vars'] = var_recipes
    recipe['sizes_extra'] = {d: sizes_extra[d] for d in EXTRA_NAMES}
    if rng.random() < 0.5:
        recipe['vary'] = {'byteorder': FOREIGN}       # the dataset's variables as a NetCDF-3 reader hands them out
    for fam in families:
        fam['members'] = family_members(rng, fam, all_grid_dims)
        fam['linear'] = wind_members(rng, fam)
    return recipe, families


def equal_length_shuffle(rng: random.Random, dims: list, sizes: dict) -> list:
    """another order of `dims` in which every position keeps its LENGTH (only equally long dimensions change places),
    so the shape is the same; `dims` itself when no two are equally long"""
    by_len: dict = {}
    for d in dims:
        by_len.setdefault(sizes[d], []).append(d)
    for _ in range(8):
        pools = {n: rng.sample(ds, len(ds)) for n, ds in by_len.items()}
        out = [pools[sizes[d]].pop() for d in dims]
        if out != dims:
            return out
    return list(dims)


def family_members(rng: random.Random, fam: dict, all_grid_dims: list) -> list:
    """the presentations of one variable, in the order in which the convention object sees them"""
    stored, sizes, gdims, name = fam['stored'], fam['sizes'], fam['gdims'], fam['name']
    n = int(np.prod([sizes[d] for d in stored])) if stored else 1
    members = []

    def add(how, dims, **kw):
        spec = {'how': how, 'name': name, 'dims': list(dims), 'sizes': [sizes.get(d, kw.get('sizes_of', {}).get(d)) for d in dims]}
        spec.update({k: v for k, v in kw.items() if k != 'sizes_of'})
        members.append(spec)

    first_from_ds = rng.random() < 0.7
    if first_from_ds:
        add('dataset-variable', stored, source='dataset')
    else:
        add('same-name', stored, source='fresh', base=rng.randint(0, 60), storage=pick_storage(rng))
    last = list(stored)
    for _ in range(rng.randint(2, 4)):
        c = rng.random()
        if c < 0.5:
            # the same name with the dimensions in another order - of the same shape whenever lengths coincide
            dims = equal_length_shuffle(rng, last, sizes) if rng.random() < 0.7 else rng.sample(stored, len(stored))
            if rng.random() < 0.6:
                add('transposed', dims, source='dataset')
            else:
                add('same-name', dims, source='fresh', base=rng.randint(0, 60), storage=pick_storage(rng))
            last = dims
        elif c < 0.7:
            # carries the name and the shape of the last one, but some of its dimensions are not the grid's
            swap = rng.sample(gdims, rng.randint(1, len(gdims)))
            ren = {d: f'{"ab"[k % 2]}{k}_' for k, d in enumerate(swap)}
            dims = [ren.get(d, d) for d in last]
            add('same-name-no-grid', dims, source='fresh', base=rng.randint(0, 60), storage=pick_storage(rng),
                sizes_of={ren[d]: sizes[d] for d in swap})
        elif c < 0.85:
            # another variable (another name, or none) of the same dimensions and shape as the last one
            add('other-name', last, source='fresh', base=rng.randint(0, 60), storage=pick_storage(rng),
                name=rng.choice([None, name + '_b']))
        else:
            # the dataset's variable again, as it is stored
            add('dataset-variable', stored, source='dataset')
            last = list(stored)
    for m in members:
        m['lin'] = rng.choice([None, None, None, 'cells'])
        m['wmode'] = rng.choice(['default', 'axis', 'naxis', 'name'])
    return members


# --------------------------------------------------------------------------
# ground truth of one member (from the spec and the family alone)

def truth(fam: dict, spec: dict) -> np.ndarray:
    """the tags the member holds, in the order of ITS dimensions"""
    if spec['source'] == 'dataset':
        stored = fam['stored']
        shape = [fam['sizes'][d] for d in stored]
        t = (np.arange(int(np.prod(shape)) if shape else 1) + fam['base']).reshape(shape)
        return t.transpose([stored.index(d) for d in spec['dims']])
    shape = spec['sizes']
    return (np.arange(int(np.prod(shape)) if shape else 1) + spec['base']).reshape(shape)


def member(built, fam: dict, spec: dict) -> xr.DataArray:
    if spec['source'] == 'dataset':
        return built.ds[spec['name']].transpose(*spec['dims'])
    return xr.DataArray(hold(truth(fam, spec), spec['storage']), dims=list(spec['dims']), name=spec['name'])


def expect_ravel(fam: dict, spec: dict) -> tuple | None:
    """None when the member is on no grid (it must be refused); else (others, linear name, tags of the flattened
    variable with shape others + [grid size], tags of the round trip with dims others + grid dimensions)"""
    gdims = fam['gdims']
    dims = spec['dims']
    if not all(d in dims for d in gdims):
        return None
    others = [d for d in dims if d not in gdims]
    t = truth(fam, spec).transpose([dims.index(d) for d in others + gdims])
    lin = spec.get('lin')
    if lin is None:
        lin, k = 'index', 0
        while lin in dims:
            lin, k = f'index_{k}', k + 1
    flat = t.reshape([t.shape[i] for i in range(len(others))] + [-1])
    return others, lin, flat, t


# --------------------------------------------------------------------------
# linear data that look alike (the other direction: wind, then ravel)

def wind_members(rng: random.Random, fam: dict) -> list:
    """linear data carrying one name: the linear dimension next to an accompanying dimension that is AS LONG AS THE
    GRID HAS CELLS, then the two the other way round (same name, same shape), wound by name or by axis"""
    gsize = int(np.prod(fam['gshape']))
    if not 1 <= gsize <= 16:
        return []
    lname = rng.choice(['cells', 'index', fam['gdims'][0]])
    twin = rng.choice(['time', 'record'])
    third = rng.choice([None, None, 'k'])
    sizes = {lname: gsize, twin: gsize if rng.random() < 0.8 else rng.randint(1, 3), 'k': rng.randint(1, 2)}
    dims = [lname, twin] + ([third] if third else [])
    rng.shuffle(dims)
    name = rng.choice([fam['name'], fam['name'] + '_flat'])
    out = []
    for k in range(rng.randint(2, 3)):
        if k:
            dims = equal_length_shuffle(rng, dims, sizes) if rng.random() < 0.8 else rng.sample(dims, len(dims))
        pos = dims.index(lname)
        mode = rng.choice(['name', 'axis', 'naxis'] + (['default'] if pos == len(dims) - 1 else []))
        out.append({'how': 'linear', 'name': name if rng.random() < 0.85 else None, 'dims': list(dims),
                    'sizes': [sizes[d] for d in dims], 'base': rng.randint(0, 60), 'storage': pick_storage(rng),
                    'lname': lname, 'mode': mode})
    return out


def wind_kwargs(spec: dict) -> dict:
    pos = spec['dims'].index(spec['lname'])
    return {'name': {'linear_dimension': spec['lname']}, 'axis': {'axis': pos}, 'naxis': {'axis': pos - len(spec['dims'])},
            'default': {}}[spec['mode']]


def linear_member(spec: dict) -> xr.DataArray:
    shape = spec['sizes']
    t = (np.arange(int(np.prod(shape))) + spec['base']).reshape(shape)
    return xr.DataArray(hold(t, spec['storage']), dims=list(spec['dims']), name=spec['name'])


def expect_wind(fam: dict, spec: dict) -> tuple:
    """(dims of the wound array, its tags; dims of the array flattened again, its tags)"""
    dims, shape = spec['dims'], spec['sizes']
    t = (np.arange(int(np.prod(shape))) + spec['base']).reshape(shape)
    pos = dims.index(spec['lname'])
    wdims = dims[:pos] + fam['gdims'] + dims[pos + 1:]
    wound = t.reshape(shape[:pos] + fam['gshape'] + shape[pos + 1:])
    rest = dims[:pos] + dims[pos + 1:]
    back = t.transpose([dims.index(d) for d in rest + [spec['lname']]])
    return wdims, wound, rest + [spec['lname']], back


def rewind_kwargs(spec: dict, flat_dims, kind_obj, kind_is_default: bool) -> dict:
    """how the flattened member is wound back (`wmode` of the spec)"""
    mode = spec.get('wmode', 'default')
    kw = {} if (mode == 'default' and kind_is_default) else {'grid_kind': kind_obj}
    if mode == 'axis':
        kw['axis'] = len(flat_dims) - 1
    elif mode == 'naxis':
        kw['axis'] = -1
    elif mode == 'name':
        kw['linear_dimension'] = flat_dims[-1]
    return kw


def play(built, c, fam: dict, members: list) -> list:
    """replay: every member of the history through ONE convention object; per member (canonical result of the first
    call, canonical result of the second): ravel then wind, or - linear data - wind then ravel"""
    kind_obj = {getattr(k, 'value', k): k for k in c.grid_kinds}[fam['kind']]
    out = []
    for spec in members:
        if spec['how'] == 'linear':
            x = linear_member(spec)
            try:
                wound = c.wind(x, grid_kind=kind_obj, **wind_kwargs(spec))
                ws = da_str(wound)
            except Exception as e:  # noqa: BLE001
                out.append((f'ERR({type(e).__name__})', '-'))
                continue
            try:
                bs = da_str(c.ravel(wound, linear_dimension=spec['lname']))
            except Exception as e:  # noqa: BLE001
                bs = f'ERR({type(e).__name__})'
            out.append((ws, bs))
            continue
        da = member(built, fam, spec)
        try:
            flat = c.ravel(da) if spec.get('lin') is None else c.ravel(da, linear_dimension=spec['lin'])
            fs = da_str(flat)
        except Exception as e:  # noqa: BLE001
            out.append((f'ERR({type(e).__name__})', '-'))
            continue
        try:
            ws = da_str(c.wind(flat, **rewind_kwargs(spec, list(flat.dims), kind_obj, fam['kind'] == built.default_kind)))
        except Exception as e:  # noqa: BLE001
            ws = f'ERR({type(e).__name__})'
        out.append((fs, ws))
    return out


def expected_strings(fam: dict, spec: dict) -> tuple:
    if spec['how'] == 'linear':
        wdims, wound, bdims, back = expect_wind(fam, spec)
        return arr_str(wdims, wound), arr_str(bdims, back)
    exp = expect_ravel(fam, spec)
    if exp is None:
        return 'refused (the variable is on no grid)', '-'
    others, lin, flat, t = exp
    return arr_str(others + [lin], flat), arr_str(others + fam['gdims'], t)


def replay_history(inp: dict) -> dict:
    """a recorded history: all of it through one convention object, and its last member through a fresh one"""
    fam, members = inp['family'], inp['history']
    built = G.build(inp['recipe'])
    res = play(built, G.bind(built), fam, members)
    built2 = G.build(inp['recipe'])
    fresh = play(built2, G.bind(built2), fam, members[-1:])
    exp = expected_strings(fam, members[-1])
    return {
        'history': ' -> '.join(f"{m['how']}{tuple(m['dims'])}" for m in members)[:400],
        'last_member_after_the_history': ' ; '.join(res[-1])[:400],
        'last_member_on_a_fresh_object': ' ; '.join(fresh[-1])[:400],
        'expected': ' ; '.join(exp)[:400],
        'verdict': 'as expected' if tuple(res[-1]) == tuple(exp) or (exp[1] == '-' and res[-1][0].startswith('ERR')) else 'VIOLATES the property',
    }
