"""
Two further input dimensions of C14 (triangulation), both absent from the small integer meshes of
`harness.gen.tri`:

EXTENT — the same cells under a similarity  q -> origin + 2**exp * q  (exact in binary floating point):
    meshes whose cells are 2**-40 .. 2**-8 units across (a high resolution mesh in degrees, a mesh in
    kilometres / normalised units) or 2**8 .. 2**20 units across (metres in a projected CRS), and cells
    of large extent with a SHALLOW reflex corner (the notch is a 1e-3 .. 1e-8 part of the cell).
    Whether a cell is convex, and which triangles partition it, does not depend on the unit of the
    coordinates; an implementation that decides either with an absolute or relative tolerance does.

SIZE — datasets with 2**15 .. 2**17 (thorough: 2**18) cells of one number of sides: a CF grid of
    some 200 x 200 cells, an unstructured mesh of some 10**5 triangles and quadrilaterals in shuffled
    order with a few concave cells among them.  Built with numpy from a compact recipe; judged by
    `judge_big`, the clauses of C14 stated with exact int64 arithmetic on the lattice the generator
    used (every coordinate of the dataset is  origin + 2**exp * integer).

Nothing here reads anything back from emsarray: the ground truth is the expansion of the recipe.
"""
from __future__ import annotations

import random
from fractions import Fraction

import numpy as np

from harness.gen import datasets as G
from harness.gen import tri as T

F = Fraction

# ---------------------------------------------------------------------------
# EXTENT

#: exponent classes; a run walks through them so that every class occurs in every run
EXTENT_CLASSES = ['tiny', 'small', 'notch', 'tiny', 'large', 'small']


def random_similarity(rng: random.Random, cls: str) -> dict:
    """exponent and integer origin of q -> origin + 2**exp * q"""
    if cls == 'tiny':
        exp = rng.randint(-40, -24)
    elif cls == 'small':
        exp = rng.randint(-23, -8)
    elif cls == 'large':
        exp = rng.randint(8, 20)
    else:               # 'notch': the cells are large already
        exp = 0
    origin = [rng.choice([0, 0, rng.randint(-180, 180)]), rng.choice([0, rng.randint(-80, 80)])]
    return {'exp': exp, 'origin': origin, 'class': cls}


def notch_poly(rng: random.Random):
    """A convex polygon 2**8 .. 2**24 units across whose one edge is pushed inward by 1 .. 3 units at its
    midpoint: concave, with  area(hull) - area(cell)  a 1e-3 .. 1e-8 part of the area of the cell."""
    for _ in range(200):
        k = rng.randint(8, 21)
        base = [(x << k, y << k) for x, y in T.convex_poly(rng, rng.randint(3, 6), span=rng.choice([3, 6]))]
        n = len(base)
        i = rng.randrange(n)
        a, b = base[i], base[(i + 1) % n]
        mid = ((a[0] + b[0]) // 2, (a[1] + b[1]) // 2)
        d = (rng.randint(-3, 3), rng.randint(-3, 3))
        m = (mid[0] + d[0], mid[1] + d[1])
        s = 1 if T.area2(base) > 0 else -1
        if s * T.cross(a, b, m) <= 0:
            continue        # not on the inner side of the edge
        p = base[:i + 1] + [m] + base[i + 1:]
        if T.is_simple(p) and T.classify(p) == 'concave':
            if rng.random() < 0.5:
                p = p[::-1]
            r = rng.randrange(len(p))
            return p[r:] + p[:r], 'gen:shallow-notch'
    return T.random_valid(rng, 8)


def extent_polys(rng: random.Random, cls: str, n: int) -> tuple[list, list]:
    """n valid cells for one mesh of the class: concave shapes preferred (they are where the two
    triangulation paths differ), every start vertex / winding equally likely"""
    polys, labels = [], []
    names = [k for k, v in T.TEMPLATES.items() if len(v) <= 8]
    while len(polys) < n:
        c = rng.random()
        if cls == 'notch' and c < 0.7:
            p, kind = notch_poly(rng)
        elif c < 0.35:
            name = rng.choice(names)
            p = T.transform(rng, T.TEMPLATES[name], scale_ok=False)
            if rng.random() < 0.5:
                p = p[::-1]
            r = rng.randrange(len(p))
            p, kind = p[r:] + p[:r], f'template:{name}'
        else:
            p, kind = T.random_valid(rng, 8)
        if not T.is_simple(p):
            continue
        polys.append(p)
        labels.append(f'extent:{cls}:{kind}')
    return polys, labels


def scale_value(n: int, exp: int, o: int) -> float:
    """origin + 2**exp * n as a float, checked to be exact"""
    exact = F(o) + F(n) * (F(2) ** exp)
    v = float(exact)
    if F(v) != exact:
        raise ValueError(f'{o} + {n} * 2**{exp} is not a binary float')
    return v


def extent_recipe(polys: list, sim: dict, rng: random.Random | None = None) -> dict:
    """UGRID recipe (plain `build_ugrid` recipe, replayable through `G.build`) of the integer cells `polys`
    packed as disjoint faces, every node mapped through the similarity"""
    r = T.pack(polys, rng)
    exp, (ox, oy) = sim['exp'], sim['origin']
    r['nodes'] = [[scale_value(x, exp, ox), scale_value(y, exp, oy)] for x, y in r['nodes']]
    r['extent'] = dict(sim)
    return r


# ---------------------------------------------------------------------------
# SIZE: compact recipes, expanded with numpy

def random_big_size(rng: random.Random, thorough: bool = False) -> int:
    """number of cells of one kind, log-uniform over 2**15 .. 2**17 (thorough: 2**18), never a power of two"""
    hi = 18 if thorough else 17
    n = int(2 ** rng.uniform(15.02, hi))
    return n + 1 if n & (n - 1) == 0 else n


def random_big_recipe(rng: random.Random, kind: str, thorough: bool = False, n_cells: int | None = None) -> dict:
    n = n_cells or random_big_size(rng, thorough)
    sim = random_similarity(rng, rng.choice(['unit', 'unit', 'tiny', 'small']))
    if sim['class'] == 'unit':
        sim['exp'] = 0
    if kind == 'cf1d':
        # ny * nx >= n with a random aspect ratio
        ny = max(2, int((n * rng.uniform(0.5, 2.0)) ** 0.5))
        nx = -(-n // ny)
        return {'conv': 'big-cf1d', 'ny': ny, 'nx': nx, 'descending': [rng.random() < 0.3, rng.random() < 0.3],
                'exp': sim['exp'], 'origin': sim['origin']}
    # tiles: a quadrilateral, or two triangles, per tile; the expected number of quadrilaterals is n and
    # there are more triangles than that
    share = rng.uniform(0.35, 0.5)
    tiles = int(n / share) + 1
    w = max(2, int((tiles * rng.uniform(0.5, 2.0)) ** 0.5))
    h = -(-tiles // w)
    return {'conv': 'big-tiles', 'w': w, 'h': h, 'quad_share': round(share, 3), 'darts': rng.randint(4, 12),
            'seed': rng.randrange(2 ** 31), 'start_index': rng.choice([0, 1]), 'fill': rng.choice(['nan', 'attr']),
            'exp': sim['exp'], 'origin': sim['origin']}


class BigBuilt:
    """ground truth of a big dataset on the integer lattice:  coordinate = origin + 2**exp * integer"""

    def __init__(self, recipe, ds, ncell, groups, slow):
        self.recipe = recipe
        self.ds = ds
        self.ncell = ncell
        #: convex cells by number of sides: {n: (cell indexes (m,), lattice vertices (m, n, 2) int64)}
        self.groups = groups
        #: concave cells: {cell index: [(x, y) lattice integers]} — judged one by one
        self.slow = slow
        self.exp = recipe['exp']
        self.origin = tuple(recipe['origin'])

    def to_float(self, ints: np.ndarray) -> np.ndarray:
        out = np.asarray(ints, dtype='f8') * (2.0 ** self.exp)
        out[..., 0] += self.origin[0]
        out[..., 1] += self.origin[1]
        return out

    def cell_lattice(self, k: int):
        """lattice vertex list of cell k"""
        if k in self.slow:
            return list(self.slow[k])
        for n, (idx, verts) in self.groups.items():
            pos = np.flatnonzero(idx == k)
            if len(pos):
                return [tuple(int(c) for c in v) for v in verts[pos[0]]]
        return None

    def cell_exact(self, k: int):
        """vertex list of cell k in the coordinates of the dataset, as Fractions"""
        p = self.cell_lattice(k)
        if p is None:
            return None
        s = F(2) ** self.exp
        return [(F(self.origin[0]) + s * x, F(self.origin[1]) + s * y) for x, y in p]


def _axis_ints(n: int, descending: bool) -> np.ndarray:
    vals = 2 * np.arange(n, dtype='i8') + 2        # centres at even lattice points: the derived bounds are the odd ones
    return vals[::-1].copy() if descending else vals


def build_big(recipe: dict) -> BigBuilt:
    import xarray as xr
    exp, (ox, oy) = recipe['exp'], recipe['origin']
    for o in (ox, oy):
        scale_value(2 ** 13, exp, o)        # exactness of every coordinate that follows (lattice values stay below 2**13)
    if recipe['conv'] == 'big-cf1d':
        ny, nx = recipe['ny'], recipe['nx']
        lat_i = _axis_ints(ny, recipe['descending'][0])
        lon_i = _axis_ints(nx, recipe['descending'][1])
        lat = lat_i * (2.0 ** exp) + oy
        lon = lon_i * (2.0 ** exp) + ox
        ds = xr.Dataset(attrs={'Conventions': 'CF-1.4'})
        ds = ds.assign_coords(
            lat=xr.DataArray(lat, dims=['lat'], attrs={'standard_name': 'latitude', 'units': 'degrees_north'}),
            lon=xr.DataArray(lon, dims=['lon'], attrs={'standard_name': 'longitude', 'units': 'degrees_east'}))
        ds['eta'] = (('lat', 'lon'), np.zeros((ny, nx)))
        # derived bounds: half a step to either side, in the direction of the axis (as G._mid_bounds)
        sy = -1 if recipe['descending'][0] else 1
        sx = -1 if recipe['descending'][1] else 1
        y0, y1 = np.repeat(lat_i - sy, nx), np.repeat(lat_i + sy, nx)
        x0, x1 = np.tile(lon_i - sx, ny), np.tile(lon_i + sx, ny)
        verts = np.stack([np.stack([x0, y0], 1), np.stack([x1, y0], 1), np.stack([x1, y1], 1), np.stack([x0, y1], 1)], 1)
        return BigBuilt(recipe, ds, ny * nx, {4: (np.arange(ny * nx), verts.astype('i8'))}, {})
    if recipe['conv'] != 'big-tiles':
        raise ValueError(recipe['conv'])
    w, h = recipe['w'], recipe['h']
    rs = np.random.RandomState(recipe['seed'])
    ntile = w * h
    tj, ti = np.divmod(np.arange(ntile), w)
    nid = lambda j, i: j * (w + 1) + i      # noqa: E731
    a, b, c, d = nid(tj, ti), nid(tj, ti + 1), nid(tj + 1, ti + 1), nid(tj + 1, ti)
    jj, ii = np.divmod(np.arange((w + 1) * (h + 1)), w + 1)
    node_xy = np.stack([4 * ii, 4 * jj], 1).astype('i8')
    kind = (rs.rand(ntile) >= recipe['quad_share']).astype('i8')        # 0 quadrilateral, 1 two triangles
    darts = rs.choice(ntile, size=min(recipe['darts'], ntile), replace=False)
    kind[darts] = 2                                                     # a concave dart and a convex kite
    # an interior node at corner + (1, 1) for every dart tile
    m_xy = np.stack([4 * ti[darts] + 1, 4 * tj[darts] + 1], 1)
    m_id = len(node_xy) + np.arange(len(darts))
    node_xy = np.concatenate([node_xy, m_xy])
    corners = np.stack([a, b, c, d], 1)
    faces = []      # (node ids (m, n))
    q = corners[kind == 0]
    faces.append(q)
    t = corners[kind == 1]
    diag = rs.rand(len(t)) < 0.5
    faces.append(np.where(diag[:, None], t[:, [0, 1, 2]], t[:, [0, 1, 3]]))
    faces.append(np.where(diag[:, None], t[:, [0, 2, 3]], t[:, [1, 2, 3]]))
    dc = corners[darts]
    faces.append(np.stack([dc[:, 0], dc[:, 1], m_id, dc[:, 3]], 1))          # dart: reflex at the interior node
    faces.append(np.stack([dc[:, 1], dc[:, 2], dc[:, 3], m_id], 1))          # kite
    concave_rows = np.zeros(sum(len(f) for f in faces), dtype=bool)
    start = len(faces[0]) + len(faces[1]) + len(faces[2])
    concave_rows[start:start + len(darts)] = True
    # every face starts at a random vertex and is wound either way
    table = np.full((len(concave_rows), 4), -1, dtype='i8')
    row = 0
    for f in faces:
        n = f.shape[1]
        rot = rs.randint(0, n, size=len(f))
        flip = rs.rand(len(f)) < 0.5
        cols = (rot[:, None] + np.where(flip[:, None], -1, 1) * np.arange(n)[None, :]) % n
        table[row:row + len(f), :n] = np.take_along_axis(f, cols, axis=1)
        row += len(f)
    perm = rs.permutation(len(table))       # cells of one number of sides are NOT stored next to each other
    table = table[perm]
    concave_rows = concave_rows[perm]
    nface = len(table)
    nsides = (table >= 0).sum(1)
    base = recipe['start_index']
    if recipe['fill'] == 'nan':
        data = np.where(table >= 0, table + base, np.nan).astype('f8')
        attrs = {}
    else:
        data = np.where(table >= 0, table + base, 999999).astype('i4')
        attrs = {'_FillValue': np.int32(999999)}
    ds = xr.Dataset(attrs={'Conventions': 'UGRID-1.0'})
    node_f = node_xy.astype('f8') * (2.0 ** exp)
    ds['Mesh2_node_x'] = xr.DataArray(node_f[:, 0] + ox, dims=['nMesh2_node'], attrs={'standard_name': 'longitude'})
    ds['Mesh2_node_y'] = xr.DataArray(node_f[:, 1] + oy, dims=['nMesh2_node'], attrs={'standard_name': 'latitude'})
    ds['Mesh2_face_nodes'] = xr.DataArray(data, dims=['nMesh2_face', 'nMaxMesh2_face_nodes'],
                                          attrs=dict(attrs, cf_role='face_node_connectivity', start_index=base))
    ds['Mesh2'] = xr.DataArray(np.int32(0), attrs={
        'cf_role': 'mesh_topology', 'topology_dimension': 2, 'node_coordinates': 'Mesh2_node_x Mesh2_node_y',
        'face_node_connectivity': 'Mesh2_face_nodes', 'face_dimension': 'nMesh2_face'})
    groups = {}
    for n in (3, 4):
        idx = np.flatnonzero((nsides == n) & ~concave_rows)
        groups[n] = (idx, node_xy[table[idx, :n]])
    slow = {int(k): [tuple(int(v) for v in node_xy[i]) for i in table[k, :nsides[k]]] for k in np.flatnonzero(concave_rows)}
    return BigBuilt(recipe, ds, nface, groups, slow)


def big_truth_matches(big: BigBuilt, polygons) -> bool:
    """ground truth == what the convention hands to triangulate_dataset (C06 is about that)"""
    import shapely
    polygons = np.asarray(polygons, dtype=object)
    if len(polygons) != big.ncell or any(p is None for p in polygons[:1]):
        return False
    counts = shapely.get_num_coordinates(polygons)
    coords = shapely.get_coordinates(polygons)
    starts = np.concatenate([[0], np.cumsum(counts)[:-1]])
    seen = np.zeros(big.ncell, dtype=bool)
    for n, (idx, verts) in big.groups.items():
        if not np.all(counts[idx] == n + 1):
            return False
        got = coords[starts[idx][:, None] + np.arange(n)[None, :]]
        if not np.array_equal(got, big.to_float(verts)):
            return False
        seen[idx] = True
    for k, p in big.slow.items():
        want = big.to_float(np.array(p, dtype='i8'))
        if counts[k] != len(p) + 1 or not np.array_equal(coords[starts[k]:starts[k] + len(p)], want):
            return False
        seen[k] = True
    return bool(seen.all())


# ---------------------------------------------------------------------------
# the clauses of C14 on a big result, exact int64 arithmetic on the generator's lattice

def _cross(o, a, b):
    return (a[..., 0] - o[..., 0]) * (b[..., 1] - o[..., 1]) - (a[..., 1] - o[..., 1]) * (b[..., 0] - o[..., 0])


def _fmt(big: BigBuilt, pts) -> str:
    s = F(2) ** big.exp
    return '[' + ' '.join(f'({F(big.origin[0]) + s * int(x)}, {F(big.origin[1]) + s * int(y)})' for x, y in pts) + ']'


def judge_big(big: BigBuilt, res, slow_oracle=None) -> list:
    """-> [(signature, cell | None, message)], the signatures of `harness.props.c14.oracle`"""
    out = []
    v, t, f = (np.asarray(x) for x in res)
    if v.ndim != 2 or v.shape[1] != 2 or t.ndim != 2 or t.shape[1] != 3 or f.ndim != 1:
        return [('malformed-result', None, f'shapes {v.shape}, {t.shape}, {f.shape}')]
    # --- vertex table, brought back to the lattice (exact: every true coordinate is origin + 2**exp * integer)
    lat = (v.astype('f8') - np.array(big.origin, dtype='f8')) / (2.0 ** big.exp)
    on_lattice = np.isfinite(lat).all(1) & (lat == np.rint(lat)).all(1) & (np.abs(lat) < 2 ** 30).all(1)
    vi = np.where(on_lattice[:, None], np.rint(np.where(np.isfinite(lat), lat, 0)), 0).astype('i8')
    key = lambda a: (a[..., 0] + 2 ** 31) * 2 ** 32 + (a[..., 1] + 2 ** 31)     # noqa: E731
    vkeys = key(vi[on_lattice])
    if len(np.unique(v, axis=0)) != len(v):
        uniq, cnt = np.unique(v, axis=0, return_counts=True)
        out.append(('vertex-duplicates', None, f'vertex table of {len(v)} rows holds duplicates, e.g. {uniq[cnt > 1][:3].tolist()}'))
    want = np.unique(np.concatenate(
        [key(verts.reshape(-1, 2)) for _, verts in big.groups.values()]
        + [key(np.array(p, dtype='i8')) for p in big.slow.values()]))
    have = np.unique(vkeys)
    foreign = int((~on_lattice).sum()) + int((~np.isin(have, want)).sum())
    lacking = int((~np.isin(want, have)).sum())
    if foreign or lacking:
        out.append(('vertex-table-content', None, f'vertex table has {foreign} foreign and lacks {lacking} cell coordinates'))
    if len(t) != len(f):
        out.append(('length-mismatch', None, f'{len(t)} triangles but {len(f)} cell indexes'))
        return out
    # --- every triangle: valid vertex indexes, a cell of the dataset
    tf = t.astype('f8')
    t_ok = np.isfinite(tf).all(1) & (tf == np.rint(tf)).all(1) & (tf >= 0).all(1) & (tf < len(v)).all(1)
    if not t_ok.all():
        k = int(np.flatnonzero(~t_ok)[0])
        out.append(('vertex-index-invalid', None, f'triangle {k} has vertex indexes {tf[k].tolist()} for a table of {len(v)}'))
    ff = f.astype('f8')
    f_ok = np.isfinite(ff) & (ff == np.rint(ff)) & (ff >= 0) & (ff < big.ncell)
    if not f_ok.all():
        k = int(np.flatnonzero(~f_ok)[0])
        out.append(('cell-index-range', None, f'triangle {k} names cell {ff[k]} of {big.ncell}'))
    ti = np.where(t_ok[:, None], tf, 0).astype('i8')
    fi = np.where(f_ok, ff, 0).astype('i8')
    # a triangle on a foreign vertex is reported above; it takes no part in the geometric clauses below
    ok = t_ok & f_ok & (on_lattice[ti].all(1) if len(v) else False)
    rows = np.flatnonzero(ok)
    tri = vi[ti[rows]]                  # (m, 3, 2) lattice coordinates
    cell = fi[rows]
    # --- count
    nsides = np.zeros(big.ncell, dtype='i8')
    where = np.zeros(big.ncell, dtype='i8')
    for n, (idx, _) in big.groups.items():
        nsides[idx] = n
        where[idx] = np.arange(len(idx))
    for k, p in big.slow.items():
        nsides[k] = len(p)
    count = np.bincount(fi[f_ok], minlength=big.ncell)
    bad = np.flatnonzero(count != nsides - 2)
    count_ok = np.ones(big.ncell, dtype=bool)
    count_ok[bad] = False
    if len(bad):
        k = int(bad[0])
        out.append(('count', k, f'cell {k} with {nsides[k]} sides has {count[k]} triangles ({len(bad)} such cells)'))
    # --- areas: the sum of |doubled triangle area| per cell against the |doubled shoelace area| of the cell
    a2 = _cross(tri[:, 0], tri[:, 1], tri[:, 2])
    total = np.zeros(big.ncell, dtype='i8')
    np.add.at(total, cell, np.abs(a2))
    cell_a2 = np.zeros(big.ncell, dtype='i8')
    sign = np.zeros(big.ncell, dtype='i8')
    for n, (idx, verts) in big.groups.items():
        s = sum(verts[:, k, 0] * verts[:, (k + 1) % n, 1] - verts[:, (k + 1) % n, 0] * verts[:, k, 1] for k in range(n))
        cell_a2[idx] = np.abs(s)
        sign[idx] = np.sign(s)
    for k, p in big.slow.items():
        cell_a2[k] = abs(T.area2(p))
    # only cells all of whose triangles could be read take part (the others are reported above)
    readable = count_ok.copy()
    readable[fi[f_ok & ~ok]] = False
    bad = np.flatnonzero(readable & (total != cell_a2))
    if len(bad):
        k = int(bad[0])
        unit = (F(2) ** big.exp) ** 2 / 2
        out.append(('area-sum', k, f'cell {k} = {_fmt(big, big.cell_lattice(k))}: triangle areas sum to {int(total[k]) * unit}, '
                                   f'cell area is {int(cell_a2[k]) * unit} ({len(bad)} such cells)'))
    # --- inside (convex cells): every triangle vertex satisfies every edge half-plane of the cell it names
    for n, (idx, verts) in big.groups.items():
        sel = np.flatnonzero(nsides[cell] == n)
        sel = sel[~np.isin(cell[sel], list(big.slow))] if big.slow else sel
        if not len(sel):
            continue
        pv = verts[where[cell[sel]]]            # (m, n, 2)
        sg = sign[cell[sel]]
        inside = np.ones(len(sel), dtype=bool)
        for k in range(n):
            e0, e1 = pv[:, k], pv[:, (k + 1) % n]
            for j in range(3):
                inside &= sg * _cross(e0, e1, tri[sel, j]) >= 0
        if not inside.all():
            r = int(sel[np.flatnonzero(~inside)[0]])
            k = int(cell[r])
            out.append(('outside', k, f'cell {k} = {_fmt(big, big.cell_lattice(k))}: triangle {_fmt(big, tri[r])} is not inside the cell '
                                      f'({int((~inside).sum())} such triangles of {n}-sided cells)'))
        # --- overlap: two triangles of one cell with a common interior point (no separating edge)
        if n < 4:
            continue
        good = readable.copy()
        good[list(big.slow)] = False
        sel = np.flatnonzero((nsides[cell] == n) & good[cell])
        order = sel[np.argsort(cell[sel], kind='stable')]
        tt = tri[order].reshape(-1, n - 2, 3, 2)
        cc = cell[order].reshape(-1, n - 2)[:, 0]
        for i in range(n - 2):
            for j in range(i + 1, n - 2):
                over = _overlap(tt[:, i], tt[:, j])
                if over.any():
                    r = int(np.flatnonzero(over)[0])
                    k = int(cc[r])
                    out.append(('overlap', k, f'cell {k} = {_fmt(big, big.cell_lattice(k))}: triangles {_fmt(big, tt[r, i])} and '
                                              f'{_fmt(big, tt[r, j])} overlap ({int(over.sum())} such pairs)'))
    # --- the few concave cells, one by one, through the per-cell oracle of the check
    if slow_oracle is not None:
        for k in big.slow:
            mine = np.flatnonzero(t_ok & f_ok & (fi == k))
            used, inv = np.unique(ti[mine].ravel(), return_inverse=True)
            sub = (v[used], inv.reshape(-1, 3), np.zeros(len(mine), dtype='i8'))
            for sig, _k, msg in slow_oracle([big.cell_exact(k)], sub):
                if sig not in ('vertex-duplicates', 'vertex-table-content'):
                    out.append((sig, k, f'cell {k} (concave): {msg}'))
    return out


def _overlap(ta: np.ndarray, tb: np.ndarray) -> np.ndarray:
    """(m, 3, 2) x (m, 3, 2) -> the two triangles share an interior point (both of non-zero area and
    no edge of either has the other triangle on its outer side or on its line)"""
    sa = _cross(ta[:, 0], ta[:, 1], ta[:, 2])
    sb = _cross(tb[:, 0], tb[:, 1], tb[:, 2])
    separated = np.zeros(len(ta), dtype=bool)
    for p, sp, q in ((ta, sa, tb), (tb, sb, ta)):
        s = np.sign(sp)
        for k in range(3):
            e0, e1 = p[:, k], p[:, (k + 1) % 3]
            outer = np.ones(len(ta), dtype=bool)
            for j in range(3):
                outer &= s * _cross(e0, e1, q[:, j]) <= 0
            separated |= outer
    return (sa != 0) & (sb != 0) & ~separated


def window_cells(big: BigBuilt, start: int, n: int) -> list:
    """cells start .. start+n-1 as exact vertex lists"""
    return [big.cell_exact(k) for k in range(start, min(start + n, big.ncell))]


def window_result(res, start: int, n: int):
    """the part of a result that names cells start .. start+n-1, cells renumbered from 0, or None where
    it cannot be read (the direct oracle reports that)"""
    v, t, f = (np.asarray(x) for x in res)
    try:
        mine = np.flatnonzero((f >= start) & (f < start + n))
        used, inv = np.unique(t[mine].astype('i8').ravel(), return_inverse=True)
        return v[used], inv.reshape(-1, 3), f[mine].astype('i8') - start
    except Exception:  # noqa
        return None
