"""
UGRID specific generators and describers for property C10.

* `mesh_pool(rng, tier)`       structured meshes (lattice cut-outs, tiny special cases)
* `variant(recipe, **kw)`      dataset variants that `datasets.build_ugrid` does not offer:
                               netCDF round trip (integer `_FillValue` ends up in `.encoding`,
                               values are float with NaN), edge dimension declared but absent,
                               malformed inputs (incl. single cells of a supplied table overwritten)
* `describe(ds)`               the `topo` protocol line of a dataset: everything
                               `Mesh2DTopology` can look at, taken from the dataset handed to
                               emsarray (never from emsarray itself)
"""
from __future__ import annotations

import copy
import os
import random
import tempfile
from fractions import Fraction

import numpy as np
import xarray as xr

from harness.gen import datasets as G

TABLES = ['edge_node', 'face_edge', 'edge_face', 'face_face']
VARNAME = {'edge_node': 'Mesh2_edge_nodes', 'face_edge': 'Mesh2_face_edges',
           'edge_face': 'Mesh2_edge_faces', 'face_face': 'Mesh2_face_links'}


# --------------------------------------------------------------------------
# meshes

def special_meshes() -> list:
    """tiny hand-made meshes: a single triangle / quad, two faces, uniform quads, a fan of
    triangles round an interior node, an octagon with a square neighbour"""
    out = []
    out.append({'name': 'one-triangle', 'nodes': [[0, 0], [2, 0], [0, 2]], 'faces': [[0, 1, 2]]})
    out.append({'name': 'one-quad', 'nodes': [[0, 0], [2, 0], [2, 2], [0, 2]], 'faces': [[3, 0, 1, 2]]})
    out.append({'name': 'two-quads', 'nodes': [[0, 0], [2, 0], [2, 2], [0, 2], [4, 0], [4, 2]],
                'faces': [[0, 1, 2, 3], [5, 2, 1, 4]]})
    # 3x2 uniform quads (no fill value needed), clockwise and anticlockwise mixed
    nodes = [[2 * i, 2 * j] for j in range(3) for i in range(4)]
    faces = []
    for j in range(2):
        for i in range(3):
            a = j * 4 + i
            q = [a, a + 1, a + 5, a + 4]
            faces.append(q if (i + j) % 2 == 0 else [q[1], q[0], q[3], q[2]])
    out.append({'name': 'uniform-quads', 'nodes': nodes, 'faces': faces})
    # fan of 5 triangles round node 0 (interior node, every spoke an interior edge)
    ring = [[4, 0], [1, 4], [-3, 2], [-3, -3], [2, -4]]
    # (node 6 belongs to no face)
    out.append({'name': 'fan', 'nodes': [[0, 0]] + ring + [[9, 9]],
                'faces': [[0, 1 + k, 1 + (k + 1) % 5] for k in range(5)]})
    # a closed surface (tetrahedron laid flat): every edge has two faces, so even the edge-face
    # table needs no fill value
    out.append({'name': 'tetrahedron', 'nodes': [[0, 0], [4, 0], [0, 4], [1, 1]],
                'faces': [[0, 1, 2], [0, 3, 1], [1, 3, 2], [2, 3, 0]]})
    # a ring of four quads round a hole
    sq = [[0, 0], [6, 0], [6, 6], [0, 6], [2, 2], [4, 2], [4, 4], [2, 4]]
    out.append({'name': 'ring', 'nodes': sq,
                'faces': [[0, 1, 5, 4], [1, 2, 6, 5], [6, 2, 3, 7], [4, 7, 3, 0]]})
    # octagon + square sharing one edge + triangle on another edge
    octo = [[2, 0], [4, 0], [6, 2], [6, 4], [4, 6], [2, 6], [0, 4], [0, 2]]
    out.append({'name': 'octagon', 'nodes': octo + [[8, 2], [8, 4], [3, -2]],
                'faces': [[0, 1, 2, 3, 4, 5, 6, 7], [2, 8, 9, 3], [1, 0, 10]]})
    return out


def mesh_pool(rng: random.Random, tier: str, n_random: int) -> list:
    """special meshes + random lattice cut-outs (<= 12 faces quick, <= 40 thorough)"""
    limit = 40 if tier == 'thorough' else 12
    pool = special_meshes()
    tries = 0
    while len([m for m in pool if m['name'].startswith('lattice')]) < n_random and tries < 200:
        tries += 1
        w, h = (rng.randint(1, 5), rng.randint(1, 4)) if tier == 'thorough' else (rng.randint(1, 3), rng.randint(1, 3))
        shear = None
        if rng.random() < 0.5:
            while True:
                shear = [rng.randint(-2, 2) for _ in range(4)]
                if shear[0] * shear[3] - shear[1] * shear[2] != 0:
                    break
        m = G.gen_mesh(rng, w, h, shear=shear)
        if 2 <= len(m['faces']) <= limit:
            m['name'] = f'lattice-{w}x{h}-{len(m["faces"])}f'
            pool.append(m)
    return pool


def shuffled_edges(rng: random.Random, faces: list) -> list:
    """an edge numbering for the supplied tables that differs from first-seen order, with
    either orientation of each pair"""
    edges = G.mesh_edges(faces)
    rng.shuffle(edges)
    return [list(e) if rng.random() < 0.5 else [e[1], e[0]] for e in edges]


# --------------------------------------------------------------------------
# dataset variants

def _conn_names(ds: xr.Dataset) -> list:
    return [n for n, v in ds.variables.items() if str(v.attrs.get('cf_role', '')).endswith('_connectivity')]


def netcdf_roundtrip(ds: xr.Dataset) -> xr.Dataset:
    """Write to netCDF with the integer `_FillValue` of every connectivity variable moved to
    `.encoding`, and read back: the tables come back as float64 with NaN, the fill value lives
    in `.encoding`."""
    ds = ds.copy(deep=True)
    for name in _conn_names(ds):
        v = ds[name]
        if '_FillValue' in v.attrs:
            fill = v.attrs.pop('_FillValue')
            v.encoding['_FillValue'] = fill
            v.encoding['dtype'] = 'int32'
        else:
            v.encoding['_FillValue'] = None
    for name in ds.variables:
        if name not in _conn_names(ds):
            ds[name].encoding['_FillValue'] = None
    with tempfile.TemporaryDirectory(prefix='verif_c10_') as tmp:
        path = os.path.join(tmp, 'mesh.nc')
        ds.to_netcdf(path)
        with xr.open_dataset(path) as back:
            back.load()
            out = back.copy(deep=True)
            for name in back.variables:
                out[name].encoding = dict(back[name].encoding)
    return out


def build(recipe: dict) -> G.Built:
    """`datasets.build` plus the C10 variants listed in `recipe['c10']`"""
    built = G.build(recipe)
    opt = recipe.get('c10', {})
    ds = built.ds
    mesh = ds['Mesh2']
    names = built.extra['names']
    if built.extra['fill'] == 'none':
        # "no fill value needed" can only be true of the face tables of a uniform mesh: the edge-face
        # and face-face tables of a mesh with a boundary always have missing entries
        for name in ('Mesh2_edge_faces', 'Mesh2_face_links'):
            if name in ds.variables:
                ds[name].attrs['_FillValue'] = np.int32(999999)
    if opt.get('drop_edge_id') and 'edge_id' in ds.variables:
        ds = ds.drop_vars('edge_id')
    for key, value in opt.get('set_start_index', {}).items():
        # key: variable name, value: the attribute (None = delete)
        kind, val = value
        if kind == 'del':
            ds[key].attrs.pop('start_index', None)
        else:
            ds[key].attrs['start_index'] = {'int': int, 'str': str, 'float': float, 'none': lambda v: None,
                                            'list': lambda v: [v], 'bool': bool}[kind](val)
    for key in opt.get('rename_second_dim', []):
        v = ds[VARNAME[key]]
        second = [d for d in v.dims if d not in (names['face_dim'], names['edge_dim'])][0]
        ds[VARNAME[key]] = v.rename({second: 'other_' + second})
    for key, edits in opt.get('corrupt', {}).items():
        # single cells of a supplied table overwritten: [row, column, value | None (missing)] in terms of the
        # normalised table (primary dimension first, zero-based); the table no longer describes the mesh
        v = ds[VARNAME[key]]
        data = v.values.copy()
        flipped = v.dims[0] not in (names['face_dim'], names['edge_dim'])
        start = int(v.attrs.get('start_index', 0))
        for r, c, val in edits:
            idx = (c, r) if flipped else (r, c)
            if val is None:
                data[idx] = np.nan if np.issubdtype(data.dtype, np.floating) else v.attrs['_FillValue']
            else:
                data[idx] = val + start
        attrs, enc = dict(v.attrs), dict(v.encoding)
        ds[VARNAME[key]] = (v.dims, data)
        ds[VARNAME[key]].attrs, ds[VARNAME[key]].encoding = attrs, enc
    for key in opt.get('dangling_attr', []):
        ds['Mesh2'].attrs[key + '_connectivity'] = 'no_such_variable'
    if 'enc_fill' in opt:
        for key, fill in opt['enc_fill'].items():
            ds[VARNAME[key]].encoding['_FillValue'] = fill
    if opt.get('drop_mesh_attr'):
        for key in opt['drop_mesh_attr']:
            ds['Mesh2'].attrs.pop(key, None)
    if opt.get('int_dtype'):
        for name in _conn_names(ds):
            if np.issubdtype(ds[name].dtype, np.integer):
                attrs, enc = dict(ds[name].attrs), dict(ds[name].encoding)
                ds[name] = ds[name].astype(opt['int_dtype'])
                ds[name].attrs, ds[name].encoding = attrs, enc
    if opt.get('netcdf'):
        ds = netcdf_roundtrip(ds)
    if opt.get('extra_dim_first'):
        # a size-2 dimension that precedes every other dimension of the dataset
        name, size = opt['extra_dim_first']
        first = xr.Dataset({'aaa_first': xr.DataArray(np.arange(size, dtype='f8'), dims=[name])})
        merged = first.merge(ds)
        merged.attrs = dict(ds.attrs)
        for n in ds.variables:
            merged[n].encoding = dict(ds[n].encoding)
        ds = merged
    built.ds = ds
    return built


# --------------------------------------------------------------------------
# describing a dataset for the model

def _attr_token(attrs: dict) -> str:
    if 'start_index' not in attrs:
        return '-'
    v = attrs['start_index']
    if isinstance(v, (bool, np.bool_)):
        return f'i{int(v)}'
    if isinstance(v, (int, np.integer)):
        return f'i{int(v)}'
    if isinstance(v, str) and v and all(c.isalnum() or c in '_.' for c in v):
        return f's{v}'
    return 'o'


def _cell(v) -> str:
    if isinstance(v, (float, np.floating)):
        if np.isnan(v):
            return '-'
        if v != int(v):
            raise ValueError(f'non-integral connectivity value {v}')
    return str(int(v))


def rows_token(rows) -> str:
    rows = list(rows)
    if not rows:
        return 'e'
    return ';'.join(','.join(_cell(v) for v in row) for row in rows)


def _rat(v) -> str:
    f = Fraction(float(v))
    return str(f.numerator) if f.denominator == 1 else f'{f.numerator}/{f.denominator}'


def describe(ds: xr.Dataset, numbering=None) -> str:
    """The `topo` line: mesh attributes, sizes, every variable, the proposed edge numbering."""
    mesh = next(v for v in ds.data_vars.values() if v.attrs.get('cf_role') == 'mesh_topology')
    attrs = ';'.join(f"{k}:{str(v).replace(' ', '+')}" for k, v in mesh.attrs.items() if isinstance(v, str))
    sizes = ','.join(f'{k}:{int(n)}' for k, n in ds.sizes.items())
    toks = [f'A={attrs or "-"}', f'S={sizes or "-"}']
    for name, var in ds.variables.items():
        cd = 'c' if name in ds.coords else 'd'
        dims = ','.join(map(str, var.dims))
        encfill = var.encoding.get('_FillValue')
        if encfill is None or (isinstance(encfill, (float, np.floating)) and np.isnan(encfill)):
            enc = '-'
        else:
            enc = str(int(encfill))
        values = var.values
        is_conn = str(var.attrs.get('cf_role', '')).endswith('_connectivity') and values.ndim == 2
        if is_conn:
            if np.issubdtype(values.dtype, np.integer):
                fill = var.attrs.get('_FillValue')
                payload = f"I:{rows_token(values)}:{'-' if fill is None else int(fill)}"
            else:
                payload = f'F:{rows_token(values)}'
        elif values.ndim == 1 and np.issubdtype(values.dtype, np.number) and not np.isnan(values.astype('f8')).any():
            payload = 'C:' + ','.join(_rat(v) for v in values)
        else:
            payload = 'X'
        toks.append(f'V={name}~{cd}~{dims}~{payload}~{_attr_token(var.attrs)}~{enc}')
    if numbering is None:
        toks.append('N=-')
    elif len(numbering) == 0:
        toks.append('N=e')
    else:
        toks.append('N=' + ','.join(f'{int(a)}.{int(b)}' for a, b in numbering))
    return 'topo ' + ' '.join(toks)
