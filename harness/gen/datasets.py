"""
Recipe based dataset generators for every emsarray convention.

A *recipe* is a JSON-serialisable dict that deterministically builds a dataset
(`build(recipe)`), so that any disagreement can be replayed exactly.
`random_recipe(rng, conv, tier)` draws a structured, mostly valid recipe.

The `Built` object carries the *ground truth* the generator knows by construction
(grid shapes, cell polygons, centres, variable layout); nothing in it is read back
from emsarray.  All coordinates are small integers or dyadic rationals so that every
float operation on the modelled code paths is exact.
"""
from __future__ import annotations

import itertools
import random
from dataclasses import dataclass, field
from fractions import Fraction
from typing import Any

import numpy as np
import xarray as xr

CONVS = ['cf1d', 'cf2d', 'shoc_simple', 'shoc_standard', 'ugrid']

F = Fraction


@dataclass
class VarInfo:
    name: str
    kind: str | None          # grid kind, or None for a variable on no grid
    dims: tuple               # dimension names in stored order
    shape: tuple
    base: int                 # tag base: value at C-order position p is base + p
    dtype: str                # 'f8' | 'i4' | 'i4fill' | 'i4missing' | 'i4fill0'
    nan: tuple = ()           # flat positions holding a missing value


@dataclass
class Built:
    recipe: dict
    ds: xr.Dataset
    conv: str
    grids: dict               # kind -> (dims tuple, shape tuple), declaration order
    default_kind: str
    polys: list               # per linear face index: list of (x, y) Fractions, or None
    centres: list             # per linear face index: (x, y) Fractions or None (unknown)
    vars: dict = field(default_factory=dict)   # name -> VarInfo
    extra: dict = field(default_factory=dict)  # convention specific ground truth

    @property
    def conv_class(self):
        import emsarray.conventions as c
        return {
            'cf1d': c.grid.CFGrid1D, 'cf2d': c.grid.CFGrid2D,
            'shoc_simple': c.shoc.ShocSimple, 'shoc_standard': c.shoc.ShocStandard,
            'ugrid': c.ugrid.UGrid,
        }[self.conv]

    def grids_spec(self) -> str:
        """`face=3x5,left=3x6` for the line protocol"""
        return ','.join(
            f"{k}={'x'.join(map(str, shape))}" for k, (_, shape) in self.grids.items())


# --------------------------------------------------------------------------
# data variables

INT_FILL = {'i4fill': -999, 'i4missing': -999, 'i4fill0': 0}
# storage types of the tagged data variables (values are small integers, exact in every one of them)
FLOAT_DTYPES = {'f8': 'f8', 'f4': 'f4'}
INT_DTYPES = {'i4': 'i4', 'i8': 'i8', 'u4': 'u4'}
DEFAULT_DTYPES = ('f8', 'f8', 'f4', 'i4', 'i8', 'u4')


def _add_vars(ds: xr.Dataset, built_grids: dict, var_recipes: list, sizes_extra: dict) -> dict:
    infos = {}
    for vr in var_recipes:
        name = vr['name']
        kind = vr.get('kind')
        gdims = list(built_grids[kind][0]) if kind is not None else []
        gshape = list(built_grids[kind][1]) if kind is not None else []
        dims = gdims + list(vr.get('extra', []))
        size_of = dict(zip(gdims, gshape))
        size_of.update(sizes_extra)
        order = vr.get('order')
        if order is not None:
            dims = [dims[k] for k in order]
        shape = tuple(size_of[d] for d in dims)
        n = int(np.prod(shape)) if shape else 1
        base = vr['base']
        dtype = vr.get('dtype', 'f8')
        attrs = {}
        nan = tuple(p for p in vr.get('nan', ()) if p < n)
        if dtype in ('M8', 'm8'):
            # instants / durations: the tag, in seconds (since 2000-01-01); NaT where a float would hold NaN
            secs = (np.arange(n, dtype='i8') + base).astype('timedelta64[s]').astype('timedelta64[ns]')
            data = (np.datetime64('2000-01-01T00:00:00', 'ns') + secs) if dtype == 'M8' else secs
            data = data.reshape(shape)
            if nan:
                flat = data.reshape(-1)
                flat[list(nan)] = np.datetime64('NaT') if dtype == 'M8' else np.timedelta64('NaT')
        elif dtype in FLOAT_DTYPES:
            data = (np.arange(n, dtype='f8') + base).astype(FLOAT_DTYPES[dtype]).reshape(shape)
            if nan:
                flat = data.reshape(-1)
                flat[list(nan)] = np.nan
        else:
            data = (np.arange(n, dtype='i8') + base).astype(INT_DTYPES.get(dtype, 'i4')).reshape(shape)
            if dtype == 'i4fill':
                attrs['_FillValue'] = np.int32(-999)
            elif dtype == 'i4fill0':
                attrs['_FillValue'] = np.int32(0)      # a fill value that is falsy
            elif dtype == 'i4missing':
                attrs['missing_value'] = np.int32(-999)
            if nan and dtype in INT_FILL:
                flat = data.reshape(-1)
                flat[list(nan)] = INT_FILL[dtype]
            else:
                nan = ()
        attrs.update(vr.get('attrs', {}))
        ds[name] = xr.DataArray(data, dims=dims, attrs=attrs)
        infos[name] = VarInfo(name, kind, tuple(dims), shape, base, dtype, nan)
    return infos


def random_vars(rng: random.Random, kinds: list, n_vars: int = 3, max_extra: int = 2,
                dtypes=DEFAULT_DTYPES, with_nan: bool = False, nogrid: bool = True) -> tuple[list, dict]:
    """Variable recipes: each on a random kind, 0..max_extra extra dims, random dim order."""
    extra_pool = [('time', rng.randint(1, 3)), ('k', rng.randint(1, 3)), ('spare', rng.randint(1, 2))]
    sizes_extra = dict(extra_pool)
    out = []
    base = 1000
    for v in range(n_vars):
        kind = rng.choice(kinds)
        ne = rng.randint(0, max_extra)
        extra = [d for d, _ in rng.sample(extra_pool, ne)]
        out.append({'name': f'v{v}_{kind}', 'kind': kind, 'extra': extra, 'base': base,
                    'dtype': rng.choice(dtypes)})
        base += 100000
    if nogrid:
        out.append({'name': 'nogrid', 'kind': None, 'extra': ['time'], 'base': base, 'dtype': 'f8'})
    for vr in out:
        nd = len(vr['extra']) + (0 if vr['kind'] is None else 99)
        vr['_nd_hint'] = nd
    return out, sizes_extra


def finalize_var_orders(rng: random.Random, var_recipes: list, grids: dict, permute: bool = True,
                        with_nan: bool = False) -> None:
    for vr in var_recipes:
        vr.pop('_nd_hint', None)
        kind = vr.get('kind')
        nd = len(vr.get('extra', [])) + (len(grids[kind][0]) if kind is not None else 0)
        if permute and nd > 1:
            order = list(range(nd))
            rng.shuffle(order)
            vr['order'] = order
        if with_nan and (vr.get('dtype', 'f8') in FLOAT_DTYPES or vr.get('dtype') in INT_FILL or vr.get('dtype') in ('M8', 'm8')):
            vr['nan'] = sorted(rng.sample(range(40), rng.randint(0, 4)))


# --------------------------------------------------------------------------
# CF 1-D

def _mid_bounds(vals: list) -> list:
    """the bounds emsarray derives for a 1-D axis without stored bounds"""
    vals = [F(v) for v in vals]
    first_gap = vals[1] - vals[0]
    last_gap = vals[-1] - vals[-2]
    mids = [vals[0] - first_gap / 2] + [(a + b) / 2 for a, b in zip(vals[1:], vals[:-1])] \
        + [vals[-1] + last_gap / 2]
    return [(mids[k], mids[k + 1]) for k in range(len(vals))]


def build_cf1d(r: dict) -> Built:
    lat, lon = r['lat'], r['lon']
    ydim, xdim = r.get('ydim', 'lat'), r.get('xdim', 'lon')
    latname, lonname = r.get('latname', ydim), r.get('lonname', xdim)
    ny, nx = len(lat), len(lon)
    coords_as = r.get('coords_as', 'coords')
    bounds = r.get('bounds', 'none')
    lat_attrs = dict(r.get('lat_attrs', {'standard_name': 'latitude', 'units': 'degrees_north'}))
    lon_attrs = dict(r.get('lon_attrs', {'standard_name': 'longitude', 'units': 'degrees_east'}))
    if bounds != 'none':
        lat_attrs['bounds'] = latname + '_bnds'
        lon_attrs['bounds'] = lonname + '_bnds'
        if bounds == 'contig':
            latb, lonb = _mid_bounds(lat), _mid_bounds(lon)
        elif bounds == 'overlap':
            # every cell reaches three quarters of the minimum gap to either side: neighbouring cells overlap
            # (valid CF; a point on a cell's edge then lies inside its neighbour)
            def widen(vals):
                vals = [F(v) for v in vals]
                gap = min(abs(b - a) for a, b in zip(vals, vals[1:]))
                s = 1 if vals[1] > vals[0] else -1
                return [(v - s * gap * 3 / 4, v + s * gap * 3 / 4) for v in vals]
            latb, lonb = widen(lat), widen(lon)
        else:  # 'gaps': each cell shrunk by a quarter of the minimum gap on both sides
            def shrink(vals):
                vals = [F(v) for v in vals]
                gap = min(abs(b - a) for a, b in zip(vals, vals[1:]))
                s = 1 if vals[1] > vals[0] else -1
                return [(v - s * gap / 4, v + s * gap / 4) for v in vals]
            latb, lonb = shrink(lat), shrink(lon)
    else:
        latb, lonb = _mid_bounds(lat), _mid_bounds(lon)
    ds = xr.Dataset(attrs=dict(r.get('attrs', {'Conventions': 'CF-1.4'})))

    # storage type of each axis (coordinate and its stored bounds alike): 'f8' unless the recipe says otherwise;
    # an integer or float32 type is used only when every value it has to hold is exact in it
    def _axis_dtype(want, vals, bnds):
        allv = [F(v) for v in vals] + ([F(x) for ab in bnds for x in ab] if bounds != 'none' else [])
        if want in ('i4', 'i2', 'i8') and all(v.denominator == 1 for v in allv):
            return want
        if want == 'f4' and all(F(float(np.float32(float(v)))) == v for v in allv):
            return want
        return 'f8'
    lat_dtype = _axis_dtype(r.get('lat_dtype', 'f8'), lat, latb)
    lon_dtype = _axis_dtype(r.get('lon_dtype', 'f8'), lon, lonb)
    lat_da = xr.DataArray(np.array([float(v) for v in lat]).astype(lat_dtype), dims=[ydim], attrs=lat_attrs)
    lon_da = xr.DataArray(np.array([float(v) for v in lon]).astype(lon_dtype), dims=[xdim], attrs=lon_attrs)
    def _put_lat(ds):
        if coords_as == 'coords' or latname == ydim:
            return ds.assign_coords({latname: lat_da})
        ds[latname] = lat_da
        return ds

    def _put_lon(ds):
        if coords_as == 'coords' or lonname == xdim:
            return ds.assign_coords({lonname: lon_da})
        ds[lonname] = lon_da
        return ds
    # 'lon_first': the dataset declares its x dimension before its y dimension (dataset.sizes order is then
    # not the grid's (y, x) order; nothing in emsarray may depend on the declaration order)
    if r.get('lon_first'):
        ds = _put_lat(_put_lon(ds))
    else:
        ds = _put_lon(_put_lat(ds))
    if bounds != 'none':
        lb = xr.DataArray(np.array([[float(a), float(b)] for a, b in latb]).astype(lat_dtype), dims=[ydim, 'nv'])
        xb = xr.DataArray(np.array([[float(a), float(b)] for a, b in lonb]).astype(lon_dtype), dims=[xdim, 'nv'])
        if r.get('neg_zero'):
            # the same number spelt two ways: a cell's second bound that is zero is stored as -0.0, its
            # neighbour's first bound as 0.0 (what mirroring northern bounds to the south produces)
            for arr in (lb, xb):
                col = arr.values[:, 1]
                col[col == 0] = -0.0
        if r.get('bounds_as', 'vars') == 'coords':
            ds = ds.assign_coords({latname + '_bnds': lb, lonname + '_bnds': xb})
        else:
            ds[latname + '_bnds'] = lb
            ds[lonname + '_bnds'] = xb
    grids = {'face': ((ydim, xdim), (ny, nx))}
    polys, centres = [], []
    for j in range(ny):
        for i in range(nx):
            (x0, x1), (y0, y1) = lonb[i], latb[j]
            polys.append([(x0, y0), (x1, y0), (x1, y1), (x0, y1)])
            centres.append((F(lon[i]), F(lat[j])))
    b = Built(r, ds, 'cf1d', grids, 'face', polys, centres)
    b.extra = {'latb': latb, 'lonb': lonb, 'names': {'lat': latname, 'lon': lonname, 'ydim': ydim, 'xdim': xdim},
               'geom_names': [lonname, latname] + (
        [lonname + '_bnds', latname + '_bnds'] if bounds != 'none' else [])}
    b.vars = _add_vars(ds, grids, r.get('vars', []), r.get('sizes_extra', {}))
    b.ds = ds
    return b


def _axis(rng: random.Random, n: int, uniform: bool) -> list:
    start = rng.randint(-20, 20)
    vals = [start]
    step = rng.choice([1, 2, 4])
    for _ in range(n - 1):
        vals.append(vals[-1] + (step if uniform else rng.choice([1, 2, 3, 4])))
    if rng.random() < 0.4:
        vals = vals[::-1]
    return vals


def random_cf1d(rng: random.Random, max_n: int = 6, **kw) -> dict:
    ny, nx = _shape2(rng, max_n, min_n=2)
    names = rng.choice([('lat', 'lon', 'lat', 'lon'), ('y', 'x', 'latitude', 'longitude'),
                        ('lat', 'x', 'lat', 'longitude')])
    r = {'conv': 'cf1d', 'lat': _axis(rng, ny, rng.random() < 0.5),
         'lon': _axis(rng, nx, rng.random() < 0.5),
         'ydim': names[0], 'xdim': names[1], 'latname': names[2], 'lonname': names[3],
         'bounds': kw.get('bounds', rng.choice(['none', 'contig', 'none', 'contig'])),
         'coords_as': kw.get('coords_as', 'coords'),
         'bounds_as': kw.get('bounds_as', 'vars'),
         'lon_first': rng.random() < 0.5}
    return r


def _shape2(rng: random.Random, max_n: int, min_n: int = 1) -> tuple:
    c = rng.random()
    if c < 0.12:
        return (min_n, rng.randint(max(2, min_n), max_n))
    if c < 0.24:
        return (rng.randint(max(2, min_n), max_n), min_n)
    while True:
        ny, nx = rng.randint(min_n, max_n), rng.randint(min_n, max_n)
        if ny != nx or rng.random() < 0.1:
            return ny, nx


# --------------------------------------------------------------------------
# curvilinear lattices (CF 2-D, SHOC simple, SHOC standard)

def _lattice(r: dict):
    """node (j, i) -> (x, y) Fractions on a sheared integer lattice"""
    k = r.get('scale', 1)
    a, b, c, d = (k * v for v in r['shear'])
    x0, y0 = (k * v for v in r.get('origin', (0, 0)))

    def node(j, i):
        return (F(x0 + a * i + b * j), F(y0 + c * i + d * j))
    return node


def random_shear(rng: random.Random, axis_aligned: bool = False) -> list:
    if axis_aligned:
        return [2 * rng.choice([1, 2]), 0, 0, 2 * rng.choice([1, 2])]
    while True:
        a, b, c, d = (2 * rng.randint(-3, 3) for _ in range(4))
        det = a * d - b * c
        # asymmetric so that a j/i transposition changes every polygon
        if det != 0 and (a, c) != (b, d) and (a, c) != (d, b) and abs(a) + abs(c) > 0:
            return [a, b, c, d]


def _mean(pts):
    n = len(pts)
    return (sum(p[0] for p in pts) / n, sum(p[1] for p in pts) / n)


def _derived_2d_bounds(centre: list, ny: int, nx: int):
    """What CFGrid2DTopology._get_or_make_bounds computes without stored bounds.
    `centre[j][i]` is a Fraction or None.  Applied per coordinate."""
    vals = [[centre[j][i] for i in range(nx)] for j in range(ny)]
    isnan = [[vals[j][i] is None for i in range(nx)] for j in range(ny)]

    def nan_at(j, i):
        return 0 <= j < ny and 0 <= i < nx and isnan[j][i]
    for j in range(ny):
        for i in range(nx):
            jb = nan_at(j - 1, i) and nan_at(j + 1, i)
            ib = nan_at(j, i - 1) and nan_at(j, i + 1)
            if jb or ib:
                vals[j][i] = None
    grid = [[None] * (nx + 1) for _ in range(ny + 1)]
    for gj in range(ny + 1):
        for gi in range(nx + 1):
            around = []
            for dj in (-1, 0):
                for di in (-1, 0):
                    j, i = gj + dj, gi + di
                    if 0 <= j < ny and 0 <= i < nx and vals[j][i] is not None:
                        around.append(vals[j][i])
            grid[gj][gi] = sum(around) / len(around) if around else None
    out = [[None] * nx for _ in range(ny)]
    for j in range(ny):
        for i in range(nx):
            c = [grid[j][i], grid[j][i + 1], grid[j + 1][i + 1], grid[j + 1][i]]
            out[j][i] = None if any(v is None for v in c) else c
    return out


def build_cf2d(r: dict) -> Built:
    shoc = r['conv'] == 'shoc_simple'
    ny, nx = r['ny'], r['nx']
    node = _lattice(r)
    holes = {tuple(h) for h in r.get('holes', [])}
    ydim, xdim = ('j', 'i') if shoc else (r.get('ydim', 'y'), r.get('xdim', 'x'))
    latname, lonname = r.get('latname', 'latitude' if shoc else 'lat'), r.get('lonname', 'longitude' if shoc else 'lon')
    bounds = r.get('bounds', 'none')
    coords_as = r.get('coords_as', 'coords')
    corners = {}
    cx = [[None] * nx for _ in range(ny)]
    cy = [[None] * nx for _ in range(ny)]
    for j in range(ny):
        for i in range(nx):
            cs = [node(j, i), node(j, i + 1), node(j + 1, i + 1), node(j + 1, i)]
            if [j, i] in r.get('twist', []) or (j, i) in r.get('twist', []):
                cs = [cs[0], cs[2], cs[1], cs[3]]     # bow-tie: self-intersecting stored corners
            if r.get('grow'):
                # optional key: the stored corners of every cell pushed outwards from the cell's centre by a half
                # (exact: halves), so neighbouring cells overlap; the centres stay where they were
                m = _mean(cs)
                cs = [(m[0] + (x - m[0]) * F(3, 2), m[1] + (y - m[1]) * F(3, 2)) for x, y in cs]
            corners[j, i] = cs
            if (j, i) not in holes:
                m = _mean(cs)
                cx[j][i], cy[j][i] = m
    lat_attrs = {'standard_name': 'latitude', 'units': 'degrees_north'}
    lon_attrs = {'standard_name': 'longitude', 'units': 'degrees_east'}
    attrs = {'Conventions': 'CF-1.4'}
    if shoc:
        attrs['ems_version'] = 'v1.2.3'
    ds = xr.Dataset(attrs=dict(r.get('attrs', attrs)))

    def arr(vals):
        return np.array([[np.nan if v is None else float(v) for v in row] for row in vals], dtype='f8')
    if bounds == 'stored':
        lat_attrs['bounds'] = latname + '_bounds'
        lon_attrs['bounds'] = lonname + '_bounds'
    lat_da = xr.DataArray(arr(cy), dims=[ydim, xdim], attrs=lat_attrs)
    lon_da = xr.DataArray(arr(cx), dims=[ydim, xdim], attrs=lon_attrs)
    if coords_as == 'coords':
        ds = ds.assign_coords({latname: lat_da, lonname: lon_da})
    else:
        ds[latname] = lat_da
        ds[lonname] = lon_da
    polys = []
    if bounds == 'stored':
        xb = np.full((ny, nx, 4), np.nan)
        yb = np.full((ny, nx, 4), np.nan)
        for (j, i), cs in corners.items():
            if (j, i) in holes:
                continue
            for k, (x, y) in enumerate(cs):
                xb[j, i, k], yb[j, i, k] = float(x), float(y)
        bx = xr.DataArray(xb, dims=[ydim, xdim, 'nv'])
        by = xr.DataArray(yb, dims=[ydim, xdim, 'nv'])
        if r.get('bounds_as', 'vars') == 'coords':
            ds = ds.assign_coords({lonname + '_bounds': bx, latname + '_bounds': by})
        else:
            ds[lonname + '_bounds'] = bx
            ds[latname + '_bounds'] = by
        for j in range(ny):
            for i in range(nx):
                polys.append(None if (j, i) in holes else list(corners[j, i]))
    else:
        dx = _derived_2d_bounds(cx, ny, nx)
        dy = _derived_2d_bounds(cy, ny, nx)
        for j in range(ny):
            for i in range(nx):
                if dx[j][i] is None or dy[j][i] is None:
                    polys.append(None)
                else:
                    polys.append(list(zip(dx[j][i], dy[j][i])))
    centres = [None if cx[j][i] is None else (cx[j][i], cy[j][i]) for j in range(ny) for i in range(nx)]
    grids = {'face': ((ydim, xdim), (ny, nx))}
    b = Built(r, ds, r['conv'], grids, 'face', polys, centres)
    b.extra = {'holes': sorted(holes), 'geom_names': [lonname, latname] + (
        [lonname + '_bounds', latname + '_bounds'] if bounds == 'stored' else []),
        'cx': cx, 'cy': cy, 'corners': corners if bounds == 'stored' else None,
        'names': {'lat': latname, 'lon': lonname, 'ydim': ydim, 'xdim': xdim}}
    b.vars = _add_vars(ds, grids, r.get('vars', []), r.get('sizes_extra', {}))
    b.ds = ds
    return b


def random_cf2d(rng: random.Random, conv: str = 'cf2d', max_n: int = 6, holes: bool = True, **kw) -> dict:
    ny, nx = _shape2(rng, max_n, min_n=kw.get('min_n', 1))
    r = {'conv': conv, 'ny': ny, 'nx': nx, 'shear': random_shear(rng, kw.get('axis_aligned', False)),
         'origin': [rng.randint(-10, 10), rng.randint(-10, 10)],
         'bounds': kw.get('bounds', rng.choice(['stored', 'none'])),
         'coords_as': kw.get('coords_as', 'coords'), 'bounds_as': kw.get('bounds_as', 'vars')}
    if r['bounds'] == 'none':
        # derived bounds average 1..4 centres: multiples of 12 keep every mean an exact integer
        r['scale'] = 12
    if conv == 'cf2d':
        r['ydim'], r['xdim'] = rng.choice([('y', 'x'), ('nj', 'ni')])
    if holes and ny * nx >= 4 and rng.random() < 0.6:
        cells = [(j, i) for j in range(ny) for i in range(nx)]
        r['holes'] = [list(c) for c in rng.sample(cells, rng.randint(1, max(1, ny * nx // 4)))]
    if kw.get('twist') and r['bounds'] == 'stored' and rng.random() < 0.5:
        r['twist'] = [[rng.randrange(ny), rng.randrange(nx)]]
    return r


def build_shoc_standard(r: dict) -> Built:
    ny, nx = r['ny'], r['nx']
    node = _lattice(r)
    masked_nodes = {tuple(h) for h in r.get('masked_nodes', [])}
    dims = r.get('dims', {
        'face': ('j_centre', 'i_centre'), 'left': ('j_left', 'i_left'),
        'back': ('j_back', 'i_back'), 'node': ('j_node', 'i_node')})
    dims = {k: tuple(v) for k, v in dims.items()}
    coords_as = r.get('coords_as', 'coords')

    # optional key `moved_nodes`: [[j, i, 2*j', 2*i'], …] — node (j, i) sits where the lattice position (j', i') is
    # (half-lattice units, exact); a node moved across the opposite side of a face makes that face self-intersecting
    moved = {(m[0], m[1]): (F(m[2], 2), F(m[3], 2)) for m in r.get('moved_nodes', [])}

    def nd(j, i):
        if (j, i) in masked_nodes:
            return None
        return node(*moved[j, i]) if (j, i) in moved else node(j, i)

    def mean_or_none(pts):
        return None if any(p is None for p in pts) else _mean(pts)
    face = [[mean_or_none([nd(j, i), nd(j, i + 1), nd(j + 1, i + 1), nd(j + 1, i)]) for i in range(nx)] for j in range(ny)]
    left = [[mean_or_none([nd(j, i), nd(j + 1, i)]) for i in range(nx + 1)] for j in range(ny)]
    back = [[mean_or_none([nd(j, i), nd(j, i + 1)]) for i in range(nx)] for j in range(ny + 1)]
    nodes = [[nd(j, i) for i in range(nx + 1)] for j in range(ny + 1)]

    def comp(grid, k):
        return np.array([[np.nan if p is None else float(p[k]) for p in row] for row in grid], dtype='f8')
    ds = xr.Dataset(attrs=dict(r.get('attrs', {'Conventions': 'CF-1.0', 'title': 'shoc standard'})))
    names = {'face': ('y_centre', 'x_centre'), 'left': ('y_left', 'x_left'),
             'back': ('y_back', 'x_back'), 'node': ('y_grid', 'x_grid')}
    for kind, grid in [('face', face), ('left', left), ('back', back), ('node', nodes)]:
        yn, xn = names[kind]
        xa = xr.DataArray(comp(grid, 0), dims=dims[kind], attrs={'units': 'degrees_east', 'coordinate_type': 'longitude'})
        ya = xr.DataArray(comp(grid, 1), dims=dims[kind], attrs={'units': 'degrees_north', 'coordinate_type': 'latitude'})
        if kind in r.get('x_transposed', []):
            # the longitude variable stored with its dimensions the other way round (legal: named dimensions)
            xa = xa.transpose()
        if coords_as == 'coords':
            ds = ds.assign_coords({xn: xa, yn: ya})
        else:
            ds[xn] = xa
            ds[yn] = ya
    grids = {
        'face': (dims['face'], (ny, nx)), 'left': (dims['left'], (ny, nx + 1)),
        'back': (dims['back'], (ny + 1, nx)), 'node': (dims['node'], (ny + 1, nx + 1))}
    polys, centres = [], []
    for j in range(ny):
        for i in range(nx):
            cs = [nd(j, i), nd(j, i + 1), nd(j + 1, i + 1), nd(j + 1, i)]
            polys.append(None if any(c is None for c in cs) else cs)
            centres.append(face[j][i])
    b = Built(r, ds, 'shoc_standard', grids, 'face', polys, centres)
    b.extra = {'geom_names': ['x_centre', 'y_centre', 'x_grid', 'y_grid', 'x_left', 'y_left', 'x_back', 'y_back'],
               'nodes': nodes, 'face': face, 'left': left, 'back': back}
    b.vars = _add_vars(ds, grids, r.get('vars', []), r.get('sizes_extra', {}))
    b.ds = ds
    return b


def random_shoc_standard(rng: random.Random, max_n: int = 5, holes: bool = True, **kw) -> dict:
    ny, nx = _shape2(rng, max_n, min_n=kw.get('min_n', 1))
    r = {'conv': 'shoc_standard', 'ny': ny, 'nx': nx, 'shear': random_shear(rng, kw.get('axis_aligned', False)),
         'origin': [rng.randint(-10, 10), rng.randint(-10, 10)],
         'coords_as': kw.get('coords_as', 'coords')}
    if holes and ny * nx >= 4 and rng.random() < 0.5:
        nodes = [(j, i) for j in range(ny + 1) for i in range(nx + 1)]
        r['masked_nodes'] = [list(c) for c in rng.sample(nodes, rng.randint(1, 2))]
    if rng.random() < 0.3:
        r['x_transposed'] = rng.choice([['face'], ['face', 'left'], ['back'], ['face', 'left', 'back']])   # (not the node grid: its arrays are sliced by position)
    return r


# --------------------------------------------------------------------------
# UGRID meshes

def gen_mesh(rng: random.Random, w: int, h: int, *, concave: bool = True, midpoints: bool = True,
             drop: bool = True, shear: list | None = None, shuffle: bool = True) -> dict:
    """A planar mesh cut from a (w x h) lattice of 2x2 squares: quads, diagonal
    triangle pairs, L-shaped concave hexagons, extra mid-edge (collinear) nodes,
    dropped cells, either winding, random start vertex, shuffled numbering."""
    pts: dict = {}

    def pid(p):
        if p not in pts:
            pts[p] = len(pts)
        return pts[p]
    used = [[False] * w for _ in range(h)]
    faces = []   # lists of lattice points (x, y) in doubled coordinates, CCW
    cells = [(j, i) for j in range(h) for i in range(w)]
    rng.shuffle(cells)
    for (j, i) in cells:
        if used[j][i]:
            continue
        x, y = 2 * i, 2 * j
        c = rng.random()
        if concave and c < 0.2 and j + 1 < h and i + 1 < w and not (used[j + 1][i] or used[j][i + 1] or used[j + 1][i + 1]):
            # L-shape over three cells of the 2x2 block, fourth is a quad
            used[j][i] = used[j + 1][i] = used[j][i + 1] = used[j + 1][i + 1] = True
            # (lattice points on its long sides are vertices too, so the mesh stays conforming)
            faces.append([(x, y), (x + 2, y), (x + 4, y), (x + 4, y + 2), (x + 2, y + 2),
                          (x + 2, y + 4), (x, y + 4), (x, y + 2)])
            faces.append([(x + 2, y + 2), (x + 4, y + 2), (x + 4, y + 4), (x + 2, y + 4)])
            continue
        used[j][i] = True
        if drop and c > 0.9 and len(cells) > 2:
            continue
        sq = [(x, y), (x + 2, y), (x + 2, y + 2), (x, y + 2)]
        if concave and 0.2 <= c < 0.3:
            # triangle + concave pentagon (reflex vertex at the cell centre)
            ctr = (x + 1, y + 1)
            faces.append([sq[0], sq[1], ctr])
            faces.append([sq[1], sq[2], sq[3], sq[0], ctr])
        elif c < 0.5:
            if rng.random() < 0.5:
                faces.append([sq[0], sq[1], sq[2]])
                faces.append([sq[0], sq[2], sq[3]])
            else:
                faces.append([sq[0], sq[1], sq[3]])
                faces.append([sq[1], sq[2], sq[3]])
        else:
            faces.append(sq)
    if not faces:
        faces.append([(0, 0), (2, 0), (2, 2), (0, 2)])
    # mid-edge nodes on axis-parallel lattice edges (length 2), shared by both neighbours
    mids = set()
    if midpoints:
        edges = set()
        for f in faces:
            for a, b in zip(f, f[1:] + f[:1]):
                if abs(a[0] - b[0]) + abs(a[1] - b[1]) == 2 and (a[0] == b[0] or a[1] == b[1]):
                    edges.add(frozenset((a, b)))
        for e in sorted(edges, key=sorted):
            if rng.random() < 0.15:
                mids.add(e)
    out_faces = []
    for f in faces:
        g = []
        for a, b in zip(f, f[1:] + f[:1]):
            g.append(a)
            if frozenset((a, b)) in mids:
                g.append(((a[0] + b[0]) // 2, (a[1] + b[1]) // 2))
        if len(g) > 8:
            g = f
            for a, b in zip(f, f[1:] + f[:1]):
                mids.discard(frozenset((a, b)))
        out_faces.append(g)
    # The discard above may leave a neighbour with a mid node the other lacks; rebuild consistently
    final = []
    for f in faces:
        g = []
        for a, b in zip(f, f[1:] + f[:1]):
            g.append(a)
            if frozenset((a, b)) in mids:
                g.append(((a[0] + b[0]) // 2, (a[1] + b[1]) // 2))
        final.append(g)
    faces = final
    # winding and rotation
    for k, f in enumerate(faces):
        if rng.random() < 0.4:
            f = f[::-1]
        s = rng.randrange(len(f))
        faces[k] = f[s:] + f[:s]
    if shuffle:
        rng.shuffle(faces)
    all_pts = sorted({p for f in faces for p in f})
    if shuffle:
        rng.shuffle(all_pts)
    for p in all_pts:
        pid(p)
    a, b, c, d = shear or [1, 0, 0, 1]
    nodes = [None] * len(pts)
    for p, k in pts.items():
        nodes[k] = [a * p[0] + b * p[1], c * p[0] + d * p[1]]
    return {'nodes': nodes, 'faces': [[pts[p] for p in f] for f in faces]}


def mesh_edges(faces: list) -> list:
    """edges in first-seen order as sorted node pairs (one of the valid numberings)"""
    seen, edges = set(), []
    for f in faces:
        for a, b in zip(f, f[1:] + f[:1]):
            e = (min(a, b), max(a, b))
            if e not in seen:
                seen.add(e)
                edges.append(e)
    return edges


def build_ugrid(r: dict) -> Built:
    nodes, faces = r['nodes'], r['faces']
    enc = r.get('enc', {})
    base = enc.get('start_index', 0)
    fill = enc.get('fill', 'nan')          # 'nan' | 'attr' | 'none'
    transposed = enc.get('transposed', False)
    tables = set(enc.get('tables', []))    # subset of edge_node, face_edge, edge_face, face_face
    edge_dim_declared = enc.get('edge_dim_declared', False)
    coords_as = enc.get('coords_as', 'vars')
    face_coords = enc.get('face_coords', None)   # None | 'vars' | 'coords'
    start_index_spelling = enc.get('start_index_spelling', 'int')
    nface = len(faces)
    maxn = max(len(f) for f in faces)
    if enc.get('pad', 0):
        maxn += enc['pad']
    uniform = all(len(f) == maxn for f in faces)
    if fill == 'none' and (not uniform or tables & {'edge_face', 'face_face'}):
        # boundary edges / faces with fewer neighbours need missing entries
        fill = 'nan'
    # how an integer table marks a missing entry: (dtype, value)
    fill_spec = enc.get('fill_spec', 'i4big')
    FDTYPE, FILL = {
        'i4big': ('i4', 999999),
        'low': ('i4', base - 1),                 # 0 for a one-based table: a fill value that is falsy
        'neg': ('i4', -1 if base == 0 else -9),
        'u4max': ('u4', 4294967295),             # the netCDF default fill of an unsigned int: beyond int32
        'i8max': ('i8', 2 ** 40),                   # beyond int32, exactly representable as a float64 (xarray decodes through float64)
        'i2': ('i2', -32767),
    }[fill_spec]
    names = r.get('names', {})
    fdim = names.get('face_dim', 'nMesh2_face')
    ndim = names.get('node_dim', 'nMesh2_node')
    edim = names.get('edge_dim', 'nMesh2_edge')
    mdim = names.get('max_dim', 'nMaxMesh2_face_nodes')
    two = names.get('two_dim', 'Two')

    # the index base is a property of each table (the `start_index` attribute is per variable): tables listed in
    # `other_base_tables` use the other base than the rest
    other_base_tables = set(enc.get('other_base_tables', []))

    def conn(rows, width, dims, role, nrows_dim_first=True):
        tbase = (1 - base) if role.replace('_connectivity', '') in other_base_tables else base
        tfill = FILL
        if fill_spec == 'low':
            tfill = tbase - 1
        elif fill_spec == 'neg':
            tfill = -1 if tbase == 0 else -9
        if fill == 'nan':
            data = np.full((len(rows), width), np.nan, dtype='f8')
        else:
            data = np.full((len(rows), width), tfill, dtype=FDTYPE)
        for k, row in enumerate(rows):
            for c, v in enumerate(row):
                if v is not None:
                    data[k, c] = v + tbase
        attrs = {'cf_role': role}
        if tbase != 0 or enc.get('explicit_start_index', True):
            attrs['start_index'] = {'int': tbase, 'str': str(tbase), 'np': np.int32(tbase)}[start_index_spelling]
        if fill == 'attr':
            attrs['_FillValue'] = np.dtype(FDTYPE).type(tfill)
        d = list(dims)
        if transposed:
            data = data.T
            d = d[::-1]
        return xr.DataArray(data, dims=d, attrs=attrs)

    ds = xr.Dataset(attrs=dict(r.get('attrs', {'Conventions': 'UGRID-1.0'})))
    mesh_attrs = {
        'cf_role': 'mesh_topology', 'topology_dimension': 2,
        'node_coordinates': 'Mesh2_node_x Mesh2_node_y',
        'face_node_connectivity': 'Mesh2_face_nodes',
    }
    if enc.get('face_dim_declared', True) or transposed:
        mesh_attrs['face_dimension'] = fdim
    nx_da = xr.DataArray(np.array([n[0] for n in nodes], dtype='f8'), dims=[ndim], attrs={'standard_name': 'longitude'})
    ny_da = xr.DataArray(np.array([n[1] for n in nodes], dtype='f8'), dims=[ndim], attrs={'standard_name': 'latitude'})
    if coords_as == 'coords':
        ds = ds.assign_coords({'Mesh2_node_x': nx_da, 'Mesh2_node_y': ny_da})
    else:
        ds['Mesh2_node_x'] = nx_da
        ds['Mesh2_node_y'] = ny_da
    ds['Mesh2_face_nodes'] = conn(faces, maxn, (fdim, mdim), 'face_node_connectivity')
    edges = r.get('edges') or mesh_edges(faces)
    edges = [tuple(e) for e in edges]
    eindex = {frozenset(e): k for k, e in enumerate(edges)}
    has_edge = bool(tables & {'edge_node', 'edge_face'}) or edge_dim_declared
    face_edges = [[eindex[frozenset((a, b))] for a, b in zip(f, f[1:] + f[:1])] for f in faces]
    edge_faces = [[] for _ in edges]
    for fi, fe in enumerate(face_edges):
        for e in fe:
            edge_faces[e].append(fi)
    face_faces = [[] for _ in faces]
    for e, fs in enumerate(edge_faces):
        if len(fs) == 2:
            face_faces[fs[0]].append(fs[1])
            face_faces[fs[1]].append(fs[0])
    if 'edge_node' in tables:
        ds['Mesh2_edge_nodes'] = conn([list(e) for e in edges], 2, (edim, two), 'edge_node_connectivity')
        mesh_attrs['edge_node_connectivity'] = 'Mesh2_edge_nodes'
    # a boundary edge has one face; which of the two columns stays empty is up to the writer
    # (left / right face convention): optionally put the missing entry first on odd edges
    # (default: decided by the mesh itself, so that every generator built on this one covers both layouts)
    mf = enc.get('edge_face_missing_first', sum(len(f) for f in faces) % 2 == 1)
    edge_face_rows = [([None] + fs if (mf and len(fs) == 1 and e % 2 == 1) else fs + [None] * (2 - len(fs)))
                      for e, fs in enumerate(edge_faces)]
    if 'edge_face' in tables:
        ds['Mesh2_edge_faces'] = conn(edge_face_rows, 2, (edim, two), 'edge_face_connectivity')
        mesh_attrs['edge_face_connectivity'] = 'Mesh2_edge_faces'
    if 'face_edge' in tables:
        ds['Mesh2_face_edges'] = conn(face_edges, maxn, (fdim, mdim), 'face_edge_connectivity')
        mesh_attrs['face_edge_connectivity'] = 'Mesh2_face_edges'
    if 'face_face' in tables:
        ds['Mesh2_face_links'] = conn(face_faces, maxn, (fdim, mdim), 'face_face_connectivity')
        mesh_attrs['face_face_connectivity'] = 'Mesh2_face_links'
    if edge_dim_declared or (transposed and has_edge):
        mesh_attrs['edge_dimension'] = edim
        has_edge = True
    polys = [[(F(nodes[n][0]), F(nodes[n][1])) for n in f] for f in faces]
    centres = [None] * nface
    if face_coords:
        # deliberately NOT the centroid, and integral so the float values are exact
        fx = [sum(p[0] for p in poly) + 1 for poly in polys]
        fy = [sum(p[1] for p in poly) - 1 for poly in polys]
        fxa = xr.DataArray(np.array([float(v) for v in fx]), dims=[fdim])
        fya = xr.DataArray(np.array([float(v) for v in fy]), dims=[fdim])
        if face_coords == 'coords':
            ds = ds.assign_coords({'Mesh2_face_x': fxa, 'Mesh2_face_y': fya})
        else:
            ds['Mesh2_face_x'] = fxa
            ds['Mesh2_face_y'] = fya
        mesh_attrs['face_coordinates'] = 'Mesh2_face_x Mesh2_face_y'
        centres = list(zip(fx, fy))
    ds['Mesh2'] = xr.DataArray(np.int32(0), attrs=mesh_attrs)
    if enc.get('edge_tables_as_coords'):
        # the edge tables flagged as xarray coordinates (`set_coords`): emsarray then does not use them as tables
        # (it numbers the edges itself) but the edge dimension they span is still a grid of the dataset
        ds = ds.set_coords([n for n in ('Mesh2_edge_nodes', 'Mesh2_edge_faces') if n in ds.variables])
    # declaration order of grid kinds in UGrid.grid_dimensions: node, face, edge
    grids = {'node': ((ndim,), (len(nodes),)), 'face': ((fdim,), (nface,))}
    if has_edge:
        grids['edge'] = ((edim,), (len(edges),))
    b = Built(r, ds, 'ugrid', grids, 'face', polys, centres)
    b.extra = {'edges': edges, 'face_edges': face_edges, 'edge_faces': edge_faces, 'edge_face_rows': edge_face_rows,
               'face_faces': face_faces, 'has_edge': has_edge, 'fill': fill, 'maxn': maxn,
               'names': {'face_dim': fdim, 'node_dim': ndim, 'edge_dim': edim, 'max_dim': mdim, 'two_dim': two}}
    var_recipes = [v for v in r.get('vars', []) if v.get('kind') != 'edge' or has_edge]
    if has_edge and not tables & {'edge_node', 'edge_face'} and \
            not any(v.get('kind') == 'edge' for v in var_recipes):
        # a declared edge dimension must exist in the dataset: give it one tagged variable
        var_recipes = var_recipes + [{'name': 'edge_id', 'kind': 'edge', 'base': 9000000, 'dtype': 'f8'}]
    b.vars = _add_vars(ds, grids, var_recipes, r.get('sizes_extra', {}))
    b.ds = ds
    return b


# the subsets of optional connectivity tables worth telling apart (which derivations emsarray has to do itself)
TABLE_SUBSETS = [[], ['edge_node'], ['edge_face'], ['edge_node', 'edge_face'], ['face_edge'],
                 ['edge_face', 'face_face'], ['edge_node', 'face_edge'], ['edge_node', 'face_edge', 'edge_face', 'face_face'],
                 ['face_face'], ['face_edge', 'edge_face']]


def tables_for(k: int) -> list:
    """walk the table subsets systematically (k = running number of the mesh within a check)"""
    return list(TABLE_SUBSETS[k % len(TABLE_SUBSETS)])


_UGRID_CALLS = None
ENC_COMBOS = [(f, sp, b) for b in (0, 1) for f, sp in
              [('attr', 'i4big'), ('attr', 'low'), ('attr', 'neg'), ('attr', 'u4max'), ('attr', 'i8max'), ('attr', 'i2'),
               ('nan', 'i4big'), ('none', 'i4big')]]
# interleave so that neighbouring meshes differ in every respect
ENC_COMBOS = [ENC_COMBOS[(7 * k) % 16] for k in range(16)]


def random_ugrid(rng: random.Random, max_w: int = 3, max_h: int = 3, **kw) -> dict:
    w, h = rng.randint(1, max_w), rng.randint(1, max_h)
    shear = None
    if kw.get('sheared', rng.random() < 0.6):
        while True:
            shear = [rng.randint(-2, 2) for _ in range(4)]
            if shear[0] * shear[3] - shear[1] * shear[2] != 0:
                break
    mesh = gen_mesh(rng, w, h, shear=shear, concave=kw.get('concave', True),
                    midpoints=kw.get('midpoints', True), drop=kw.get('drop', True))
    tables = [t for t in ['edge_node', 'face_edge', 'edge_face', 'face_face'] if rng.random() < 0.35]
    if 'tables' in kw:
        tables = kw['tables']
    # the representation of the tables (fill kind x integer fill value x index base) is walked round-robin, not
    # drawn independently: every combination turns up once in any 16 consecutive meshes
    global _UGRID_CALLS
    if _UGRID_CALLS is None:
        _UGRID_CALLS = rng.randrange(len(ENC_COMBOS))
    _UGRID_CALLS += 1
    c_fill, c_spec, c_base = ENC_COMBOS[_UGRID_CALLS % len(ENC_COMBOS)]
    enc = {
        'start_index': kw.get('start_index', c_base),
        'fill': kw.get('fill', c_fill),
        'transposed': kw.get('transposed', rng.random() < 0.35),
        'tables': tables,
        'edge_dim_declared': kw.get('edge_dim_declared', rng.random() < 0.4),
        'coords_as': kw.get('coords_as', 'vars'),
        'face_coords': kw.get('face_coords', None),
        'edge_face_missing_first': kw.get('edge_face_missing_first', rng.random() < 0.35),
        'fill_spec': kw.get('fill_spec', c_spec),
        'edge_tables_as_coords': kw.get('edge_tables_as_coords', False),
        'other_base_tables': kw.get('other_base_tables',
                                    rng.choice([['face_edge', 'edge_node'], ['edge_face'], ['face_node'], ['face_face', 'edge_node']])
                                    if rng.random() < 0.2 else []),
    }
    r = {'conv': 'ugrid', 'nodes': mesh['nodes'], 'faces': mesh['faces'], 'enc': enc}
    return r


def pack_coordinates(ds: xr.Dataset, skip=()) -> xr.Dataset:
    """Files in the wild store coordinates packed (scale_factor) or with a numeric fill value for the missing
    ones: the decoded content is the same, the raw numbers in the file are not.  Sets the encodings only
    (exactly representable: multiples of 1/8), so the in-memory dataset is unchanged."""
    ds = ds.copy()
    for name in list(ds.variables):
        v = ds[name]
        if name in skip or v.dtype.kind != 'f' or v.size == 0:
            continue
        vals = np.asarray(v.values, dtype='f8')
        if np.isnan(vals).any():
            ds[name].encoding['_FillValue'] = -999.0
        elif np.array_equal(vals * 8, np.round(vals * 8)) and np.abs(vals).max() < 1e6:
            ds[name].encoding.update(dtype='i4', scale_factor=0.125, add_offset=0.0)
    return ds


# --------------------------------------------------------------------------

BUILDERS = {
    'cf1d': build_cf1d, 'cf2d': build_cf2d, 'shoc_simple': build_cf2d,
    'shoc_standard': build_shoc_standard, 'ugrid': build_ugrid,
}


def random_vary(rng: random.Random, conv: str) -> dict:
    """How the same content is *held*: none of this changes a value, a name or an attribute a user would
    call different, and none of it may change what emsarray answers."""
    v = {}
    c = rng.random()
    if c < 0.2:
        v['via_file'] = True                 # written to netCDF and opened again: decoded, encodings as files have them
    elif c < 0.35:
        v['chunk'] = rng.choice([1, 2])      # dask-backed, small chunks along every dimension
    if rng.random() < 0.15:
        v['byteorder'] = '>'                 # data variables big-endian (what NetCDF-3 readers hand out)
    if rng.random() < 0.2:
        v['geom_as_coords'] = True           # bounds / connectivity variables held as xarray coordinates
    return v


def apply_vary(built: Built, vary: dict) -> None:
    import os
    import tempfile
    ds = built.ds
    if vary.get('byteorder'):
        for name in built.vars:
            da = ds[name]
            if da.dtype.kind in 'fiu' and da.dtype.itemsize > 1:
                attrs, enc = dict(da.attrs), dict(da.encoding)
                ds[name] = da.astype(da.dtype.newbyteorder(vary['byteorder']))
                ds[name].attrs, ds[name].encoding = attrs, enc
    if vary.get('geom_as_coords') and built.conv != 'ugrid':
        # (UGRID connectivity is looked up among the data variables by design)
        names = [n for n in ds.data_vars if n not in built.vars and ds[n].ndim > 0]
        ds = ds.set_coords(names)
    if vary.get('via_file') and not any(i.dtype in INT_FILL for i in built.vars.values()):
        d = tempfile.mkdtemp(prefix='verifgen')
        path = os.path.join(d, 'ds.nc')
        try:
            ds.to_netcdf(path)
            with xr.open_dataset(path) as opened:
                ds = opened.load()
        finally:
            if os.path.exists(path):
                os.remove(path)
            os.rmdir(d)
    if vary.get('chunk'):
        ds = ds.chunk({d: vary['chunk'] for d in ds.dims})
    built.ds = ds


def build(recipe: dict) -> Built:
    b = BUILDERS[recipe['conv']](recipe)
    if recipe.get('vary'):
        apply_vary(b, recipe['vary'])
    return b


def random_recipe(rng: random.Random, conv: str | None = None, tier: str = 'quick', **kw) -> dict:
    conv = conv or rng.choice(CONVS)
    if kw.pop('vary', False):
        r = random_recipe(rng, conv, tier, **kw)
        r['vary'] = random_vary(rng, conv)
        return r
    big = tier == 'thorough'
    if conv == 'cf1d':
        return random_cf1d(rng, max_n=kw.pop('max_n', 9 if big else 6), **kw)
    if conv in ('cf2d', 'shoc_simple'):
        return random_cf2d(rng, conv, max_n=kw.pop('max_n', 8 if big else 5), **kw)
    if conv == 'shoc_standard':
        return random_shoc_standard(rng, max_n=kw.pop('max_n', 7 if big else 5), **kw)
    return random_ugrid(rng, max_w=kw.pop('max_w', 5 if big else 3), max_h=kw.pop('max_h', 4 if big else 3), **kw)


def attach_vars(rng: random.Random, recipe: dict, n_vars: int = 3, max_extra: int = 2,
                dtypes=DEFAULT_DTYPES, permute: bool = True, with_nan: bool = False) -> dict:
    """Add tagged data variables to a recipe (needs the grid kinds, so build once)."""
    probe = build({k: v for k, v in recipe.items() if k not in ('vars', 'sizes_extra')})
    kinds = list(probe.grids.keys())
    vars_, sizes_extra = random_vars(rng, kinds, n_vars=n_vars, max_extra=max_extra, dtypes=dtypes)
    finalize_var_orders(rng, vars_, probe.grids, permute=permute, with_nan=with_nan)
    recipe = dict(recipe)
    recipe['vars'] = vars_
    recipe['sizes_extra'] = sizes_extra
    return recipe


def bind(built: Built):
    """Attach the convention class explicitly (no auto-detection), returning the convention."""
    conv = built.conv_class(built.ds)
    conv.bind()
    return conv
