"""
Extra generators for C07: the *buffer larger than the distance to the array border* class.

The property speaks of "the requested number of neighbour rings" without a bound on that number, so
the check has to exercise ring counts that are comparable to (and larger than) the size of the
array, with marked cells on, next to and away from the border.  Three things are generated here:

* sparse boolean arrays whose marked cells are placed by position class (`sparse_mask`),
* ring counts relative to the shape of an array (`ring_counts`),
* a small clip geometry strictly inside ONE chosen cell of a dataset (`inside_cell`), the cell being
  chosen by position class on grids (`pick_cell`).

Everything is derived from the generator's ground truth (`Built.polys`, `Built.grids`), never from
emsarray, and all randomness comes from the `rng` handed in.
"""
from __future__ import annotations

import random

import numpy as np
from shapely.geometry import Point, Polygon

POSITIONS = ['corner', 'border', 'near-border', 'middle', 'anywhere']


def pick_index(rng: random.Random, ny: int, nx: int, where: str) -> tuple:
    """(j, i) of one cell of a ny x nx array in the given position class"""
    def near(n):      # 1..3 cells away from an end, if the axis is long enough
        d = rng.randint(1, 3)
        return min(max(d if rng.random() < 0.5 else n - 1 - d, 0), n - 1)
    if where == 'corner':
        return (rng.choice([0, ny - 1]), rng.choice([0, nx - 1]))
    if where == 'border':
        if rng.random() < 0.5:
            return (rng.choice([0, ny - 1]), rng.randrange(nx))
        return (rng.randrange(ny), rng.choice([0, nx - 1]))
    if where == 'near-border':
        if rng.random() < 0.5:
            return (near(ny), rng.randrange(nx))
        return (rng.randrange(ny), near(nx))
    if where == 'middle':
        return ((ny - 1) // 2 + (rng.randint(0, 1) if ny % 2 == 0 else 0),
                (nx - 1) // 2 + (rng.randint(0, 1) if nx % 2 == 0 else 0))
    return (rng.randrange(ny), rng.randrange(nx))


def sparse_mask(rng: random.Random, max_ny: int = 12, max_nx: int = 14) -> tuple:
    """(array, position class): 1..3 marked cells placed by position class in an array whose sides
    are independent (so thin arrays, 1 x n and n x 1 included)"""
    ny, nx = rng.randint(1, max_ny), rng.randint(1, max_nx)
    where = rng.choice(POSITIONS)
    arr = np.zeros((ny, nx), dtype=bool)
    for _ in range(rng.choice([1, 1, 1, 2, 3])):
        arr[pick_index(rng, ny, nx, where)] = True
    return arr, where


def ring_counts(rng: random.Random, ny: int, nx: int, k: int, lo: int = 4) -> list:
    """`k` distinct ring counts, ascending, from `lo` up to a little beyond the longer side (a count
    beyond both sides must mark everything reachable: also part of the clause); always at least
    lo..lo+5 so that small arrays see counts larger than themselves"""
    hi = max(max(ny, nx) + 2, lo + 5)
    pool = list(range(lo, hi + 1))
    return sorted(rng.sample(pool, min(k, len(pool))))


def pick_cell(rng: random.Random, built, where: str):
    """linear index of an existing cell (polygon is not None) in the given position class;
    meshes have no position classes: any face"""
    cells = [n for n, p in enumerate(built.polys) if p is not None]
    if not cells:
        return None
    if built.conv == 'ugrid':
        return rng.choice(cells)
    ny, nx = built.grids['face'][1]
    for _ in range(20):
        j, i = pick_index(rng, ny, nx, where)
        if built.polys[j * nx + i] is not None:
            return j * nx + i
    return rng.choice(cells)


def inside_cell(rng: random.Random, built, n: int):
    """a point or a small quadrilateral strictly inside cell `n` (convex cells: grids; for a mesh
    face GEOS decides what it hits anyway).  Coordinates are dyadic: vertices are integers, the
    centre is a mean of <= 8 of them ... the truth table always comes from GEOS on exactly this
    geometry, so exactness of the construction is not relied upon."""
    p = [(float(x), float(y)) for x, y in built.polys[n]]
    cx, cy = sum(x for x, _ in p) / len(p), sum(y for _, y in p) / len(p)
    if rng.random() < 0.4 or len(p) != 4:
        return Point(cx, cy)
    # the cell shrunk to a quarter of its size about its centre
    q = [((x + 3 * cx) / 4, (y + 3 * cy) / 4) for x, y in p]
    g = Polygon(q)
    return g if g.is_valid and g.area > 0 else Point(cx, cy)


# ----------------------------------------------------------------------------
# Meshes whose node table / stored edge table have rows that no face uses, and selections by extent.
#
# UGRID does not promise that every row of the node table is a corner of a face, nor that every row of a
# stored `edge_node_connectivity` is a side of one (a gauge node, a 1-D channel drawn into the same tables,
# what is left after a face was deleted).  The property says "exactly the edges and nodes that belong to at
# least one marked cell": such rows belong to no cell, so no selection - however large - may mark them, and
# the kept rows after them must still be numbered contiguously.  Two independent classes are generated:
#
# * `add_loose_elements`: a mesh recipe with 1..3 extra nodes (placed at the front / in the middle / at the
#   end of the node table, the faces renumbered accordingly) and, when the recipe stores an `edge_node` table,
#   0..2 extra edges (between two loose nodes, a loose node and a mesh node, or two mesh nodes that are not
#   the ends of a side) placed likewise in the edge table;
# * `selection_extents`: face lists by extent - none, one, some, all but one, all faces.

EXTENTS = ['none', 'one', 'some', 'all-but-one', 'all']


def _place(rng: random.Random, n_old: int, k: int) -> list:
    """positions (in the NEW table of n_old + k rows) of k inserted rows: front / middle / end mixed"""
    n = n_old + k
    pos: set = set()
    styles = ['front', 'middle', 'end', 'anywhere']
    rng.shuffle(styles)
    for style in styles * 2:
        if len(pos) == k:
            break
        if style == 'front':
            p = 0
        elif style == 'end':
            p = n - 1
        elif style == 'middle':
            p = n // 2
        else:
            p = rng.randrange(n)
        pos.add(p)
    while len(pos) < k:
        pos.add(rng.randrange(n))
    return sorted(pos)


def add_loose_elements(rng: random.Random, recipe: dict, n_nodes: int | None = None, n_edges: int | None = None) -> dict:
    """a copy of a ugrid recipe with loose nodes (and loose edges when an edge_node table is stored);
    `recipe['loose'] = {'nodes': [...], 'edges': [...]}` names the loose rows (ground truth)"""
    from harness.gen import datasets as G
    r = dict(recipe)
    nodes = [list(p) for p in recipe['nodes']]
    faces = [list(f) for f in recipe['faces']]
    k = rng.choice([1, 1, 2, 3]) if n_nodes is None else n_nodes
    taken = {tuple(p) for p in nodes}
    xs, ys = [p[0] for p in nodes], [p[1] for p in nodes]
    fresh = []
    while len(fresh) < k:
        # anywhere in or just outside the extent of the mesh (inside a face, on a side, outside): a position
        # is only a position, a loose node is a corner of nothing
        p = (rng.randint(min(xs) - 2, max(xs) + 2), rng.randint(min(ys) - 2, max(ys) + 2))
        if p not in taken:
            taken.add(p)
            fresh.append(list(p))
    at = _place(rng, len(nodes), k)
    new_nodes: list = []
    old_to_new: dict = {}
    it_old = iter(range(len(nodes)))
    fresh_it = iter(fresh)
    for row in range(len(nodes) + k):
        if row in at:
            new_nodes.append(next(fresh_it))
        else:
            o = next(it_old)
            old_to_new[o] = row
            new_nodes.append(nodes[o])
    faces = [[old_to_new[n] for n in f] for f in faces]
    r['nodes'] = new_nodes
    r['faces'] = faces
    loose_nodes = list(at)
    loose_edges: list = []
    stored = 'edge_node' in r.get('enc', {}).get('tables', [])
    if 'edges' in recipe and recipe['edges']:
        edges = [tuple(old_to_new[n] for n in e) for e in recipe['edges']]
    else:
        edges = [tuple(e) for e in G.mesh_edges(faces)]
    if stored:
        ke = rng.choice([0, 1, 1, 2]) if n_edges is None else n_edges
        have = {frozenset(e) for e in edges}
        mesh_nodes = sorted({n for f in faces for n in f})
        extra = []
        for _ in range(40):
            if len(extra) == ke:
                break
            kind = rng.choice(['loose-loose', 'loose-mesh', 'mesh-mesh'])
            if kind == 'loose-loose' and len(loose_nodes) >= 2:
                a, b = rng.sample(loose_nodes, 2)
            elif kind == 'loose-mesh':
                a, b = rng.choice(loose_nodes), rng.choice(mesh_nodes)
            elif kind == 'mesh-mesh' and len(mesh_nodes) >= 2:
                a, b = rng.sample(mesh_nodes, 2)
            else:
                continue
            if frozenset((a, b)) in have:
                continue
            have.add(frozenset((a, b)))
            extra.append((a, b) if rng.random() < 0.5 else (b, a))
        at_e = _place(rng, len(edges), len(extra))
        out, it_e, it_x = [], iter(edges), iter(extra)
        for row in range(len(edges) + len(extra)):
            out.append(next(it_x) if row in at_e else next(it_e))
        edges = out
        loose_edges = list(at_e)
    if stored or recipe.get('edges'):
        r['edges'] = [list(e) for e in edges]
    r['loose'] = {'nodes': loose_nodes, 'edges': loose_edges}
    return r


def truth_edges(built):
    """(edge count, face_edge rows) in the numbering the FILE defines, when it defines one: the rows of a stored
    edge_node table are the edges (generator's ground truth, nothing read from emsarray); else None"""
    enc = built.recipe.get('enc', {})
    if 'edge_node' in enc.get('tables', []) and not enc.get('edge_tables_as_coords'):
        return (len(built.extra['edges']), [list(row) for row in built.extra['face_edges']])
    return None


def selection_extents(rng: random.Random, nf: int) -> list:
    """[(extent class, ascending face list)] - one list per extent class that exists for `nf` faces"""
    out = [('none', [])]
    if nf >= 1:
        out.append(('one', [rng.randrange(nf)]))
        out.append(('all', list(range(nf))))
    if nf >= 2:
        drop = rng.randrange(nf)
        out.append(('all-but-one', [f for f in range(nf) if f != drop]))
    if nf >= 4:
        out.append(('some', sorted(rng.sample(range(nf), rng.randint(2, nf - 2)))))
    return out
