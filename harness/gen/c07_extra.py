"""
Extra generators for C07: the *buffer larger than the distance to the array border* class.

The property speaks of "the requested number of neighbour rings" without a bound on that number, so
the check has to exercise ring counts that are comparable to (and larger than) the size of the
array, with marked cells on, next to and away from the border.  Three things are generated here:

* sparse boolean arrays whose marked cells are placed by position class (`sparse_mask`),
* ring counts relative to the shape of an array (`ring_counts`),
* a small clip geometry strictly inside ONE chosen cell of a dataset (`inside_cell`), the cell being
  chosen by position class on grids (`pick_cell`).

Everything is derived from the generator's ground truth (`Built.polys`, `Built.grids`), never from
emsarray, and all randomness comes from the `rng` handed in.
"""
from __future__ import annotations

import random

import numpy as np
from shapely.geometry import Point, Polygon

POSITIONS = ['corner', 'border', 'near-border', 'middle', 'anywhere']


def pick_index(rng: random.Random, ny: int, nx: int, where: str) -> tuple:
    """(j, i) of one cell of a ny x nx array in the given position class"""
    def near(n):      # 1..3 cells away from an end, if the axis is long enough
        d = rng.randint(1, 3)
        return min(max(d if rng.random() < 0.5 else n - 1 - d, 0), n - 1)
    if where == 'corner':
        return (rng.choice([0, ny - 1]), rng.choice([0, nx - 1]))
    if where == 'border':
        if rng.random() < 0.5:
            return (rng.choice([0, ny - 1]), rng.randrange(nx))
        return (rng.randrange(ny), rng.choice([0, nx - 1]))
    if where == 'near-border':
        if rng.random() < 0.5:
            return (near(ny), rng.randrange(nx))
        return (rng.randrange(ny), near(nx))
    if where == 'middle':
        return ((ny - 1) // 2 + (rng.randint(0, 1) if ny % 2 == 0 else 0),
                (nx - 1) // 2 + (rng.randint(0, 1) if nx % 2 == 0 else 0))
    return (rng.randrange(ny), rng.randrange(nx))


def sparse_mask(rng: random.Random, max_ny: int = 12, max_nx: int = 14) -> tuple:
    """(array, position class): 1..3 marked cells placed by position class in an array whose sides
    are independent (so thin arrays, 1 x n and n x 1 included)"""
    ny, nx = rng.randint(1, max_ny), rng.randint(1, max_nx)
    where = rng.choice(POSITIONS)
    arr = np.zeros((ny, nx), dtype=bool)
    for _ in range(rng.choice([1, 1, 1, 2, 3])):
        arr[pick_index(rng, ny, nx, where)] = True
    return arr, where


def ring_counts(rng: random.Random, ny: int, nx: int, k: int, lo: int = 4) -> list:
    """`k` distinct ring counts, ascending, from `lo` up to a little beyond the longer side (a count
    beyond both sides must mark everything reachable: also part of the clause); always at least
    lo..lo+5 so that small arrays see counts larger than themselves"""
    hi = max(max(ny, nx) + 2, lo + 5)
    pool = list(range(lo, hi + 1))
    return sorted(rng.sample(pool, min(k, len(pool))))


def pick_cell(rng: random.Random, built, where: str):
    """linear index of an existing cell (polygon is not None) in the given position class;
    meshes have no position classes: any face"""
    cells = [n for n, p in enumerate(built.polys) if p is not None]
    if not cells:
        return None
    if built.conv == 'ugrid':
        return rng.choice(cells)
    ny, nx = built.grids['face'][1]
    for _ in range(20):
        j, i = pick_index(rng, ny, nx, where)
        if built.polys[j * nx + i] is not None:
            return j * nx + i
    return rng.choice(cells)


def inside_cell(rng: random.Random, built, n: int):
    """a point or a small quadrilateral strictly inside cell `n` (convex cells: grids; for a mesh
    face GEOS decides what it hits anyway).  Coordinates are dyadic: vertices are integers, the
    centre is a mean of <= 8 of them ... the truth table always comes from GEOS on exactly this
    geometry, so exactness of the construction is not relied upon."""
    p = [(float(x), float(y)) for x, y in built.polys[n]]
    cx, cy = sum(x for x, _ in p) / len(p), sum(y for _, y in p) / len(p)
    if rng.random() < 0.4 or len(p) != 4:
        return Point(cx, cy)
    # the cell shrunk to a quarter of its size about its centre
    q = [((x + 3 * cx) / 4, (y + 3 * cy) / 4) for x, y in p]
    g = Polygon(q)
    return g if g.is_valid and g.area > 0 else Point(cx, cy)
