"""C05, sixth round: two further input classes.

1. *Structured request lists.*  The requests of a selection are rarely a random handful of cells: they are the cells
   along a track, a transect, a stretch of a boundary.  Such a list has structure a shortcut may latch on to: a run of
   consecutive cells, the same run walked backwards, a stride, a track that lingers in a cell for several fixes and
   skips the next cell, a run with one entry replaced / swapped / dropped / doubled (a *near-run*), one cell asked for
   n times, a walk that turns round.  Whatever the structure, entry k of the result is the stored value of request k.
   `walks_for` gives such lists as linear positions of a grid (every grid kind of every convention);
   `tracks_for` turns walks over the face grid into lists of points (one point inside each visited cell, a miss put
   in here and there), for the point / table APIs.  Both are a function of the recipe alone: no draw from the random
   stream of the check, and a replay of the recipe plays exactly the same lists.

2. *Datasets that share a source file.*  A dataset opened from a file remembers the file (`encoding['source']`), and so
   does every dataset derived from it (`isel`, `sortby`, a copy ...) and every later opening of the same path.  The
   property speaks about the dataset at hand: the cells that contain the points are ITS cells, whatever other dataset
   of the same file, of the same size, was looked at earlier in the process.  A *file history*
   (recipe key `'file_history'`) is

       {'kind':  'derived'    the dataset under test is the opened one with one or both grid axes put the other way
                              round (`isel` with a reversed slice on every dimension of that axis),
                 'rewritten'  the file is written again at the same path with a dataset of the same convention and the
                              same number of cells in another place / arrangement, and opened again,
                 'reopened'   the same file is opened a second time (same content: a control),
                 'other-file' the rearranged dataset is written to and opened from another path (a control),
        'how':   which rearrangement,
        'touch': what the earlier dataset is asked before the later one exists / is used,
        'lazy':  the opened datasets stay backed by the file (not loaded),
        'back':  the earlier dataset is examined once more after the later one}

   The ground truth of every stage is the generator's: the `Built` of the (rearranged) recipe, or the polygons of the
   opened recipe permuted by the known rearrangement.
"""
from __future__ import annotations

import copy
import json
import os
import random
import shutil
import tempfile
import warnings
import zlib
from fractions import Fraction

import numpy as np
import xarray as xr

from harness.gen import datasets as G


def recipe_rng(recipe: dict, salt: str) -> random.Random:
    """a random stream that is a function of the content of the recipe (and a salt) alone"""
    h = zlib.crc32((salt + json.dumps(recipe, sort_keys=True, default=str)).encode())
    return random.Random(h)


# ---------------------------------------------------------------------------------------------------------------------
# 1. structured request lists

SHAPES = ['linger', 'near-run', 'run', 'back-run', 'stride', 'linger-back', 'constant', 'turn', 'near-run']


def _fit(rnd: random.Random, steps: list, size: int) -> list:
    """positions of a walk with the given non-negative steps, placed somewhere inside range(size)"""
    steps = list(steps)
    while steps and sum(steps) > size - 1:
        steps.pop()
    start = rnd.randrange(size - sum(steps))
    out = [start]
    for s in steps:
        out.append(out[-1] + s)
    return out


def walk(rnd: random.Random, shape: str, size: int) -> list:
    """one structured list of linear positions in range(size) (size >= 1)"""
    n = rnd.randint(2, 7)
    if shape == 'run':
        return _fit(rnd, [1] * (n - 1), size)
    if shape == 'back-run':
        return _fit(rnd, [1] * (n - 1), size)[::-1]
    if shape == 'stride':
        return _fit(rnd, [rnd.choice([2, 3])] * (n - 1), size)[::rnd.choice([1, 1, -1])]
    if shape in ('linger', 'linger-back'):
        # a track: several fixes in one cell, on to the next, over a cell without a fix
        out = _fit(rnd, [rnd.choice([0, 1, 2]) for _ in range(n - 1)], size)
        return out[::-1] if shape == 'linger-back' else out
    if shape == 'constant':
        return [rnd.randrange(size)] * n
    if shape == 'turn':
        pos = [rnd.randrange(size)]
        for _ in range(n - 1):
            pos.append(min(size - 1, max(0, pos[-1] + rnd.choice([-1, 0, 1, 1]))))
        return pos
    # near-run: a run, either way round, with one edit
    run = _fit(rnd, [1] * max(2, n - 1), size)
    if rnd.random() < 0.4:
        run = run[::-1]
    if len(run) >= 2:
        i = rnd.randrange(len(run))
        edit = rnd.choice(['copy-neighbour', 'copy-neighbour', 'swap', 'drop', 'double'])
        if edit == 'copy-neighbour':
            j = i - 1 if (i > 0 and (i == len(run) - 1 or rnd.random() < 0.5)) else i + 1
            run[i] = run[j]
        elif edit == 'swap':
            j = i - 1 if i > 0 else i + 1
            run[i], run[j] = run[j], run[i]
        elif edit == 'drop' and len(run) > 2:
            del run[i]
        else:
            run.insert(i, run[i])
    return run


def walks_for(recipe: dict, kind: str, size: int) -> tuple[random.Random, list]:
    """(`rnd`, [(shape, [linear positions]) ...]) for one grid kind of a recipe (3 lists, or `recipe['n_walks']`); the
    shapes are walked round-robin from a start that depends on the recipe, `rnd` is the stream the rest of the handling
    of these lists draws from"""
    rnd = recipe_rng(recipe, f'c05-walks:{kind}:')
    n_lists = recipe.get('n_walks', 3)
    if size < 1:
        return rnd, []
    first = rnd.randrange(len(SHAPES))
    out = []
    for k in range(n_lists):
        shape = SHAPES[(first + k) % len(SHAPES)]
        out.append((shape, walk(rnd, shape, size)))
    return rnd, out


def inside_point(q: list):
    """a point with dyadic coordinates strictly inside the corner v0 v1 v2 of the cell (inside the cell when the
    corner is convex; wherever it lies, the hit of the point is found by brute force by the caller)"""
    if len(q) == 4:
        return (sum(p[0] for p in q) / 4, sum(p[1] for p in q) / 4)
    a, b, c = q[0], q[1], q[2]
    return ((a[0] + 2 * b[0] + c[0]) / 4, (a[1] + 2 * b[1] + c[1]) / 4)


def tracks_for(recipe: dict, kept: list) -> tuple[random.Random, list]:
    """(`rnd`, [[(x, y) Fractions ...] ...]): tracks of points over the cells that have a polygon (`kept`: per linear
    face position a list of corners or None), one point inside each cell of a structured walk over those cells, with
    a point outside the model put in at a random place in some of them"""
    rnd = recipe_rng(recipe, 'c05-tracks:')
    n_tracks = recipe.get('n_tracks', 2)
    cells = [k for k, q in enumerate(kept) if q is not None]
    if not cells:
        return rnd, []
    xs = [p[0] for k in cells for p in kept[k]]
    ys = [p[1] for k in cells for p in kept[k]]
    first = rnd.randrange(len(SHAPES))
    out = []
    for t in range(n_tracks):
        shape = SHAPES[(first + t) % len(SHAPES)]
        pts = [inside_point(kept[cells[w]]) for w in walk(rnd, shape, len(cells))]
        if rnd.random() < 0.4:
            miss = (max(xs) + rnd.randint(1, 50), max(ys) + rnd.randint(1, 50))
            pts.insert(rnd.randrange(len(pts) + 1), miss)
        pts = [(Fraction(x), Fraction(y)) for x, y in pts]
        out.append(pts)
    return rnd, out


# ---------------------------------------------------------------------------------------------------------------------
# 2. datasets that share a source file

FILE_DTYPES = ('f8', 'f8', 'f4', 'i4', 'i8', 'M8')       # storage types a netCDF file returns as they were written
TOUCHES = ['select_point', 'select_points', 'extract_points', 'extract_dataframe', 'polygons', 'strtree',
           'get_index_for_point', 'examine', 'examine']
HOWS = {
    'derived': {'cf1d': ['flip0', 'flip1', 'flip01'], 'cf2d': ['flip0', 'flip1', 'flip01'],
                'shoc_simple': ['flip0', 'flip1', 'flip01'], 'shoc_standard': ['flip0', 'flip1', 'flip01']},
    'rewritten': {'cf1d': ['reverse-lat', 'reverse-lon', 'shift', 'transpose'],
                  'cf2d': ['shift-origin', 'negate-shear'], 'shoc_simple': ['shift-origin', 'negate-shear'],
                  'shoc_standard': ['shift-origin', 'negate-shear'],
                  'ugrid': ['rotate-faces', 'reverse-faces', 'shift-nodes']},
}


def random_file_history(rnd: random.Random, recipe: dict) -> dict:
    conv = recipe['conv']
    kind = rnd.choice(['derived', 'derived', 'rewritten', 'rewritten', 'rewritten', 'reopened', 'other-file'])
    if kind == 'derived' and conv not in HOWS['derived']:
        kind = 'rewritten'
    if kind in ('reopened',):
        how = 'same'
    else:
        how = rnd.choice(HOWS['derived' if kind == 'derived' else 'rewritten'][conv])
    return {'kind': kind, 'how': how, 'touch': rnd.choice(TOUCHES),
            'lazy': kind != 'rewritten' and rnd.random() < 0.5, 'back': rnd.random() < 0.5,
            'amount': [rnd.randint(1, 3), rnd.randint(-2, 3)]}


def rearranged_recipe(recipe: dict, how: str, amount) -> dict:
    """a recipe of the same convention with the same number of cells of the default grid, in another place or another
    arrangement; its `Built` is the ground truth of the rewritten file"""
    r = copy.deepcopy({k: v for k, v in recipe.items() if k != 'file_history'})
    dx, dy = amount
    if how == 'reverse-lat':
        r['lat'] = r['lat'][::-1]
    elif how == 'reverse-lon':
        r['lon'] = r['lon'][::-1]
    elif how == 'shift':
        r['lon'] = [v + dx for v in r['lon']]
        r['lat'] = [v + dy for v in r['lat']]
    elif how == 'transpose':
        r['lat'], r['lon'] = r['lon'], r['lat']
    elif how == 'shift-origin':
        ox, oy = r.get('origin', (0, 0))
        r['origin'] = [ox + dx, oy + dy]
    elif how == 'negate-shear':
        r['shear'] = [-v for v in r['shear']]
    elif how == 'rotate-faces':
        k = dx % len(r['faces'])
        r['faces'] = r['faces'][k:] + r['faces'][:k]
        if k == 0:
            r['faces'] = r['faces'][::-1]
    elif how == 'reverse-faces':
        r['faces'] = r['faces'][::-1]
    elif how == 'shift-nodes':
        r['nodes'] = [[x + 2 * dx, y + 2 * dy] for x, y in r['nodes']]
    else:
        raise ValueError(how)
    return r


def flipped(built: G.Built, how: str) -> G.Built:
    """the dataset with grid axis 0 / 1 / both put the other way round on every grid kind (`isel` with a reversed
    slice), and the ground truth rearranged the same way: cell (j, i) of the result is cell (ny-1-j, i) etc."""
    axes = {'flip0': [0], 'flip1': [1], 'flip01': [0, 1]}[how]
    sel = {}
    for _kind, (gdims, _gshape) in built.grids.items():
        for a in axes:
            sel[gdims[a]] = slice(None, None, -1)
    ds = built.ds.isel(sel)
    ny, nx = built.grids[built.default_kind][1]

    def src(j, i):
        return ((ny - 1 - j) if 0 in axes else j) * nx + ((nx - 1 - i) if 1 in axes else i)
    polys = [built.polys[src(j, i)] for j in range(ny) for i in range(nx)]
    centres = [built.centres[src(j, i)] for j in range(ny) for i in range(nx)]
    out = G.Built(built.recipe, ds, built.conv, dict(built.grids), built.default_kind, polys, centres)
    out.vars = dict(built.vars)
    out.extra = {k: v for k, v in built.extra.items() if k in ('geom_names', 'names')}
    return out


class Workdir:
    """a scratch directory for the files of one history; everything opened through it is closed, and the directory
    removed, at the end"""
    def __init__(self):
        self.dir = None
        self.opened = []

    def __enter__(self):
        self.dir = tempfile.mkdtemp(prefix='verifc05x6')
        return self

    def path(self, name: str) -> str:
        return os.path.join(self.dir, name)

    def write_and_open(self, recipe: dict, path: str, lazy: bool) -> G.Built:
        """build the recipe, write the dataset to `path`, open it from there: `Built.ds` is the opened dataset
        (decoded as files are, `encoding['source']` = path), the ground truth is that of the recipe"""
        built = G.build({k: v for k, v in recipe.items() if k not in ('file_history', 'vary')})
        ds = built.ds.copy()
        for name in ds.variables:
            if '_FillValue' in ds[name].attrs:          # (xarray wants a fill value given as an encoding)
                ds[name].encoding['_FillValue'] = ds[name].attrs.pop('_FillValue')
        with warnings.catch_warnings():
            warnings.simplefilter('ignore')
            ds.to_netcdf(path)
            if lazy:
                got = xr.open_dataset(path)
                self.opened.append(got)
            else:
                with xr.open_dataset(path) as o:
                    got = o.load()
        built.ds = got
        return built

    def reopen(self, built: G.Built, path: str, lazy: bool) -> G.Built:
        with warnings.catch_warnings():
            warnings.simplefilter('ignore')
            if lazy:
                got = xr.open_dataset(path)
                self.opened.append(got)
            else:
                with xr.open_dataset(path) as o:
                    got = o.load()
        out = G.Built(built.recipe, got, built.conv, dict(built.grids), built.default_kind, built.polys, built.centres)
        out.vars = dict(built.vars)
        out.extra = dict(built.extra)
        return out

    def __exit__(self, *a):
        for ds in self.opened:
            try:
                ds.close()
            except Exception:  # noqa: BLE001
                pass
        shutil.rmtree(self.dir, ignore_errors=True)


def later_stage(wd: Workdir, recipe: dict, first: G.Built, path: str) -> G.Built:
    """the dataset under test of a file history, made after the earlier one (`first`, opened from `path`) was used"""
    fh = recipe['file_history']
    kind, how = fh['kind'], fh['how']
    if kind == 'derived':
        return flipped(first, how)
    if kind == 'reopened':
        return wd.reopen(first, path, fh['lazy'])
    other = rearranged_recipe(recipe, how, fh['amount'])
    return wd.write_and_open(other, path if kind == 'rewritten' else wd.path('other.nc'), fh['lazy'])


def touch(built: G.Built, conv, how: str) -> str:
    """what the earlier dataset is asked (not judged here; 'examine' is judged by the caller)"""
    import pandas
    import shapely
    from emsarray.operations import point_extraction
    cell = next((q for q in built.polys if q is not None), None)
    if cell is None:
        return 'nothing-to-ask'
    x, y = (float(v) for v in inside_point(cell))
    pt = shapely.Point(x, y)
    try:
        with warnings.catch_warnings():
            warnings.simplefilter('ignore')
            if how == 'select_point':
                conv.select_point(pt)
            elif how == 'select_points':
                conv.select_points([pt, pt], missing_points='drop')
            elif how == 'extract_points':
                point_extraction.extract_points(built.ds, [pt], missing_points='drop')
            elif how == 'extract_dataframe':
                point_extraction.extract_dataframe(built.ds, pandas.DataFrame({'lon': [x], 'lat': [y]}), ('lon', 'lat'),
                                                   missing_points='drop')
            elif how == 'polygons':
                len(conv.polygons)
            elif how == 'strtree':
                conv.strtree
            else:
                conv.get_index_for_point(pt)
        return 'done'
    except Exception as e:  # noqa: BLE001
        return f'raised {type(e).__name__}'


# ---------------------------------------------------------------------------------------------------------------------
# recipes of the sixth round

def random_file_recipe(rnd: random.Random, k: int, tier: str) -> dict:
    """a dataset of any convention that a netCDF file holds as it was written, with a file history"""
    conv = G.CONVS[k % len(G.CONVS)]
    kw = {'max_w': 3, 'max_h': 2, 'coords_as': 'vars'} if conv == 'ugrid' else {'max_n': 4}
    recipe = G.random_recipe(rnd, conv, tier, **kw)
    recipe = G.attach_vars(rnd, recipe, n_vars=3, max_extra=1, with_nan=True, dtypes=FILE_DTYPES)
    recipe['file_history'] = random_file_history(rnd, recipe)
    return recipe


def random_long_recipe(rnd: random.Random, k: int, tier: str) -> dict:
    """grids that are long in one direction (a channel, a coastal strip, a mesh of a few dozen faces): room for
    walks of any shape along them"""
    conv = ['ugrid', 'cf1d', 'ugrid', 'shoc_standard', 'ugrid', 'cf2d'][k % 6]
    if conv == 'ugrid':
        recipe = G.random_recipe(rnd, 'ugrid', tier, max_w=rnd.choice([5, 7]), max_h=rnd.choice([1, 2, 3]), coords_as='vars')
    else:
        recipe = G.random_recipe(rnd, conv, tier, max_n=9)
    recipe = G.attach_vars(rnd, recipe, n_vars=3, max_extra=1, with_nan=True,
                           dtypes=('f8', 'f4', 'i4', 'i8', 'i4fill', 'M8'))
    recipe['n_walks'], recipe['n_tracks'] = 6, 4          # more of the structured lists where there is room for them
    return recipe
