"""Exact (Fraction) clipping of a polyline against simple polygons, in path-parameter space.

A position on the path is `k + s`: vertex index k, fraction s of leg k.  Independent of GEOS:
used as ground truth for the pieces `polygon.intersection(line)` must return."""
from __future__ import annotations

from fractions import Fraction as F


def cross(o, a, b):
    return (a[0] - o[0]) * (b[1] - o[1]) - (a[1] - o[1]) * (b[0] - o[0])


def on_segment(p, a, b) -> bool:
    return cross(a, b, p) == 0 and min(a[0], b[0]) <= p[0] <= max(a[0], b[0]) and min(a[1], b[1]) <= p[1] <= max(a[1], b[1])


def point_in_poly(p, poly) -> bool:
    """closed point-in-polygon"""
    n = len(poly)
    inside = False
    for i in range(n):
        a, b = poly[i], poly[(i + 1) % n]
        if on_segment(p, a, b):
            return True
        if (a[1] > p[1]) != (b[1] > p[1]):
            t = (b[0] - a[0]) * (p[1] - a[1]) / (b[1] - a[1]) + a[0]
            if p[0] < t:
                inside = not inside
    return inside


def leg_params(a, b, poly) -> list:
    """parameters s in [0,1] where leg a->b meets an edge of poly (including overlaps' ends)"""
    out = {F(0), F(1)}
    d = (b[0] - a[0], b[1] - a[1])
    n = len(poly)
    for i in range(n):
        c, e = poly[i], poly[(i + 1) % n]
        f = (e[0] - c[0], e[1] - c[1])
        den = d[0] * f[1] - d[1] * f[0]
        if den != 0:
            s = ((c[0] - a[0]) * f[1] - (c[1] - a[1]) * f[0]) / F(den)
            u = ((c[0] - a[0]) * d[1] - (c[1] - a[1]) * d[0]) / F(den)
            if 0 <= s <= 1 and 0 <= u <= 1:
                out.add(s)
        elif cross(a, b, c) == 0:
            # collinear: project the edge's ends onto the leg
            for q in (c, e):
                if d[0] != 0:
                    s = F(q[0] - a[0]) / d[0]
                else:
                    s = F(q[1] - a[1]) / d[1]
                if 0 <= s <= 1:
                    out.add(s)
    return sorted(out)


def leg_boxes(path: list):
    """float bounding boxes of the legs of a path, for `clip(path, poly, boxes)`: computed once per path"""
    import numpy as np
    xs = np.array([float(p[0]) for p in path])
    ys = np.array([float(p[1]) for p in path])
    return (np.minimum(xs[:-1], xs[1:]), np.maximum(xs[:-1], xs[1:]), np.minimum(ys[:-1], ys[1:]), np.maximum(ys[:-1], ys[1:]))


def clip(path: list, poly: list, boxes=None) -> list:
    """maximal parameter intervals [(lo, hi)] (lo < hi) of the path inside the closed polygon.
    `boxes` (optional, `leg_boxes(path)`) only speeds the search up: legs whose float bounding box lies clearly (beyond any
    rounding of the conversion) outside the polygon's are not looked at; they would contribute nothing."""
    intervals = []
    # a leg whose bounding box does not meet the polygon's has no point in it (it would contribute nothing below)
    bx0, bx1 = min(p[0] for p in poly), max(p[0] for p in poly)
    by0, by1 = min(p[1] for p in poly), max(p[1] for p in poly)
    if boxes is not None and len(path) > 8:
        import numpy as np
        fx0, fx1, fy0, fy1 = float(bx0), float(bx1), float(by0), float(by1)
        e = 1e-9 * (1.0 + max(abs(fx0), abs(fx1), abs(fy0), abs(fy1)))
        minx, maxx, miny, maxy = boxes
        legs = np.nonzero((maxx >= fx0 - e) & (minx <= fx1 + e) & (maxy >= fy0 - e) & (miny <= fy1 + e))[0].tolist()
    else:
        legs = range(len(path) - 1)
    for k in legs:
        a, b = path[k], path[k + 1]
        if (a[0] < bx0 and b[0] < bx0) or (a[0] > bx1 and b[0] > bx1) or (a[1] < by0 and b[1] < by0) or (a[1] > by1 and b[1] > by1):
            continue
        ps = leg_params(a, b, poly)
        for s0, s1 in zip(ps, ps[1:]):
            m = (s0 + s1) / 2
            pm = (a[0] + (b[0] - a[0]) * m, a[1] + (b[1] - a[1]) * m)
            if point_in_poly(pm, poly):
                intervals.append((k + s0, k + s1))
    # join contiguous intervals
    out = []
    for lo, hi in sorted(intervals):
        if out and out[-1][1] == lo:
            out[-1] = (out[-1][0], hi)
        else:
            out.append((lo, hi))
    return out


def param_of(p, path) -> F | None:
    """path parameter of a point lying on the path (first leg containing it)"""
    for k in range(len(path) - 1):
        a, b = path[k], path[k + 1]
        if (p[0] < a[0] and p[0] < b[0]) or (p[0] > a[0] and p[0] > b[0]) or (p[1] < a[1] and p[1] < b[1]) or (p[1] > a[1] and p[1] > b[1]):
            continue        # outside the leg's bounding box (on_segment would say no after a cross product)
        if on_segment(p, a, b):
            if b[0] != a[0]:
                s = F(p[0] - a[0]) / (b[0] - a[0])
            else:
                s = F(p[1] - a[1]) / (b[1] - a[1])
            return k + s
    return None
