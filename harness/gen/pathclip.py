"""Exact (Fraction) clipping of a polyline against simple polygons, in path-parameter space.

A position on the path is `k + s`: vertex index k, fraction s of leg k.  Independent of GEOS:
used as ground truth for the pieces `polygon.intersection(line)` must return."""
from __future__ import annotations

from fractions import Fraction as F


def cross(o, a, b):
    return (a[0] - o[0]) * (b[1] - o[1]) - (a[1] - o[1]) * (b[0] - o[0])


def on_segment(p, a, b) -> bool:
    return cross(a, b, p) == 0 and min(a[0], b[0]) <= p[0] <= max(a[0], b[0]) and min(a[1], b[1]) <= p[1] <= max(a[1], b[1])


def point_in_poly(p, poly) -> bool:
    """closed point-in-polygon"""
    n = len(poly)
    inside = False
    for i in range(n):
        a, b = poly[i], poly[(i + 1) % n]
        if on_segment(p, a, b):
            return True
        if (a[1] > p[1]) != (b[1] > p[1]):
            t = (b[0] - a[0]) * (p[1] - a[1]) / (b[1] - a[1]) + a[0]
            if p[0] < t:
                inside = not inside
    return inside


def leg_params(a, b, poly) -> list:
    """parameters s in [0,1] where leg a->b meets an edge of poly (including overlaps' ends)"""
    out = {F(0), F(1)}
    d = (b[0] - a[0], b[1] - a[1])
    n = len(poly)
    for i in range(n):
        c, e = poly[i], poly[(i + 1) % n]
        f = (e[0] - c[0], e[1] - c[1])
        den = d[0] * f[1] - d[1] * f[0]
        if den != 0:
            s = ((c[0] - a[0]) * f[1] - (c[1] - a[1]) * f[0]) / F(den)
            u = ((c[0] - a[0]) * d[1] - (c[1] - a[1]) * d[0]) / F(den)
            if 0 <= s <= 1 and 0 <= u <= 1:
                out.add(s)
        elif cross(a, b, c) == 0:
            # collinear: project the edge's ends onto the leg
            for q in (c, e):
                if d[0] != 0:
                    s = F(q[0] - a[0]) / d[0]
                else:
                    s = F(q[1] - a[1]) / d[1]
                if 0 <= s <= 1:
                    out.add(s)
    return sorted(out)


def clip(path: list, poly: list) -> list:
    """maximal parameter intervals [(lo, hi)] (lo < hi) of the path inside the closed polygon"""
    intervals = []
    for k in range(len(path) - 1):
        a, b = path[k], path[k + 1]
        ps = leg_params(a, b, poly)
        for s0, s1 in zip(ps, ps[1:]):
            m = (s0 + s1) / 2
            pm = (a[0] + (b[0] - a[0]) * m, a[1] + (b[1] - a[1]) * m)
            if point_in_poly(pm, poly):
                intervals.append((k + s0, k + s1))
    # join contiguous intervals
    out = []
    for lo, hi in sorted(intervals):
        if out and out[-1][1] == lo:
            out[-1] = (out[-1][0], hi)
        else:
            out.append((lo, hi))
    return out


def param_of(p, path) -> F | None:
    """path parameter of a point lying on the path (first leg containing it)"""
    for k in range(len(path) - 1):
        a, b = path[k], path[k + 1]
        if on_segment(p, a, b):
            if b[0] != a[0]:
                s = F(p[0] - a[0]) / (b[0] - a[0])
            else:
                s = F(p[1] - a[1]) / (b[1] - a[1])
            return k + s
    return None
