"""Input classes of C04 (point lookup) added in round 6.  Everything is a plain function of a recipe of
`gen/datasets.py` plus a small JSON-able `extra6` dict, so a replay rebuilds the very same dataset / convention
object (`build_case`).

* `lead`     — the ORDER in which the dataset lists its dimensions (`dataset.sizes`, what a netCDF file declares
               first) is part of how a dataset is held, not of what it says: a grid's (y, x) order comes from the
               convention, never from the order the dimensions happen to turn up in.  `with_leading_vars` rebuilds
               the dataset so that tagged data variables `cellno_<kind>` come first, their dimensions in a drawn
               permutation (x-major storage, `temp(lon, lat)`), for a drawn sequence of grid kinds; every other
               variable follows unchanged.  The value of `cellno_<kind>` at the cell whose row-major linear index is
               n is n (ground truth by construction), so "selecting the point yields the data of that cell" can be
               judged without any index of emsarray's.
* `history`  — questions put to the SAME convention object before the first lookup: winding linear indexes and
               ravelling native indexes of every grid kind (the kinds in a drawn order, the other kinds' indexes
               included), selecting by an index of another grid kind.  A lookup says which cell contains the point;
               what the object was asked earlier has no say.
* `equal_sizes_mesh` — a representation class of multi-grid datasets: two grid kinds of the same shape (a UGRID mesh
               with as many faces as nodes: a W x H node lattice whose squares are partly split in two triangles).
               Grid kinds are told apart by their kind, never by their shape.
"""
from __future__ import annotations

import copy
import random
from fractions import Fraction

import numpy as np
import xarray as xr

F = Fraction


def unravel(n: int, shape) -> tuple:
    """row-major position of the n-th cell, computed here (not by numpy, emsarray or the model)"""
    out = []
    for s in reversed(shape):
        n, r = divmod(n, s)
        out.append(r)
    return tuple(reversed(out))


def size_of(shape) -> int:
    n = 1
    for s in shape:
        n *= s
    return n


def expected_native(built, kind: str, n: int) -> str:
    """canonical `kind:j,i` of the cell with row-major linear index n of grid `kind` (generator's ground truth)"""
    return f'{kind}:' + ','.join(map(str, unravel(n, built.grids[kind][1])))


# -- the order in which the dataset lists its dimensions ----------------------------------------------------------------

def draw_lead(rng: random.Random, grids: dict, default_kind: str) -> list:
    """-> [[kind, [dims in stored order]], …]: the leading tagged variables.  The default (face) kind always has
    one; its dimension order is a drawn permutation that is not the identity whenever the grid has two dimensions
    (every other round reversed = x-major); the other kinds join with probability 1/2, in a drawn sequence."""
    kinds = [k for k in grids if k != default_kind and rng.random() < 0.5]
    kinds.append(default_kind)
    rng.shuffle(kinds)
    lead = []
    for k in kinds:
        dims = list(grids[k][0])
        if len(dims) > 1 and (k == default_kind or rng.random() < 0.5):
            dims = dims[::-1]
        lead.append([k, dims])
    return lead


def with_leading_vars(built, lead: list) -> None:
    """Rebuild `built.ds`: the variables `cellno_<kind>` of `lead` first (so the dataset lists their dimensions
    first, in their stored order), then every variable of the dataset as it was (coordinates stay coordinates).
    Records the variable names in `built.extra['cellno']`."""
    ds = built.ds
    first = {}
    names = {}
    for kind, dims in lead:
        gdims, shape = built.grids[kind]
        assert sorted(dims) == sorted(gdims), (dims, gdims)
        da = xr.DataArray(np.arange(size_of(shape), dtype='i8').reshape(shape), dims=list(gdims))
        name = f'cellno_{kind}'
        first[name] = da.transpose(*dims)
        names[kind] = name
    new = xr.Dataset(first, attrs=dict(ds.attrs))
    new = new.assign_coords({k: ds.coords[k].variable for k in ds.coords})
    for k in ds.data_vars:
        new[k] = ds[k].variable
    new.encoding = dict(ds.encoding)
    want = [d for _, dims in lead for d in dims]
    got = [d for d in new.sizes if d in want]
    seen = []
    for d in want:
        if d not in seen:
            seen.append(d)
    assert got == seen, (got, seen)
    built.ds = new
    built.extra = {**built.extra, 'cellno': names}


# -- grid kinds of coinciding shape ------------------------------------------------------------------------------------

_LATTICES = [(4, 3), (3, 4), (4, 4), (5, 3), (3, 5), (5, 4), (4, 5)]


def equal_sizes_mesh(rng: random.Random) -> dict:
    """UGRID recipe with as many faces as nodes: a W x H lattice of nodes (W*H nodes, S = (W-1)(H-1) squares), of
    whose squares W + H - 1 are split into two triangles along a drawn diagonal; sheared, faces and nodes numbered
    in a drawn order, either winding, any start vertex."""
    W, H = rng.choice(_LATTICES)
    squares = [(j, i) for j in range(H - 1) for i in range(W - 1)]
    split = set(rng.sample(squares, W + H - 1))
    while True:
        a, b, c, d = (rng.randint(-2, 2) for _ in range(4))
        if a * d - b * c != 0:
            break
    if rng.random() < 0.4:
        a, b, c, d = 1, 0, 0, 1
    order = list(range(W * H))
    rng.shuffle(order)

    def nid(j, i):
        return order[j * W + i]
    nodes = [None] * (W * H)
    for j in range(H):
        for i in range(W):
            x, y = 2 * i, 2 * j
            nodes[nid(j, i)] = [a * x + b * y, c * x + d * y]
    faces = []
    for (j, i) in squares:
        q = [nid(j, i), nid(j, i + 1), nid(j + 1, i + 1), nid(j + 1, i)]
        if (j, i) in split:
            if rng.random() < 0.5:
                faces += [[q[0], q[1], q[2]], [q[0], q[2], q[3]]]
            else:
                faces += [[q[0], q[1], q[3]], [q[1], q[2], q[3]]]
        else:
            faces.append(q)
    for k, f in enumerate(faces):
        if rng.random() < 0.4:
            f = f[::-1]
        s = rng.randrange(len(f))
        faces[k] = f[s:] + f[:s]
    rng.shuffle(faces)
    assert len(faces) == len(nodes)
    enc = {
        'start_index': rng.choice([0, 1]),
        'fill': rng.choice(['attr', 'nan']),
        'fill_spec': 'i4big',
        'transposed': rng.random() < 0.3,
        'tables': rng.choice([[], [], ['edge_node'], ['edge_node', 'face_edge']]),
        'edge_dim_declared': rng.random() < 0.4,
        'coords_as': 'vars',
    }
    return {'conv': 'ugrid', 'nodes': nodes, 'faces': faces, 'enc': enc, 'equal_sizes': [W, H]}


# -- earlier questions to the same convention object --------------------------------------------------------------------

HISTORY_WHAT = ('wind', 'ravel', 'wind+ravel', 'wind+ravel+select')


def draw_history(rng: random.Random, grids: dict, default_kind: str, rnd: int, k: int) -> dict:
    """the history of the k-th case (round `rnd` of its convention): which questions (walked by k), the grid kinds
    in a drawn order — on the even rounds the other kinds only, so what is remembered about a linear index was said
    of another grid"""
    kinds = list(grids)
    rng.shuffle(kinds)
    if rnd % 2 == 0 and len(kinds) > 1:
        kinds = [x for x in kinds if x != default_kind]
    return {'what': HISTORY_WHAT[k % len(HISTORY_WHAT)], 'kinds': kinds, 'cap': 48}


def history_ops(built, hist: dict) -> list:
    """-> [(op, kind, arg)]: `wind` a linear index, `ravel` / `select` a native index (components), all in range"""
    ops = []
    what = hist['what'].split('+')
    for kind in hist['kinds']:
        if kind not in built.grids:
            continue
        shape = built.grids[kind][1]
        size = min(size_of(shape), hist.get('cap', 48))
        if 'wind' in what:
            ops += [('wind', kind, n) for n in range(size)]
        if 'ravel' in what:
            ops += [('ravel', kind, list(unravel(n, shape))) for n in range(size)]
        if 'select' in what and size:
            ops += [('select', kind, list(unravel(n, shape))) for n in sorted({0, size - 1})]
    return ops


def play_history(conv, built, hist: dict, native_str) -> list:
    """puts the questions; -> [(op, kind, arg, canonical answer)] (`ERR` when the call raised)"""
    kind_objs = {k.value: k for k in type(next(iter(conv.grid_kinds)))}
    out = []
    for op, kind, arg in history_ops(built, hist):
        ko = kind_objs.get(kind, kind)
        try:
            if op == 'wind':
                ans = native_str(built.conv, conv.wind_index(arg, grid_kind=ko))
            else:
                native = tuple(arg) if built.conv in ('cf1d', 'cf2d', 'shoc_simple') else (ko, *arg)
                if op == 'ravel':
                    ans = str(int(conv.ravel_index(native)))
                else:
                    conv.select_index(native)
                    ans = 'ok'
        except Exception as e:  # noqa: BLE001
            ans = f'ERR {type(e).__name__}'
        out.append((op, kind, arg, ans))
    return out


def build_case(G, recipe: dict, extra6: dict, native_str):
    """-> (built, convention, answers of the history).  Deterministic: run and replay both call exactly this."""
    built = G.build(recipe)
    if extra6.get('lead'):
        with_leading_vars(built, extra6['lead'])
    conv = G.bind(built)
    answers = play_history(conv, built, extra6['history'], native_str) if extra6.get('history') else []
    return built, conv, answers


def session_line(built, answers: list, lookup_tail: str) -> tuple:
    """the driver line `session <grids> <default> <q;q;…> <rings> <pt> <hits>` for the questions that have a
    model-side meaning (wind / ravel) followed by the lookup, and the implementation's answers to them joined
    with `;` (the lookup's answer is appended by the caller)."""
    qs, outs = [], []
    for op, kind, arg, ans in answers:
        if op == 'wind':
            qs.append(f'w:{kind}:{arg}')
        elif op == 'ravel':
            qs.append(f"r:{kind}:{','.join(map(str, arg))}")
        else:
            continue
        outs.append('ERR' if ans.startswith('ERR') else ans)
    return f"session {built.grids_spec()} {built.default_kind} {';'.join(qs) or '-'} {lookup_tail}", outs
