"""
Depth-axis generator for C12 / C13, building on `harness.gen.datasets`.

A recipe is `{'base': <datasets recipe>, 'depth': <spec>}`; `build(recipe)` returns a
`DBuilt` with the xarray dataset and the *model view* of it (`mvars`, `sizes`), which is
computed from the recipe / from the numpy arrays the generator itself makes — never read
back through emsarray.

spec = {
  'time':  None | {'name', 'dim', 'n', 'kind': 'datetime'|'plain'},
  'axes':  [ {'dim', 'n', 'coords': [coord, ...]} ],
  'vars':  [ var, ... ],                      # in insertion order
  'bounds_last': bool,                        # bounds variables after / before the data variables
}
coord = {'name', 'as': 'coord'|'var', 'positive': None|str, 'marker': {attr: value},
         'values': [int, ...]   (stored order; strictly monotonic in the valid stream),
         'bounds': None|'var'|'coord', 'extra': {attr: value}}
var   = {'name', 'kind': grid kind|None, 'axis': depth dim|None, 'time': bool, 'spare': bool,
         'order': permutation|None, 'base': int, 'dtype': 'f8'|'i4',
         'wet': [per column count of wet layers, C order over the grid (x spare)],
         'gaps': [[column, physical rank], ...]      valid layers blanked inside the water column,
         'tvar': [[t, column, physical rank], ...]    extra blanks at one time index only (non-static)}
Physical rank 0 is the shallowest layer.  Canonical dimension order of a variable is
(time, depth, *grid dims, spare); the tag of a cell is `base` + its C-order position there.
"""
from __future__ import annotations

import hashlib
import itertools
import random
from dataclasses import dataclass, field
from fractions import Fraction

import numpy as np
import xarray as xr

from harness.gen import datasets as G

CONVS = G.CONVS
SPARE = ('spare', 2)

SHOC_STANDARD_NAMES = [('z_centre', 'k_centre'), ('z_grid', 'k_grid'),
                       ('z_centre_sed', 'k_centre_sed'), ('z_grid_sed', 'k_grid_sed')]
SHOC_SIMPLE_NAMES = [('zc', 'k'), ('zcsed', 'ksed')]
CF_NAMES = [('depth', 'depth'), ('zlev', 'kz'), ('lev', 'lev'), ('zsoil', 'ks')]
MARKERS = [{'axis': 'Z'}, {'cartesian_axis': 'Z'}, {'coordinate_type': 'Z'}, {'standard_name': 'depth'}]
TIME_NAME = {'shoc_standard': 't', 'shoc_simple': 'time'}


@dataclass
class MVar:
    """what the Lean model is told about one variable"""
    name: str
    dims: tuple
    data: list            # flat C order, Fraction or None
    positive: str | None
    bounds: str | None
    is_coord: bool
    extra: str


@dataclass
class DBuilt:
    recipe: dict
    base: G.Built
    ds: xr.Dataset
    sizes: dict
    mvars: list
    coord_names: list                      # depth coordinates, in dataset variable order
    time_name: str | None
    truth: dict = field(default_factory=dict)

    @property
    def conv(self):
        return self.base.conv

    def convention(self, ds=None):
        """the convention instance for the dataset (instantiated directly: a dataset can be
        bound only once, and several instances are needed over a run)"""
        return self.base.conv_class(self.ds if ds is None else ds)


# ---------------------------------------------------------------------------------------
# canonical forms shared by generator and property modules

def attr_token(attrs: dict, encoding: dict | None = None) -> str:
    """short stable token of every attribute other than positive / bounds (+ the encoding)"""
    items = sorted((str(k), repr(_plain(v))) for k, v in attrs.items() if k not in ('positive', 'bounds'))
    enc = sorted((str(k), repr(_plain(v))) for k, v in (encoding or {}).items())
    if not items and not enc:
        return 'e'
    return 'h' + hashlib.blake2b(repr((items, enc)).encode(), digest_size=5).hexdigest()


def _plain(v):
    if isinstance(v, np.generic):
        return v.item()
    if isinstance(v, np.ndarray):
        return v.tolist()
    return v


def flat_values(arr: np.ndarray) -> list:
    """exact rationals of an array in C order; NaN / NaT -> None"""
    a = np.asarray(arr)
    if a.dtype.kind == 'M':
        a = a.astype('datetime64[s]').astype('int64')
    out = []
    for v in a.reshape(-1).tolist():
        if isinstance(v, float):
            out.append(None if v != v else Fraction(v))
        else:
            out.append(Fraction(int(v)))
    return out


def mvar_of(name: str, da: xr.DataArray, is_coord: bool) -> MVar:
    pos = da.attrs.get('positive')
    bnd = da.attrs.get('bounds')
    return MVar(str(name), tuple(str(d) for d in da.dims), flat_values(da.values),
                None if pos is None else str(pos), None if bnd is None else str(bnd),
                bool(is_coord), attr_token(da.attrs, da.encoding))


def model_view(ds: xr.Dataset) -> tuple[dict, list]:
    sizes = {str(k): int(v) for k, v in ds.sizes.items()}
    mv = [mvar_of(n, ds[n], n in ds.coords) for n in ds.variables]
    return sizes, mv


def rat(v) -> str:
    if v is None:
        return 'n'
    f = Fraction(v)
    return str(f.numerator) if f.denominator == 1 else f'{f.numerator}/{f.denominator}'


def mvar_str(m: MVar) -> str:
    return ';'.join([
        m.name, 'c' if m.is_coord else 'd', ','.join(m.dims) or '-',
        '-' if m.positive is None else m.positive, '-' if m.bounds is None else m.bounds,
        m.extra, ','.join(rat(v) for v in m.data) or '-'])


def dataset_str(sizes: dict, mvars: list, sort: bool = False) -> str:
    """`k=3,t=2|name;c;dims;positive;bounds;extra;data|...`; the model's input keeps the dataset's
    variable order (it decides which variable of a group is looked at first), outputs are sorted by name"""
    head = ','.join(f'{k}={v}' for k, v in sorted(sizes.items())) or '-'
    return '|'.join([head] + [mvar_str(m) for m in (sorted(mvars, key=lambda m: m.name) if sort else mvars)])


def dataset_line(ds: xr.Dataset) -> str:
    """canonical form of an output dataset"""
    return dataset_str(*model_view(ds), sort=True)


def safe_token(s: str | None) -> bool:
    return s is None or (s != '' and s != '-' and all(c.isalnum() or c in '_.' for c in s) and s.isascii())


# ---------------------------------------------------------------------------------------
# building

def _grid_of(base: G.Built, kind):
    dims, shape = base.grids[kind]
    return list(dims), list(shape)


def var_layout(base: G.Built, spec: dict, vr: dict):
    """canonical dims / sizes of a data variable"""
    dims, shape = [], []
    if vr.get('time') and spec.get('time'):
        dims.append(spec['time']['dim'])
        shape.append(spec['time']['n'])
    if vr.get('axis') is not None:
        ax = next(a for a in spec['axes'] if a['dim'] == vr['axis'])
        dims.append(ax['dim'])
        shape.append(ax['n'])
    if vr.get('kind') is not None:
        gd, gs = _grid_of(base, vr['kind'])
        dims += gd
        shape += gs
    if vr.get('spare'):
        dims.append(SPARE[0])
        shape.append(SPARE[1])
    return dims, shape


def coord_sign_down(c: dict) -> bool:
    """the sign convention of a coordinate: the attribute when spelled up/down,
    otherwise the majority rule (more than half of the values positive => down)"""
    if c.get('positive') is not None:
        return c['positive'] == 'down'
    vals = c['values']
    return sum(1 for v in vals if v > 0) * 2 > len(vals)


def physical_depths(c: dict) -> list:
    s = 1 if coord_sign_down(c) else -1
    return [s * v for v in c['values']]


def axis_ranks(ax: dict) -> list | None:
    """stored index -> physical rank (0 = shallowest) from the first coordinate of the axis;
    None if it is not strictly monotonic"""
    if not ax['coords']:
        return list(range(ax['n']))
    ph = physical_depths(ax['coords'][0])
    if all(a < b for a, b in zip(ph, ph[1:])):
        return list(range(len(ph)))
    if all(a > b for a, b in zip(ph, ph[1:])):
        return list(range(len(ph)))[::-1]
    return None


def var_array(base: G.Built, spec: dict, vr: dict) -> tuple[list, np.ndarray]:
    """(canonical dims, tagged array with NaN under the floor) of a data variable"""
    dims, shape = var_layout(base, spec, vr)
    n = int(np.prod(shape)) if shape else 1
    data = (np.arange(n, dtype='f8') + vr['base']).reshape(shape)
    if vr.get('axis') is not None and vr.get('dtype', 'f8') == 'f8':
        ax = next(a for a in spec['axes'] if a['dim'] == vr['axis'])
        ranks = axis_ranks(ax) or list(range(ax['n']))
        has_t = bool(vr.get('time') and spec.get('time'))
        nt = spec['time']['n'] if has_t else 1
        col_shape = shape[(2 if has_t else 1):]
        ncol = int(np.prod(col_shape)) if col_shape else 1
        wet = list(vr.get('wet') or [ax['n']] * ncol)
        wet = (wet + [ax['n']] * ncol)[:ncol]
        flat = data.reshape(nt, ax['n'], ncol)       # canonical order is (time, depth, columns...)
        for j in range(ax['n']):
            for c in range(ncol):
                if ranks[j] >= wet[c]:
                    flat[:, j, c] = np.nan
        for c, r in vr.get('gaps', []):
            if c < ncol and r < ax['n']:
                flat[:, ranks.index(r), c] = np.nan
        for t, c, r in vr.get('tvar', []):
            if c < ncol and r < ax['n'] and t < nt:
                flat[t, ranks.index(r), c] = np.nan
        data = flat.reshape(shape)
    if vr.get('dtype', 'f8') == 'i4':
        data = data.astype('i4')
    return dims, data


def bounds_values(values: list) -> np.ndarray:
    return np.array([[4 * v - 1, 4 * v + 1] for v in values], dtype='f8')


def build(recipe: dict) -> DBuilt:
    base = G.build(recipe['base'])
    spec = recipe['depth']
    ds = base.ds
    tspec = spec.get('time')
    time_name = None
    if tspec:
        time_name = tspec['name']
        if tspec.get('kind', 'datetime') == 'datetime':
            vals = (np.datetime64('2020-01-01', 'ns') + np.arange(tspec['n']) * np.timedelta64(1, 'D'))
            t = xr.DataArray(vals, dims=[tspec['dim']], attrs={'long_name': 'Time'})
            t.encoding['units'] = 'days since 1990-01-01 00:00:00 +10'
        else:
            t = xr.DataArray(np.arange(tspec['n'], dtype='f8'), dims=[tspec['dim']], attrs={'long_name': 'Time'})
        if tspec.get('as', 'coord') == 'coord' or tspec['name'] == tspec['dim']:
            ds = ds.assign_coords({tspec['name']: t})
        else:
            ds[tspec['name']] = t
    coord_names = []
    pending_bounds = []
    for ax in spec['axes']:
        for c in ax['coords']:
            attrs = {}
            attrs.update(c.get('extra', {'long_name': 'layer ' + c['name']}))
            attrs.update(c.get('marker', {}))
            if c.get('positive') is not None:
                attrs['positive'] = c['positive']
            if c.get('bounds'):
                attrs['bounds'] = c['name'] + '_bnds'
            dt = c.get('dtype', 'f8')
            da = xr.DataArray(np.array(c['values'], dtype=dt), dims=[ax['dim']], attrs=attrs)
            if c.get('encoding'):
                da.encoding.update(c['encoding'])
            if c.get('as', 'coord') == 'coord' or c['name'] == ax['dim']:
                ds = ds.assign_coords({c['name']: da})
            else:
                ds[c['name']] = da
            coord_names.append(c['name'])
            if c.get('bounds'):
                b = xr.DataArray(bounds_values(c['values']), dims=[ax['dim'], 'nv2'], attrs={'long_name': 'bounds of ' + c['name']})
                pending_bounds.append((c['name'] + '_bnds', b, c['bounds']))

    def add_bounds(ds):
        for name, b, how in pending_bounds:
            if how == 'coord':
                ds = ds.assign_coords({name: b})
            else:
                ds[name] = b
        return ds
    if not spec.get('bounds_last'):
        ds = add_bounds(ds)
    truth = {}
    for vr in spec['vars']:
        dims, data = var_array(base, spec, vr)
        order = vr.get('order')
        if order is not None and len(order) == len(dims):
            data = np.transpose(data, order)
            dims = [dims[k] for k in order]
        ds[vr['name']] = xr.DataArray(data, dims=dims, attrs=dict(vr.get('attrs', {'units': 'u_' + vr['name']})))
        truth[vr['name']] = vr
    if spec.get('bounds_last'):
        ds = add_bounds(ds)
    sizes, mv = model_view(ds)
    # dataset variable order decides the discovery order
    order_in_ds = [str(n) for n in ds.variables]
    coord_names = sorted(coord_names, key=order_in_ds.index)
    return DBuilt(recipe, base, ds, sizes, mv, coord_names, time_name, truth)


# ---------------------------------------------------------------------------------------
# random recipes

def base_recipe(rng: random.Random, conv: str, ny: int, nx: int) -> dict:
    if conv == 'cf1d':
        r = G.random_cf1d(rng)
        r['lat'] = G._axis(rng, max(ny, 2), rng.random() < 0.5)
        r['lon'] = G._axis(rng, max(nx, 2), rng.random() < 0.5)
        return r
    if conv in ('cf2d', 'shoc_simple'):
        r = G.random_cf2d(rng, conv, holes=False)
        r['ny'], r['nx'] = ny, nx
        return r
    if conv == 'shoc_standard':
        r = G.random_shoc_standard(rng, holes=False)
        r['ny'], r['nx'] = ny, nx
        return r
    return G.random_ugrid(rng, max_w=max(1, nx - 1), max_h=max(1, ny - 1), concave=False, midpoints=False,
                          drop=False, tables=[], fill='nan', transposed=False)


def monotone_values(rng: random.Random, n: int, *, negative_top: bool | None = None) -> list:
    """strictly increasing physical depths (integers); may start above the surface"""
    if negative_top is None:
        negative_top = rng.random() < 0.3
    v = rng.choice([-2, -1]) if negative_top else rng.choice([0, 1, 2])
    out = [v]
    for _ in range(n - 1):
        out.append(out[-1] + rng.choice([1, 2, 3]))
    return out


def random_coord(rng: random.Random, conv: str, name: str, dim: str, n: int, *, positive='random',
                 bounds='random', as_='random', deep_first: bool | None = None, up: bool | None = None) -> dict:
    phys = monotone_values(rng, n)
    if up is None:
        up = rng.random() < 0.5
    if deep_first is None:
        deep_first = rng.random() < 0.5
    vals = [(-v if up else v) for v in phys]
    if deep_first:
        vals = vals[::-1]
    if positive == 'random':
        positive = rng.choice([None, 'match', 'match', 'match'])
    if positive == 'match':
        positive = 'up' if up else 'down'
    c = {'name': name, 'values': vals, 'positive': positive}
    if conv in ('cf1d', 'cf2d', 'ugrid') and positive is None:
        c['marker'] = dict(rng.choice(MARKERS))
    elif rng.random() < 0.3:
        c['marker'] = dict(rng.choice(MARKERS))
    c['as'] = rng.choice(['coord', 'coord', 'var']) if as_ == 'random' else as_
    c['bounds'] = rng.choice([None, None, 'var', 'coord']) if bounds == 'random' else bounds
    if rng.random() < 0.3:
        c['encoding'] = {'dtype': 'float32'}
    c['dtype'] = rng.choice(['f8', 'f8', 'i8', 'f4'])
    return c


def name_pool(conv: str) -> list:
    if conv == 'shoc_standard':
        return SHOC_STANDARD_NAMES
    if conv == 'shoc_simple':
        return SHOC_SIMPLE_NAMES
    return CF_NAMES


def random_axes(rng: random.Random, conv: str, n_axes: int, n_levels, **kw) -> list:
    pool = list(name_pool(conv))
    rng.shuffle(pool)
    axes = []
    for (name, dim) in pool[:n_axes]:
        n = n_levels if isinstance(n_levels, int) else rng.choice(n_levels)
        dimcoord = rng.random() < 0.4
        d = name if dimcoord else dim
        axes.append({'dim': d, 'n': n, 'coords': [random_coord(rng, conv, name, d, n, **kw)]})
    return axes


def time_spec(rng: random.Random, conv: str, n: int | None = None) -> dict:
    name = TIME_NAME.get(conv, 'time')
    dim = rng.choice([name, 'record'])
    return {'name': name, 'dim': dim, 'n': n or rng.choice([1, 2]), 'kind': 'datetime'}


def grid_kinds(base: G.Built) -> list:
    return list(base.grids.keys())


def all_orders(nd: int) -> list:
    return [list(p) for p in itertools.permutations(range(nd))]


def depth_positions(nd: int, kcanon: int) -> list:
    """one permutation per position the depth dimension can take (the rest keep canonical order)"""
    out = []
    others = [k for k in range(nd) if k != kcanon]
    for pos in range(nd):
        p = list(others)
        p.insert(pos, kcanon)
        out.append(p)
    return out


# ---------------------------------------------------------------------------------------
# whole-dataset recipes

def expected_discovery(conv: str, base: G.Built, ds_order: list, metas: dict) -> list:
    """ground truth of `depth_coordinates` from what the generator put into the dataset:
    SHOC: the fixed names that exist, in the code's order; others: marked variables that are not
    on a grid, in dataset order.  `metas`: name -> (dims, attrs)"""
    if conv == 'shoc_standard':
        return [n for n, _ in SHOC_STANDARD_NAMES if n in metas]
    if conv == 'shoc_simple':
        return [n for n, _ in SHOC_SIMPLE_NAMES if n in metas]
    out = []
    for n in ds_order:
        dims, attrs = metas[n]
        marked = (str(attrs.get('positive', '')).lower() in ('up', 'down') or attrs.get('axis') == 'Z'
                  or attrs.get('cartesian_axis') == 'Z' or attrs.get('coordinate_type') == 'Z'
                  or attrs.get('standard_name') == 'depth')
        on_grid = any(set(gd) <= set(dims) for gd, _ in base.grids.values())
        if marked and not on_grid:
            out.append(n)
    return out


def group_vars(rng: random.Random, base: G.Built, spec: dict, ax: dict, kind, *, vbase: int,
               positions='all', wet=None, spare=False, dtype='f8') -> list:
    """Variables of one (depth axis, grid kind) group sharing one static floor `wet`:
    with a time dimension one variable per position of the depth dimension (`positions='all'`,
    the other dimensions in canonical or, for 'shuffled-all', random order) or one randomly
    ordered variable (`positions='random'`); plus one variable without the time dimension."""
    gs = int(np.prod(base.grids[kind][1])) * (SPARE[1] if spare else 1)
    if wet is None:
        wet = [rng.randint(0, ax['n']) for _ in range(gs)]
    proto = {'kind': kind, 'axis': ax['dim'], 'spare': spare, 'wet': list(wet), 'dtype': dtype}
    protos = []
    for has_t in ([True, False] if spec.get('time') else [False]):
        vr = dict(proto, time=has_t)
        dims, _ = var_layout(base, spec, vr)
        kc = dims.index(ax['dim'])
        if positions == 'random' or not has_t and spec.get('time'):
            o = list(range(len(dims)))
            rng.shuffle(o)
            perms = [o]
        else:
            perms = depth_positions(len(dims), kc)
            if positions == 'shuffled-all':
                shuffled = []
                for p in perms:
                    others = [x for x in p if x != kc]
                    rng.shuffle(others)
                    others.insert(p.index(kc), kc)
                    shuffled.append(others)
                perms = shuffled
        for p in perms:
            protos.append(dict(vr, order=p))
    rng.shuffle(protos)
    for k, vr in enumerate(protos):
        vr['name'] = f"v{vbase + k}_{kind}"
        vr['base'] = (vbase + k) * 1000
    return protos


def random_dataset(rng: random.Random, conv: str, *, ny=2, nx=3, n_axes=None, levels=(2, 3),
                   positions='all', kinds_per_axis=2, time='yes', bounds='random', positive='random',
                   as_='random', bounds_last=None, extra_vars=True, shared_dim=False) -> dict:
    base_r = base_recipe(rng, conv, ny, nx)
    base = G.build(base_r)
    pool = name_pool(conv)
    if n_axes is None:
        n_axes = rng.choice([1, 2, 2, 3])
    n_axes = min(n_axes, len(pool))
    axes = random_axes(rng, conv, n_axes, list(levels), bounds=bounds, positive=positive, as_=as_)
    if shared_dim and conv in ('cf1d', 'cf2d', 'ugrid') and axes:
        # a second, co-oriented coordinate on the first axis
        ax = axes[0]
        c0 = ax['coords'][0]
        ph = physical_depths(c0)
        up = rng.random() < 0.5
        c1 = {'name': 'aux_' + c0['name'], 'values': [(-v if up else v) for v in ph],
              'positive': 'up' if up else 'down', 'as': rng.choice(['coord', 'var']), 'bounds': None}
        ax['coords'].append(c1)
    spec = {'time': time_spec(rng, conv) if time == 'yes' else None, 'axes': axes, 'vars': [],
            'bounds_last': (rng.random() < 0.5) if bounds_last is None else bounds_last}
    kinds = grid_kinds(base)
    vb = 1
    for ax in axes:
        for kind in rng.sample(kinds, min(len(kinds), kinds_per_axis)):
            vs = group_vars(rng, base, spec, ax, kind, vbase=vb, positions=positions)
            spec['vars'] += vs
            vb += len(vs) + 1
    if extra_vars:
        spec['vars'].append({'name': 'surf', 'kind': kinds[0], 'axis': None, 'time': True, 'base': 770000})
        if axes and rng.random() < 0.5:
            spec['vars'].append({'name': 'profile', 'kind': None, 'axis': axes[0]['dim'], 'time': True, 'base': 880000})
        if rng.random() < 0.3:
            spec['vars'].append({'name': 'scalar0', 'kind': None, 'axis': None, 'time': False, 'base': 990000})
    rng.shuffle(spec['vars'])
    return {'base': base_r, 'depth': spec}


def metas_of(db: 'DBuilt') -> dict:
    return {str(n): (tuple(str(d) for d in db.ds[n].dims), dict(db.ds[n].attrs)) for n in db.ds.variables}


def discovery(db: 'DBuilt') -> list:
    return expected_discovery(db.conv, db.base, [str(n) for n in db.ds.variables], metas_of(db))


def meta_str(name: str, dims, attrs: dict) -> str:
    def f(k):
        v = attrs.get(k)
        return '-' if v is None else str(v)
    return ':'.join([name, '+'.join(dims) or '-', f('positive'), f('axis'), f('cartesian_axis'),
                     f('coordinate_type'), f('standard_name')])


def disc_line(db: 'DBuilt') -> str:
    metas = '/'.join(meta_str(n, d, a) for n, (d, a) in metas_of(db).items()) or '-'
    if db.conv == 'shoc_standard':
        return 'disc named ' + ','.join(n for n, _ in SHOC_STANDARD_NAMES) + ' ' + metas
    if db.conv == 'shoc_simple':
        return 'disc named ' + ','.join(n for n, _ in SHOC_SIMPLE_NAMES) + ' ' + metas
    grids = ','.join('+'.join(gd) for gd, _ in db.base.grids.values()) or '-'
    return f'disc generic {grids} {metas}'
