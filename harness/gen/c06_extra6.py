"""C06 — convention objects that are CONFIGURED through their constructor, and the datasets opened after them.

A dataset may carry more than one candidate set of coordinate variables on the same dimensions (a geographic node grid
and a projected one in metres, say).  The public constructors let a caller say which one a convention object is to use:

* `ArakawaC(dataset, coordinate_names={kind: (y, x), …})` — also on `ShocStandard`, the subclass whose names are hard
  coded on the class — with the kinds spelt as enum members or as their strings, the pairs as tuples or lists;
* `CFGrid1D / CFGrid2D / ShocSimple (dataset, latitude=…, longitude=…)` or `(dataset, topology=Topology(dataset,
  latitude=…, longitude=…))`.

Generated here: *histories* of such constructions in one process — datasets of one convention family, with or without a
second coordinate set (`recipe['alt']`), each opened the ordinary way (`Cls(dataset)`), through the accessor
(`dataset.ems`) or configured for its second coordinate set.  Ground truth: the second coordinate set is a full recipe of
`harness/gen/datasets.py` of its own (`alt['recipe']`, same grid size and dimensions); `G.build` of it gives the cells
a configured object has to describe, `G.build` of the main recipe the cells every other object has to describe.

Everything is written into plain dicts: `build_with_alt(recipe)` rebuilds the same dataset, `open_step` the same object.
Randomness: a stream of its own (`own_rng`), nothing is drawn from `ctx.rng`.
"""
from __future__ import annotations

import copy
import random

from harness.gen import datasets as G

FAMILIES = ['shoc_standard', 'cf1d', 'cf2d', 'shoc_simple']

# names of the second coordinate set: none of them carries a CF attribute, so the ordinary way of opening never sees them
SUFFIXES = ['_m', '_utm', '_proj', '2']
CF_ALT_NAMES = [('northing', 'easting'), ('y_m', 'x_m'), ('yp', 'xp'), ('lat2', 'lon2')]
ALT_ATTRS = {'units': 'm'}

SHOC_DEFAULT = {'face': ('y_centre', 'x_centre'), 'left': ('y_left', 'x_left'),
                'back': ('y_back', 'x_back'), 'node': ('y_grid', 'x_grid')}
KINDS = ['face', 'left', 'back', 'node']


def own_rng(seed, searching: bool = False) -> random.Random:
    return random.Random(f'{seed}:{int(searching)}:c06-extra6')


# --------------------------------------------------------------------------
# recipes

def _main_recipe(rng: random.Random, family: str, tier: str) -> dict:
    kw = {'coords_as': rng.choice(['coords', 'coords', 'vars'])}
    if family == 'cf1d':
        kw['bounds_as'] = rng.choice(['vars', 'vars', 'coords'])
        kw['bounds'] = rng.choice(['none', 'contig', 'gaps', 'overlap'])
    elif family in ('cf2d', 'shoc_simple'):
        kw['bounds_as'] = rng.choice(['vars', 'vars', 'coords'])
    return G.random_recipe(rng, family, tier, **kw)


def add_alt(rng: random.Random, recipe: dict) -> None:
    """Give the dataset of `recipe` a second coordinate set on the same dimensions (key `alt`)."""
    family = recipe['conv']
    a = copy.deepcopy({k: v for k, v in recipe.items() if k not in ('alt', 'vars', 'sizes_extra', 'vary')})
    alt: dict = {}
    if family == 'cf1d':
        latname, lonname = rng.choice([p for p in CF_ALT_NAMES
                                       if not set(p) & {recipe['ydim'], recipe['xdim'], recipe['latname'], recipe['lonname']}])
        a['lat'] = G._axis(rng, len(recipe['lat']), rng.random() < 0.5)
        a['lon'] = G._axis(rng, len(recipe['lon']), rng.random() < 0.5)
        a.update(latname=latname, lonname=lonname, lat_attrs=dict(ALT_ATTRS), lon_attrs=dict(ALT_ATTRS),
                 bounds=rng.choice(['none', 'contig', 'gaps', 'overlap']), bounds_as=rng.choice(['vars', 'coords']),
                 coords_as=rng.choice(['coords', 'vars']))
        for k in ('lat_dtype', 'lon_dtype', 'neg_zero'):
            a.pop(k, None)
    else:
        a['shear'] = G.random_shear(rng)
        a['origin'] = [rng.randint(-10, 10), rng.randint(-10, 10)]
        for k in ('twist', 'grow', 'moved_nodes', 'scale', 'holes', 'masked_nodes', 'x_transposed'):
            a.pop(k, None)
        a['coords_as'] = rng.choice(['coords', 'vars'])
        ny, nx = recipe['ny'], recipe['nx']
        if family == 'shoc_standard':
            if ny * nx >= 4 and rng.random() < 0.4:
                a['masked_nodes'] = [[rng.randint(0, ny), rng.randint(0, nx)]]
            kinds = [k for k in KINDS if rng.random() < 0.5]
            if rng.random() < 0.75 and 'node' not in kinds:
                kinds.append('node')
            alt['kinds'] = sorted(kinds or ['node'], key=KINDS.index)
            alt['suffix'] = rng.choice(SUFFIXES)
        else:
            latname, lonname = rng.choice([p for p in CF_ALT_NAMES
                                           if not set(p) & {recipe.get('latname'), recipe.get('lonname')}])
            a.update(latname=latname, lonname=lonname, bounds=rng.choice(['stored', 'none']),
                     bounds_as=rng.choice(['vars', 'coords']))
            if a['bounds'] == 'none':
                a['scale'] = 12       # derived corners average up to four centres: keeps every mean exact
            if ny * nx >= 4 and rng.random() < 0.4:
                a['holes'] = [[rng.randrange(ny), rng.randrange(nx)]]
    alt['recipe'] = a
    recipe['alt'] = alt


def alt_names(recipe: dict) -> dict:
    """what a configured object is told: shoc_standard -> {kind: [y, x]} (all four kinds), CF -> {'latitude', 'longitude'}"""
    alt = recipe['alt']
    if recipe['conv'] == 'shoc_standard':
        return {k: [n + (alt['suffix'] if k in alt['kinds'] else '') for n in SHOC_DEFAULT[k]] for k in KINDS}
    a = alt['recipe']
    return {'latitude': a['latname'], 'longitude': a['lonname']}


def random_history(rng: random.Random, family: str, tier: str = 'quick') -> dict:
    """Datasets of one convention family opened one after the other in one process.  Every history has an object
    configured for the second coordinate set of its dataset and, after it, a dataset opened without configuration."""
    n = rng.randint(3, 5)
    first_cfg = rng.randrange(n - 1)
    steps = []
    for k in range(n):
        recipe = _main_recipe(rng, family, tier)
        if k == first_cfg or (k < n - 1 and rng.random() < 0.25):
            how = 'configured'
        else:
            how = rng.choice(['default', 'default', 'accessor'])
        if how == 'configured' or rng.random() < 0.5:
            add_alt(rng, recipe)      # (later datasets of the same family often carry the same extra variables)
        step = {'recipe': recipe, 'open': how}
        if rng.random() < 0.2:
            step['read'] = 'late'     # constructed in its place, looked at only after everything else was constructed
        if how == 'configured':
            if family == 'shoc_standard':
                step['spelling'] = {'cls': rng.choice(['ShocStandard', 'ShocStandard', 'ArakawaC']),
                                    'keys': rng.choice(['enum', 'str']), 'pairs': rng.choice(['tuple', 'list'])}
            else:
                step['spelling'] = {'via': rng.choice(['names', 'topology'])}
        steps.append(step)
    # datasets of one model family name their extra variables alike: make half of the histories do so
    if rng.random() < 0.5:
        cfg = steps[first_cfg]['recipe']['alt']
        for s in steps:
            alt = s['recipe'].get('alt')
            if alt is None or s is steps[first_cfg]:
                continue
            if family == 'shoc_standard':
                alt['suffix'], alt['kinds'] = cfg['suffix'], list(cfg['kinds'])
            elif (not {cfg['recipe']['latname'], cfg['recipe']['lonname']}
                  & {s['recipe'].get(k) for k in ('ydim', 'xdim', 'latname', 'lonname')}):
                alt['recipe']['latname'], alt['recipe']['lonname'] = cfg['recipe']['latname'], cfg['recipe']['lonname']
    return {'family': family, 'steps': steps}


# --------------------------------------------------------------------------
# datasets and objects

def build_with_alt(recipe: dict):
    """-> (main, alt): `main` = G.build of the recipe, its dataset extended by the variables of the second coordinate
    set under their own names; `alt` = G.build of the second set's recipe (None without one)."""
    main = G.build({k: v for k, v in recipe.items() if k != 'alt'})
    main.recipe = recipe
    alt = recipe.get('alt')
    if alt is None:
        return main, None
    other = G.build(alt['recipe'])
    if recipe['conv'] == 'shoc_standard':
        rename = {n: n + alt['suffix'] for k in alt['kinds'] for n in SHOC_DEFAULT[k]}
    else:
        rename = {n: n for n in other.extra['geom_names']}
    ds = main.ds
    for old, new in rename.items():
        if new in ds.variables or new in ds.dims:
            raise ValueError(f'second coordinate set: name {new!r} is taken')
        var = other.ds.variables[old].copy(deep=True)
        attrs = dict(ALT_ATTRS)
        if 'bounds' in var.attrs:
            attrs['bounds'] = var.attrs['bounds']
        var.attrs = attrs
        if old in other.ds.coords:
            ds = ds.assign_coords({new: var})
        else:
            ds[new] = var
    main.ds = ds
    return main, other


def open_step(step: dict, main):
    """construct the convention object of a step on the dataset `main.ds`"""
    how = step['open']
    if how == 'default':
        return main.conv_class(main.ds)
    if how == 'accessor':
        return main.ds.ems
    names = alt_names(step['recipe'])
    sp = step.get('spelling', {})
    if main.conv == 'shoc_standard':
        from emsarray.conventions.arakawa_c import ArakawaC, ArakawaCGridKind
        cls = ArakawaC if sp.get('cls') == 'ArakawaC' else main.conv_class
        pair = tuple if sp.get('pairs', 'tuple') == 'tuple' else list
        key = ArakawaCGridKind if sp.get('keys', 'enum') == 'enum' else str
        return cls(main.ds, coordinate_names={key(k): pair(v) for k, v in names.items()})
    cls = main.conv_class
    if sp.get('via') == 'topology':
        return cls(main.ds, topology=cls.topology_class(main.ds, **names))
    return cls(main.ds, **names)


def truth_of(step: dict, main, alt):
    """the Built whose cells the object of this step has to describe"""
    if step['open'] != 'configured':
        return main
    if main.conv == 'shoc_standard' and 'node' not in step['recipe']['alt']['kinds']:
        return main
    return alt


def set_label(recipe: dict, which: str) -> str:
    """a name for a coordinate set of a dataset in the `opens` operation: the variables that carry the cells"""
    if recipe['conv'] == 'shoc_standard':
        y, x = SHOC_DEFAULT['node'] if which == 'main' else alt_names(recipe)['node']
        return f'{y}/{x}'
    if which == 'main':
        return 'cf-attributes'     # (found by their CF attributes, whatever they are called)
    a = recipe['alt']['recipe']
    return f"{a['latname']}/{a['lonname']}"
