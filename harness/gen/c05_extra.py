"""
Histories of calls on ONE dataset object, for C05 (selection).

The property speaks about "the values stored at those cells": the values the dataset holds *when the
selection is made*.  A dataset is a mutable object and the `.ems` accessor (hence the convention instance
and everything it keeps) lives as long as the dataset object does, so a selection that follows an in-place
edit (`ds['speed'] = …`, `ds['temp'] = ds['temp'] * 2 + 1`, `del ds['botz']`) must see the edit.

A *history* is a JSON-able dict stored in the recipe under the key `'history'` (the builders ignore it):

    {'warm':  which selection API is called once BEFORE the edits ('none' = no call),
     'at':    'start' = warm-up, edits, then every selection of the check
              'mid'   = warm-up, index selections, edits, then the point selections,
     'edits': [{'op': 'replace', 'var': recipe-of-the-variable-with-a-new-tag},
               {'op': 'add',     'var': recipe-of-a-new-variable},
               {'op': 'delete',  'name': …}]}

Every edit is made in place on `built.ds` through the same `_add_vars` the builders use, so the ground truth
(`built.vars`: tag base, missing positions, storage type) of the edited dataset is known by construction.

*Questions* are the second kind of history (recipe key `'queries'`): read-only public calls on the long-lived
convention made before or between the selections — the native index of a position of ANY grid of the dataset
(`wind_index(n, grid_kind=K)`, for one position or for a whole grid), its inverse, the shape of the grids, the grid
of a variable, a variable made linear and wound back, a selection on another grid.  None of them changes what the
dataset stores, so every selection that follows is judged exactly as on a dataset nobody asked anything of.

    {'at':   'start' = asked before the index selections, 'mid' = between index and point selections, 'both',
     'seed': the calls are drawn from `random.Random(seed)` once the grids are known (`ask`),
     'n':    number of questions per stage}
"""
from __future__ import annotations

import json
import random
import warnings
import zlib

import numpy as np

from harness.gen import datasets as G

WARMS = ['select_index', 'select_indexes', 'select_point', 'select_points', 'extract_points', 'extract_dataframe',
         'none']


def random_history(rng: random.Random, recipe: dict) -> dict:
    """Draw a history for a recipe that already carries its variables (`attach_vars`)."""
    live = {vr['name']: vr for vr in recipe.get('vars', [])}
    hist = {'warm': rng.choice(WARMS), 'at': rng.choice(['start', 'start', 'mid']), 'edits': []}
    for e in range(rng.randint(1, 3)):
        gridded = [vr for vr in live.values() if vr.get('kind') is not None]
        op = rng.choice(['replace', 'replace', 'add', 'add', 'delete'])
        if op != 'delete' and not gridded:
            op = 'delete'
        if op == 'delete':
            if not live:
                continue
            name = rng.choice(sorted(live))
            del live[name]
            hist['edits'].append({'op': 'delete', 'name': name})
            continue
        src = rng.choice(gridded)
        vr = {k: (list(v) if isinstance(v, list) else v) for k, v in src.items()}
        if op == 'replace':
            vr['base'] = src['base'] + 50000 + 1000 * e          # a tag no other variable carries
        else:
            vr['name'] = f'added{e}_{src["kind"]}'
            vr['base'] = 5000000 + 100000 * e
        if 'nan' in vr:
            vr['nan'] = sorted(rng.sample(range(40), rng.randint(0, 3)))
        live[vr['name']] = vr
        hist['edits'].append({'op': op, 'var': vr})
    return hist


def apply_edits(built: G.Built, hist: dict) -> None:
    """The in-place edits, on the dataset object the convention is bound to; `built.vars` follows."""
    ds = built.ds
    recipe = built.recipe
    chunk = (recipe.get('vary') or {}).get('chunk')
    for ed in hist.get('edits', []):
        if ed['op'] == 'delete':
            if ed['name'] in ds.variables:
                del ds[ed['name']]
            built.vars.pop(ed['name'], None)
            continue
        vr = ed['var']
        infos = G._add_vars(ds, built.grids, [vr], recipe.get('sizes_extra', {}))     # ds[name] = DataArray(...)
        if chunk:
            name = vr['name']
            ds[name] = ds[name].chunk({d: chunk for d in ds[name].dims})
        built.vars.update(infos)
    assert built.ds is ds


def warm_up(built: G.Built, conv, how: str, native) -> str:
    """One ordinary selection before the edits.  Its outcome is not judged here (the same calls are judged by the
    check on datasets without a history); whatever it raises is an outcome like any other."""
    import pandas
    import shapely
    from emsarray.operations import point_extraction
    if how == 'none':
        return 'none'
    try:
        if how in ('select_index', 'select_indexes'):
            for kind, (_gdims, gshape) in built.grids.items():
                if all(s > 0 for s in gshape):
                    idx = native(built, conv, kind, [0] * len(gshape))
                    conv.select_index(idx) if how == 'select_index' else conv.select_indexes([idx, idx])
                    return 'done'
            return 'nothing-to-select'
        cell = next((q for q in built.polys if q is not None), None)
        if cell is None:
            return 'nothing-to-select'
        x, y = float(cell[0][0]), float(cell[0][1])
        pt = shapely.Point(x, y)
        if how == 'select_point':
            conv.select_point(pt)
        elif how == 'select_points':
            conv.select_points([pt, pt], missing_points='drop')
        elif how == 'extract_points':
            point_extraction.extract_points(built.ds, [pt], missing_points='drop')
        else:
            point_extraction.extract_dataframe(built.ds, pandas.DataFrame({'lon': [x], 'lat': [y]}), ('lon', 'lat'),
                                               missing_points='drop')
        return 'done'
    except Exception as e:  # noqa: BLE001
        return f'raised {type(e).__name__}'


# ---- questions asked of the long-lived convention -------------------------------------------------------------------

CALLS = ['wind_index', 'wind_index', 'wind_index', 'wind_index', 'unravel_index', 'ravel_index', 'grid_shape', 'get_grid_kind',
         'ravel_wind', 'select_index', 'selector_for_index']


def derive_queries(recipe: dict, rate_percent: int = 60) -> dict | None:
    """The questions of a recipe, a function of the content of the recipe alone (no draw from the random stream of
    the check, so the datasets and requests of a given VERIF_SEED are the same with and without questions)."""
    h = zlib.crc32(json.dumps(recipe, sort_keys=True, default=str).encode())
    if h % 100 >= rate_percent:
        return None
    return {'at': ['start', 'mid', 'mid', 'both'][(h // 100) % 4], 'seed': h // 400, 'n': 2 + (h // 7) % 4}


def ask(built: G.Built, conv, spec: dict, stage: str) -> list[str]:
    """Ask the questions of one stage; returns what was asked (for messages).  The answers are not judged here
    (they are the business of C01 / C02); whatever a call raises is an outcome like any other."""
    rnd = random.Random(spec['seed'] * 2 + (1 if stage == 'mid' else 0))
    grids = [(k, dims, shape) for k, (dims, shape) in built.grids.items() if all(s > 0 for s in shape)]
    asked: list[str] = []
    if not grids:
        return asked
    try:
        kind_objs = {getattr(k, 'value', k): k for k in conv.grid_kinds}
    except Exception as e:  # noqa: BLE001
        return [f'grid_kinds raised {type(e).__name__}']
    ds = built.ds
    for _ in range(spec['n']):
        kind, gdims, gshape = rnd.choice(grids)
        size = int(np.prod(gshape))
        call = rnd.choice(CALLS)
        ko = kind_objs.get(kind)
        some = list(range(size)) if rnd.random() < 0.5 else [rnd.randrange(size) for _ in range(rnd.randint(1, 2))]
        leave_out = kind == built.default_kind and rnd.random() < 0.5       # the default grid need not be named
        try:
            with warnings.catch_warnings():
                warnings.simplefilter('ignore')
                if call in ('wind_index', 'unravel_index'):
                    fn = getattr(conv, call)
                    for n in some:
                        fn(n) if leave_out else fn(n, grid_kind=ko)
                    what = f"{call}({some[0] if len(some) == 1 else some}{'' if leave_out else ', grid_kind=' + kind})"
                elif call == 'ravel_index':
                    for n in some:
                        comps = [int(v) for v in np.unravel_index(n, gshape)]
                        conv.ravel_index(_native(built, ko, comps))
                    what = f'ravel_index({kind}: {len(some)} positions)'
                elif call == 'grid_shape':
                    dict(conv.grid_shape), dict(conv.grid_size), dict(conv.grid_dimensions)
                    what = 'grid_shape / grid_size / grid_dimensions'
                elif call == 'get_grid_kind':
                    names = [nm for nm, info in built.vars.items() if info.kind == kind and nm in ds]
                    if not names:
                        continue
                    conv.get_grid_kind(ds[rnd.choice(names)])
                    what = f'get_grid_kind({kind} variable)'
                elif call == 'ravel_wind':
                    names = [nm for nm, info in built.vars.items() if info.kind == kind and nm in ds]
                    if not names:
                        continue
                    flat = conv.ravel(ds[rnd.choice(names)])
                    conv.wind(flat, grid_kind=ko)
                    what = f'wind(ravel({kind} variable), grid_kind={kind})'
                elif call == 'select_index':
                    comps = [int(v) for v in np.unravel_index(some[0], gshape)]
                    conv.select_index(_native(built, ko, comps))
                    what = f'select_index({kind}:{comps})'
                else:
                    comps = [int(v) for v in np.unravel_index(some[0], gshape)]
                    conv.selector_for_index(_native(built, ko, comps))
                    what = f'selector_for_index({kind}:{comps})'
        except Exception as e:  # noqa: BLE001
            what = f'{call}({kind}) raised {type(e).__name__}'
        asked.append(what)
    return asked


def _native(built: G.Built, kind_obj, comps):
    if built.conv in ('cf1d', 'cf2d', 'shoc_simple'):
        return tuple(int(v) for v in comps)
    return (kind_obj, *[int(v) for v in comps])
