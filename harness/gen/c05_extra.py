"""
Histories of calls on ONE dataset object, for C05 (selection).

The property speaks about "the values stored at those cells": the values the dataset holds *when the
selection is made*.  A dataset is a mutable object and the `.ems` accessor (hence the convention instance
and everything it keeps) lives as long as the dataset object does, so a selection that follows an in-place
edit (`ds['speed'] = …`, `ds['temp'] = ds['temp'] * 2 + 1`, `del ds['botz']`) must see the edit.

A *history* is a JSON-able dict stored in the recipe under the key `'history'` (the builders ignore it):

    {'warm':  which selection API is called once BEFORE the edits ('none' = no call),
     'at':    'start' = warm-up, edits, then every selection of the check
              'mid'   = warm-up, index selections, edits, then the point selections,
     'edits': [{'op': 'replace', 'var': recipe-of-the-variable-with-a-new-tag},
               {'op': 'add',     'var': recipe-of-a-new-variable},
               {'op': 'delete',  'name': …}]}

Every edit is made in place on `built.ds` through the same `_add_vars` the builders use, so the ground truth
(`built.vars`: tag base, missing positions, storage type) of the edited dataset is known by construction.
"""
from __future__ import annotations

import random

from harness.gen import datasets as G

WARMS = ['select_index', 'select_indexes', 'select_point', 'select_points', 'extract_points', 'extract_dataframe',
         'none']


def random_history(rng: random.Random, recipe: dict) -> dict:
    """Draw a history for a recipe that already carries its variables (`attach_vars`)."""
    live = {vr['name']: vr for vr in recipe.get('vars', [])}
    hist = {'warm': rng.choice(WARMS), 'at': rng.choice(['start', 'start', 'mid']), 'edits': []}
    for e in range(rng.randint(1, 3)):
        gridded = [vr for vr in live.values() if vr.get('kind') is not None]
        op = rng.choice(['replace', 'replace', 'add', 'add', 'delete'])
        if op != 'delete' and not gridded:
            op = 'delete'
        if op == 'delete':
            if not live:
                continue
            name = rng.choice(sorted(live))
            del live[name]
            hist['edits'].append({'op': 'delete', 'name': name})
            continue
        src = rng.choice(gridded)
        vr = {k: (list(v) if isinstance(v, list) else v) for k, v in src.items()}
        if op == 'replace':
            vr['base'] = src['base'] + 50000 + 1000 * e          # a tag no other variable carries
        else:
            vr['name'] = f'added{e}_{src["kind"]}'
            vr['base'] = 5000000 + 100000 * e
        if 'nan' in vr:
            vr['nan'] = sorted(rng.sample(range(40), rng.randint(0, 3)))
        live[vr['name']] = vr
        hist['edits'].append({'op': op, 'var': vr})
    return hist


def apply_edits(built: G.Built, hist: dict) -> None:
    """The in-place edits, on the dataset object the convention is bound to; `built.vars` follows."""
    ds = built.ds
    recipe = built.recipe
    chunk = (recipe.get('vary') or {}).get('chunk')
    for ed in hist.get('edits', []):
        if ed['op'] == 'delete':
            if ed['name'] in ds.variables:
                del ds[ed['name']]
            built.vars.pop(ed['name'], None)
            continue
        vr = ed['var']
        infos = G._add_vars(ds, built.grids, [vr], recipe.get('sizes_extra', {}))     # ds[name] = DataArray(...)
        if chunk:
            name = vr['name']
            ds[name] = ds[name].chunk({d: chunk for d in ds[name].dims})
        built.vars.update(infos)
    assert built.ds is ds


def warm_up(built: G.Built, conv, how: str, native) -> str:
    """One ordinary selection before the edits.  Its outcome is not judged here (the same calls are judged by the
    check on datasets without a history); whatever it raises is an outcome like any other."""
    import pandas
    import shapely
    from emsarray.operations import point_extraction
    if how == 'none':
        return 'none'
    try:
        if how in ('select_index', 'select_indexes'):
            for kind, (_gdims, gshape) in built.grids.items():
                if all(s > 0 for s in gshape):
                    idx = native(built, conv, kind, [0] * len(gshape))
                    conv.select_index(idx) if how == 'select_index' else conv.select_indexes([idx, idx])
                    return 'done'
            return 'nothing-to-select'
        cell = next((q for q in built.polys if q is not None), None)
        if cell is None:
            return 'nothing-to-select'
        x, y = float(cell[0][0]), float(cell[0][1])
        pt = shapely.Point(x, y)
        if how == 'select_point':
            conv.select_point(pt)
        elif how == 'select_points':
            conv.select_points([pt, pt], missing_points='drop')
        elif how == 'extract_points':
            point_extraction.extract_points(built.ds, [pt], missing_points='drop')
        else:
            point_extraction.extract_dataframe(built.ds, pandas.DataFrame({'lon': [x], 'lat': [y]}), ('lon', 'lat'),
                                               missing_points='drop')
        return 'done'
    except Exception as e:  # noqa: BLE001
        return f'raised {type(e).__name__}'
