"""C06 — recipe variations on top of harness/gen/datasets.py.

* cells that do not tile their domain edge to edge: UGRID meshes with hanging nodes (a node in the middle of an
  edge that only one of the two neighbouring faces lists: locally refined meshes), CF 1-D bounds / CF 2-D corners
  that overlap the neighbouring cells (recipe keys `bounds='overlap'`, `grow`);
* the two axes of a CF 1-D grid stored in different types (integer / float32 / float64 in either direction), with
  values that are exact in the type that stores them and are NOT exact in the type of the other axis;
* probe lattices for the point set of the overall geometry.

Everything is written into the recipe (plain dict): `G.build(recipe)` rebuilds the same dataset.
"""
from __future__ import annotations

import random
from fractions import Fraction as F

# (longitude type, latitude type) — walked round-robin, 9 entries (coprime to the 4 axis directions)
DTYPE_PAIRS = [('f8', 'f8'), ('i4', 'f8'), ('f8', 'i4'), ('f4', 'f8'), ('f8', 'f4'), ('i2', 'f4'), ('f4', 'i8'),
               ('i8', 'f8'), ('i4', 'i2')]

# 5 / 2**30: exact in float64 next to any coordinate the generator makes, lost by float32
FINE = 5 * 2.0 ** -30


def storage_types(rng: random.Random, recipe: dict, u: int) -> None:
    """Give the two axes of a CF 1-D recipe their storage types (u = running number of the CF 1-D case).
    An integer axis with stored bounds is stretched by 4 (mostly), so that every stored bound is a whole number
    and the integer type is really used; a float64 axis next to a float32 one gets (half the time) a fine offset
    that float32 cannot hold.  The other axis keeps its half / quarter bounds."""
    lon_t, lat_t = DTYPE_PAIRS[u % len(DTYPE_PAIRS)]
    if (lon_t, lat_t) == ('f8', 'f8'):
        return
    recipe['lon_dtype'], recipe['lat_dtype'] = lon_t, lat_t
    stored = recipe.get('bounds', 'none') != 'none'
    for key, t, other in (('lon', lon_t, lat_t), ('lat', lat_t, lon_t)):
        if t[0] == 'i' and stored and rng.random() < 0.8:
            recipe[key] = [4 * v for v in recipe[key]]
        elif t == 'f8' and other == 'f4' and rng.random() < 0.6:
            recipe[key] = [v + FINE for v in recipe[key]]


def add_hanging_nodes(rng: random.Random, recipe: dict, count: int = 1) -> int:
    """Put a node in the middle of an edge shared by two faces and list it in ONE of them only (a hanging node:
    the other face keeps the whole edge).  The faces still cover the same region; they no longer match node for
    node along that edge.  Returns how many were added."""
    nodes, faces = recipe['nodes'], recipe['faces']
    added = 0
    for _ in range(count):
        owners: dict = {}
        for fi, f in enumerate(faces):
            for a, b in zip(f, f[1:] + f[:1]):
                owners.setdefault((min(a, b), max(a, b)), []).append(fi)
        inner = sorted((e, fs) for e, fs in owners.items() if len(fs) == 2 and any(len(faces[k]) < 8 for k in fs))
        if not inner:
            break
        (a, b), fs = rng.choice(inner)
        fi = rng.choice([k for k in fs if len(faces[k]) < 8])
        mid = []
        for c in (0, 1):
            s = nodes[a][c] + nodes[b][c]
            mid.append(s // 2 if (isinstance(s, int) and s % 2 == 0) else float(F(s) / 2))
        if any(F(n[0]) == F(mid[0]) and F(n[1]) == F(mid[1]) for n in nodes):
            break
        nodes.append(mid)
        m = len(nodes) - 1
        f = faces[fi]
        for k in range(len(f)):
            if {f[k], f[(k + 1) % len(f)]} == {a, b}:
                faces[fi] = f[:k + 1] + [m] + f[k + 1:]
                break
        added += 1
    if added:
        recipe['hanging'] = recipe.get('hanging', 0) + added
    return added


def probe_values(bnds: list, cap: int = 25) -> list:
    """coordinates worth probing along one axis: every stored bound, the middle of every stretch between two
    neighbouring bound values, and one value beyond either end; evenly thinned to `cap` values"""
    ends = sorted({F(x) for ab in bnds for x in ab})
    vals = [ends[0] - 1]
    for a, b in zip(ends, ends[1:]):
        vals += [a, (a + b) / 2]
    vals += [ends[-1], ends[-1] + 1]
    if len(vals) > cap:
        idx = sorted({(k * (len(vals) - 1)) // (cap - 1) for k in range(cap)})
        vals = [vals[k] for k in idx]
    return vals


# --------------------------------------------------------------------------
# self-intersecting cells for the conventions whose generator makes none

def move_node(rng: random.Random, recipe: dict) -> None:
    """SHOC standard: one node of the lattice displaced by two cells along one axis and half a cell along the other
    (recipe key `moved_nodes`, half-lattice units).  A face that has the node at the end it was moved away from now
    crosses itself (bow-tie); its other faces become irregular quadrilaterals overlapping their neighbours."""
    ny, nx = recipe['ny'], recipe['nx']
    j, i = rng.randint(0, ny), rng.randint(0, nx)
    along, across = rng.choice([2, -2]), rng.choice([1, -1]) * F(1, 2)
    dj, di = (along, across) if rng.random() < 0.5 else (across, along)
    recipe['moved_nodes'] = [[j, i, int(2 * (j + dj)), int(2 * (i + di))]]


def twist_face(rng: random.Random, recipe: dict) -> bool:
    """UGRID: two neighbouring nodes of one face (4 or more nodes) listed the other way round: the face's ring in listed
    order crosses itself.  The nodes and the other faces stay as they were; a swap that would give an edge a third
    face is not taken."""
    faces = recipe['faces']
    cands = [(k, a) for k, f in enumerate(faces) if len(f) >= 4 for a in range(len(f))]
    rng.shuffle(cands)
    for k, a in cands:
        f = list(faces[k])
        b = (a + 1) % len(f)
        f[a], f[b] = f[b], f[a]
        # the mesh stays a mesh: no edge with more than two faces (the edge tables have two columns)
        seen: dict = {}
        for g in faces[:k] + [f] + faces[k + 1:]:
            for u, v in zip(g, g[1:] + g[:1]):
                e = (min(u, v), max(u, v))
                seen[e] = seen.get(e, 0) + 1
        if max(seen.values()) <= 2:
            faces[k] = f
            break
    else:
        return False
    recipe['twisted_faces'] = recipe.get('twisted_faces', []) + [k]
    return True


# --------------------------------------------------------------------------
# the accessors of ONE convention object, read in a given order

ACCESSORS = ['mask', 'polygons', 'geometry', 'bounds', 'face_centres', 'strtree']


def read_history(rng: random.Random) -> list:
    """An order in which the cached accessors of one convention object are read: a permutation of all of them, half
    of the time with `mask` first (the one accessor that is derived from another one's result), followed by a second
    read of one of them (answered from the cache)."""
    order = ACCESSORS[:]
    rng.shuffle(order)
    if rng.random() < 0.5:
        order.remove('mask')
        order.insert(0, 'mask')
    return order + [rng.choice(ACCESSORS)]


def read_accessors(conv, reads: list):
    """Read the accessors of the convention object `conv` in the order `reads`.
    -> (first: name -> ('ok', value) | ('err', text) of the FIRST read of each accessor,
        again: [(name, ('ok', value) | ('err', text)), …] of the repeated reads,
        warned: an InvalidPolygonWarning was emitted at some point)"""
    import warnings
    from emsarray.exceptions import InvalidPolygonWarning
    first: dict = {}
    again: list = []
    with warnings.catch_warnings(record=True) as rec:
        warnings.simplefilter('always')
        for name in reads:
            try:
                got = ('ok', getattr(conv, name))
            except Exception as e:
                got = ('err', f'{type(e).__name__}: {e}')
            if name in first:
                again.append((name, got))
            else:
                first[name] = got
    warned = any(issubclass(w.category, InvalidPolygonWarning) for w in rec)
    return first, again, warned
