"""Extra input classes for C04 (point lookup), all expressed as plain edits of a recipe of `gen/datasets.py`
(so `G.build(recipe)` reproduces the dataset exactly in a replay) or as points derived from the ground truth.

* `place`            — where on the globe the dataset sits: translated in longitude so that it crosses 180 E written
                       in the 0..360 convention, lies wholly beyond 180 E, or lies around / beyond 180 W.
* `add_overlap_face` — a UGRID mesh one of whose faces is repeated, shifted by half its own diagonal: cell polygons
                       that overlap (legal: nothing in UGRID or emsarray forbids it, and the property speaks of
                       "the lowest-indexed intersecting cell" precisely because several may intersect).
* `touch_inside_points` — the points that lie ON the boundary of one cell and strictly INSIDE another one.
* `alias_points`     — other spellings a lenient lookup might take for a cell point: the longitude a full turn
                       away (x ± 360), the mirrored longitude, latitude and longitude exchanged.
* `hair_off_points`  — points that are NOT on a cell boundary but a hair (2^-30 / 2^-40 of a degree, exactly
                       representable) away from a vertex / an edge midpoint, to either side: just outside the hull,
                       or strictly inside one cell next to an edge / vertex it shares with other cells.  The property
                       says "contains or touches", not "is near".
* `shared_pair`      — a history of calls on ONE `xarray.Dataset` object: a first convention is constructed on it and
                       used for a lookup, then a second convention instance of the same class is constructed on the
                       same object and is the one examined.  `two-grids`: the object carries two grids under
                       different names (CF: `latitude=` / `longitude=` given explicitly); `replaced`: the geometry
                       variables of the object are overwritten in place (`ds[name] = …`) in between.  The lookup of a
                       convention speaks about that convention's own cells, whatever else was done with the dataset.
"""
from __future__ import annotations

import copy
import random
from fractions import Fraction

import numpy as np
import shapely

F = Fraction

# translations in longitude (degrees); all multiples of 12 so that the lattice scale of derived-bounds recipes
# (`scale` = 12) divides them
EAST = [180, 192, 204, 348]                # the dataset then reaches beyond 180 E (0..360 spelling)
ANYWHERE = [168, 180, 216, 360, -168, -180, -192, -360]


def place(recipe: dict, dx: int) -> dict:
    """the same dataset translated by `dx` degrees of longitude"""
    r = copy.deepcopy(recipe)
    conv = r['conv']
    if conv == 'cf1d':
        r['lon'] = [v + dx for v in r['lon']]
    elif conv in ('cf2d', 'shoc_simple', 'shoc_standard'):
        k = r.get('scale', 1)
        assert dx % k == 0
        o = list(r.get('origin', (0, 0)))
        o[0] += dx // k
        r['origin'] = o
    elif conv == 'ugrid':
        r['nodes'] = [[n[0] + dx, n[1]] for n in r['nodes']]
    else:
        raise ValueError(conv)
    r['placed'] = dx          # (documentation only: no builder reads it)
    return r


def add_overlap_face(rng: random.Random, recipe: dict) -> dict:
    """UGRID: every coordinate doubled (keeps them integral), then one face repeated on new nodes, shifted by half
    of the vector from its first vertex to its middle vertex; inserted at a random position of the face list, so
    the copy is sometimes the lower-indexed and sometimes the higher-indexed of the overlapping pair."""
    r = copy.deepcopy(recipe)
    nodes = [[2 * n[0], 2 * n[1]] for n in r['nodes']]
    faces = [list(f) for f in r['faces']]
    order = list(range(len(faces)))
    rng.shuffle(order)
    pos = rng.randrange(len(faces) + 1)
    for fi in order:
        f = faces[fi]
        a, b = nodes[f[0]], nodes[f[len(f) // 2]]
        t = ((b[0] - a[0]) // 2, (b[1] - a[1]) // 2)
        if t == (0, 0):
            continue
        new = []
        for n in f:
            new.append(len(nodes))
            nodes.append([nodes[n][0] + t[0], nodes[n][1] + t[1]])
        faces.insert(pos, new)
        r['overlap_face'] = [fi, pos]     # (documentation only)
        break
    r['nodes'], r['faces'] = nodes, faces
    r.pop('edges', None)
    return r


def _exact(p) -> bool:
    return F(float(p[0])) == p[0] and F(float(p[1])) == p[1]


def touch_inside_points(rng: random.Random, kept: list, n: int = 8) -> list:
    """Vertices and edge midpoints of the cells that lie on the boundary of (at least) one cell and in the interior
    of (at least) one other cell; up to `n` of them.  Found with GEOS on the ground-truth rings (exact: every
    coordinate is dyadic).  Empty for a dataset whose cells do not overlap."""
    cells = [(k, q) for k, q in enumerate(kept) if q is not None]
    if len(cells) < 2:
        return []
    cand = []
    seen = set()
    for _, q in cells:
        m = len(q)
        for i in range(m):
            a, b = q[i], q[(i + 1) % m]
            for p in (a, ((a[0] + b[0]) / 2, (a[1] + b[1]) / 2)):
                p = (F(p[0]), F(p[1]))
                if p not in seen and _exact(p):
                    seen.add(p)
                    cand.append(p)
    if not cand:
        return []
    polys = np.array([shapely.Polygon([(float(x), float(y)) for x, y in q]) for _, q in cells], dtype=object)
    pts = shapely.points(np.array([[float(x), float(y)] for x, y in cand]))
    inside = shapely.contains(polys[:, None], pts[None, :])
    touch = shapely.touches(polys[:, None], pts[None, :])
    good = [cand[j] for j in range(len(cand)) if inside[:, j].any() and touch[:, j].any()]
    if len(good) > n:
        good = rng.sample(good, n)
    return [(p[0], p[1], 'touch+inside') for p in good]


def alias_points(base: list) -> list:
    """`base`: (x, y, class) points of cells.  Other spellings of the first interior point and the first vertex."""
    out = []
    picked = []
    for want in (('interior', 'near-vertex'), ('vertex',)):
        for (x, y, cls) in base:
            if cls in want:
                picked.append((F(x), F(y)))
                break
    for (x, y) in picked:
        out.append((x + 360, y, 'lon+360'))
        out.append((x - 360, y, 'lon-360'))
    if picked:
        x, y = picked[0]
        out.append((-x, y, 'lon-mirrored'))
        out.append((y, x, 'lat-lon-swapped'))
    return out


# -- points a hair off the cell boundaries ---------------------------------------------------------------------------

HAIRS = (F(1, 2 ** 30), F(1, 2 ** 40))
_DIRS = ((1, 0), (0, 1), (1, 1), (1, -1))


def hair_off_points(rng: random.Random, kept: list, n_cells: int = 2) -> list:
    """For `n_cells` cells: one vertex and the midpoint of the edge that starts there, each displaced by a hair
    (2^-30 or 2^-40) to both sides, in a direction that is not along the edge.  Whether such a point is in a cell
    at all, and in which, is for the exact tests to say (ground truth / model); a tolerance has no say."""
    cells = [q for q in kept if q is not None]
    out = []
    for q in rng.sample(cells, min(len(cells), n_cells)):
        m = len(q)
        i = rng.randrange(m)
        a, b = q[i], q[(i + 1) % m]
        u = (b[0] - a[0], b[1] - a[1])
        dirs = [d for d in _DIRS if u[0] * d[1] - u[1] * d[0] != 0] or list(_DIRS)
        for p, what in ((a, 'vertex'), (((a[0] + b[0]) / 2, (a[1] + b[1]) / 2), 'edge')):
            e = rng.choice(HAIRS)
            d = rng.choice(dirs)
            for s in (1, -1):
                out.append((F(p[0]) + s * d[0] * e, F(p[1]) + s * d[1] * e, 'hair-off-' + what))
    return out


# -- several conventions on one dataset object -----------------------------------------------------------------------

TWO_GRID_CONVS = ('cf1d', 'cf2d')      # conventions whose constructor takes the coordinate names explicitly
_SECOND_NAMES = [('yu', 'xu', 'lat_u', 'lon_u'), ('lat_u', 'lon_u', 'lat_u', 'lon_u'), ('eta_u', 'xi_u', 'gphiu', 'glamu')]


def second_grid_names(rng: random.Random, recipe: dict) -> dict:
    """the same recipe under the names of a second (staggered) grid, disjoint from every name the generators use"""
    r = copy.deepcopy(recipe)
    names = rng.choice(_SECOND_NAMES if r['conv'] == 'cf1d' else [n for n in _SECOND_NAMES if n[0] != n[2]])
    r['ydim'], r['xdim'], r['latname'], r['lonname'] = names
    return r


def _explicit(built, ds):
    """the convention of `built`'s class on dataset object `ds`, coordinate names given explicitly"""
    n = built.extra['names']
    return built.conv_class(ds, latitude=n['lat'], longitude=n['lon'])


def _overwrite_in_place(ds, other) -> list:
    """`ds[name] = …` for every variable of `other` whose content differs; the dataset OBJECT stays the same"""
    done = []
    for name in other.variables:
        v = other.variables[name]
        if name in ds.variables and ds.variables[name].dims == v.dims and \
                np.array_equal(np.asarray(ds.variables[name].values), np.asarray(v.values), equal_nan=True):
            continue
        ds[name] = (v.dims, np.array(v.values), dict(v.attrs))
        done.append(name)
    return done


def shared_pair(G, recipe: dict, shared: dict):
    """-> (built, conv): `built` is the ground truth of `recipe`; `conv` is a convention instance for it that was
    constructed on a dataset object on which another convention instance (`shared['first']`) had been constructed and
    used for the lookups of `shared['warm']` before.  Deterministic: replays call exactly this."""
    first_b = G.build(shared['first'])
    built = G.build(recipe)
    mode = shared['mode']
    if mode == 'two-grids':
        import xarray as xr
        ds = xr.merge([first_b.ds, built.ds], combine_attrs='override')
        first = _explicit(first_b, ds)
        first.bind()
    elif mode == 'replaced':
        ds = first_b.ds
        first = G.bind(first_b)
    else:
        raise ValueError(mode)
    for (x, y) in shared.get('warm', []):
        first.get_index_for_point(shapely.Point(float(F(x)), float(F(y))))
    if mode == 'two-grids':
        conv = _explicit(built, ds)
    else:
        _overwrite_in_place(ds, built.ds)
        conv = built.conv_class(ds)
    assert conv.dataset is first.dataset
    built.ds = ds
    return built, conv


def warm_points(built) -> list:
    """two points to ask the first convention for: a vertex of its first cell with geometry, and a far point"""
    for q in built.polys:
        if q is not None:
            return [[str(F(q[0][0])), str(F(q[0][1]))], ['1000', '1000']]
    return [['1000', '1000']]
