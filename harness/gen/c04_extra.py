"""Extra input classes for C04 (point lookup), all expressed as plain edits of a recipe of `gen/datasets.py`
(so `G.build(recipe)` reproduces the dataset exactly in a replay) or as points derived from the ground truth.

* `place`            — where on the globe the dataset sits: translated in longitude so that it crosses 180 E written
                       in the 0..360 convention, lies wholly beyond 180 E, or lies around / beyond 180 W.
* `add_overlap_face` — a UGRID mesh one of whose faces is repeated, shifted by half its own diagonal: cell polygons
                       that overlap (legal: nothing in UGRID or emsarray forbids it, and the property speaks of
                       "the lowest-indexed intersecting cell" precisely because several may intersect).
* `touch_inside_points` — the points that lie ON the boundary of one cell and strictly INSIDE another one.
* `alias_points`     — other spellings a lenient lookup might take for a cell point: the longitude a full turn
                       away (x ± 360), the mirrored longitude, latitude and longitude exchanged.
"""
from __future__ import annotations

import copy
import random
from fractions import Fraction

import numpy as np
import shapely

F = Fraction

# translations in longitude (degrees); all multiples of 12 so that the lattice scale of derived-bounds recipes
# (`scale` = 12) divides them
EAST = [180, 192, 204, 348]                # the dataset then reaches beyond 180 E (0..360 spelling)
ANYWHERE = [168, 180, 216, 360, -168, -180, -192, -360]


def place(recipe: dict, dx: int) -> dict:
    """the same dataset translated by `dx` degrees of longitude"""
    r = copy.deepcopy(recipe)
    conv = r['conv']
    if conv == 'cf1d':
        r['lon'] = [v + dx for v in r['lon']]
    elif conv in ('cf2d', 'shoc_simple', 'shoc_standard'):
        k = r.get('scale', 1)
        assert dx % k == 0
        o = list(r.get('origin', (0, 0)))
        o[0] += dx // k
        r['origin'] = o
    elif conv == 'ugrid':
        r['nodes'] = [[n[0] + dx, n[1]] for n in r['nodes']]
    else:
        raise ValueError(conv)
    r['placed'] = dx          # (documentation only: no builder reads it)
    return r


def add_overlap_face(rng: random.Random, recipe: dict) -> dict:
    """UGRID: every coordinate doubled (keeps them integral), then one face repeated on new nodes, shifted by half
    of the vector from its first vertex to its middle vertex; inserted at a random position of the face list, so
    the copy is sometimes the lower-indexed and sometimes the higher-indexed of the overlapping pair."""
    r = copy.deepcopy(recipe)
    nodes = [[2 * n[0], 2 * n[1]] for n in r['nodes']]
    faces = [list(f) for f in r['faces']]
    order = list(range(len(faces)))
    rng.shuffle(order)
    pos = rng.randrange(len(faces) + 1)
    for fi in order:
        f = faces[fi]
        a, b = nodes[f[0]], nodes[f[len(f) // 2]]
        t = ((b[0] - a[0]) // 2, (b[1] - a[1]) // 2)
        if t == (0, 0):
            continue
        new = []
        for n in f:
            new.append(len(nodes))
            nodes.append([nodes[n][0] + t[0], nodes[n][1] + t[1]])
        faces.insert(pos, new)
        r['overlap_face'] = [fi, pos]     # (documentation only)
        break
    r['nodes'], r['faces'] = nodes, faces
    r.pop('edges', None)
    return r


def _exact(p) -> bool:
    return F(float(p[0])) == p[0] and F(float(p[1])) == p[1]


def touch_inside_points(rng: random.Random, kept: list, n: int = 8) -> list:
    """Vertices and edge midpoints of the cells that lie on the boundary of (at least) one cell and in the interior
    of (at least) one other cell; up to `n` of them.  Found with GEOS on the ground-truth rings (exact: every
    coordinate is dyadic).  Empty for a dataset whose cells do not overlap."""
    cells = [(k, q) for k, q in enumerate(kept) if q is not None]
    if len(cells) < 2:
        return []
    cand = []
    seen = set()
    for _, q in cells:
        m = len(q)
        for i in range(m):
            a, b = q[i], q[(i + 1) % m]
            for p in (a, ((a[0] + b[0]) / 2, (a[1] + b[1]) / 2)):
                p = (F(p[0]), F(p[1]))
                if p not in seen and _exact(p):
                    seen.add(p)
                    cand.append(p)
    if not cand:
        return []
    polys = np.array([shapely.Polygon([(float(x), float(y)) for x, y in q]) for _, q in cells], dtype=object)
    pts = shapely.points(np.array([[float(x), float(y)] for x, y in cand]))
    inside = shapely.contains(polys[:, None], pts[None, :])
    touch = shapely.touches(polys[:, None], pts[None, :])
    good = [cand[j] for j in range(len(cand)) if inside[:, j].any() and touch[:, j].any()]
    if len(good) > n:
        good = rng.sample(good, n)
    return [(p[0], p[1], 'touch+inside') for p in good]


def alias_points(base: list) -> list:
    """`base`: (x, y, class) points of cells.  Other spellings of the first interior point and the first vertex."""
    out = []
    picked = []
    for want in (('interior', 'near-vertex'), ('vertex',)):
        for (x, y, cls) in base:
            if cls in want:
                picked.append((F(x), F(y)))
                break
    for (x, y) in picked:
        out.append((x + 360, y, 'lon+360'))
        out.append((x - 360, y, 'lon-360'))
    if picked:
        x, y = picked[0]
        out.append((-x, y, 'lon-mirrored'))
        out.append((y, x, 'lat-lon-swapped'))
    return out
