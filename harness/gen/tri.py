"""
Polygon generators for C14 (triangulation): targeted single polygons with integer
coordinates, packed as disjoint faces of one UGRID mesh (recipe for
`harness.gen.datasets.build_ugrid`), so that the real code is always entered through
the public `triangulate_dataset(dataset)`.

Every generated polygon of the *valid* stream is simple (exact integer test below),
has no repeated vertex and non-zero area; it may be convex or concave, carry collinear
vertices, be wound either way and start at any vertex.  The *malformed* stream holds
rings that are not valid cells (repeated vertex, bow-tie, spike, pinch, zero area).
"""
from __future__ import annotations

import itertools
import random
from fractions import Fraction

# ---------------------------------------------------------------------------
# exact integer geometry (independent of shapely and of the Lean model)


def cross(o, a, b):
    return (a[0] - o[0]) * (b[1] - o[1]) - (a[1] - o[1]) * (b[0] - o[0])


def area2(poly) -> int:
    """twice the signed shoelace area"""
    n = len(poly)
    return sum(poly[k][0] * poly[(k + 1) % n][1] - poly[(k + 1) % n][0] * poly[k][1] for k in range(n))


def on_segment(a, b, q) -> bool:
    return cross(a, b, q) == 0 and min(a[0], b[0]) <= q[0] <= max(a[0], b[0]) \
        and min(a[1], b[1]) <= q[1] <= max(a[1], b[1])


def segments_meet(a, b, c, d) -> bool:
    """closed segments ab and cd have a common point"""
    d1, d2 = cross(a, b, c), cross(a, b, d)
    d3, d4 = cross(c, d, a), cross(c, d, b)
    if ((d1 > 0 and d2 < 0) or (d1 < 0 and d2 > 0)) and ((d3 > 0 and d4 < 0) or (d3 < 0 and d4 > 0)):
        return True
    return on_segment(a, b, c) or on_segment(a, b, d) or on_segment(c, d, a) or on_segment(c, d, b)


def is_simple(poly) -> bool:
    """simple closed polygon: >= 3 distinct vertices, non-zero area, non-adjacent edges
    disjoint, adjacent edges meet only in their shared vertex"""
    n = len(poly)
    if n < 3 or len(set(poly)) != n or area2(poly) == 0:
        return False
    for i in range(n):
        a, b = poly[i], poly[(i + 1) % n]
        c = poly[(i + 2) % n]
        # adjacent edges ab, bc must not fold back onto each other
        if cross(a, b, c) == 0 and (a[0] - b[0]) * (c[0] - b[0]) + (a[1] - b[1]) * (c[1] - b[1]) > 0:
            return False
        for j in range(i + 2, n):
            if i == 0 and j == n - 1:
                continue
            if segments_meet(a, b, poly[j], poly[(j + 1) % n]):
                return False
    return True


def drop_repeats(poly):
    """remove consecutive (cyclically) repeated vertices"""
    out = []
    for v in poly:
        if not out or out[-1] != v:
            out.append(v)
    while len(out) > 1 and out[0] == out[-1]:
        out.pop()
    return out


def is_valid_ring(poly) -> bool:
    """what GEOS `is_valid` says about the polygon with this exterior ring: repeated
    consecutive vertices are tolerated, everything else must be a simple ring of non-zero
    area.  `Convention.polygons` replaces invalid polygons by None."""
    return is_simple(drop_repeats(list(poly)))


def classify(poly) -> str:
    """convex | collinear (convex with flat vertices) | concave"""
    n = len(poly)
    turns = [cross(poly[k - 1], poly[k], poly[(k + 1) % n]) for k in range(n)]
    if all(t > 0 for t in turns) or all(t < 0 for t in turns):
        return 'convex'
    if all(t >= 0 for t in turns) or all(t <= 0 for t in turns):
        return 'collinear'
    return 'concave'


def n_reflex(poly) -> int:
    s = 1 if area2(poly) > 0 else -1
    n = len(poly)
    return sum(1 for k in range(n) if s * cross(poly[k - 1], poly[k], poly[(k + 1) % n]) < 0)


def hull(points):
    """strict convex hull (no collinear points), anticlockwise, monotone chain"""
    pts = sorted(set(points))
    if len(pts) < 3:
        return pts
    lo, up = [], []
    for p in pts:
        while len(lo) >= 2 and cross(lo[-2], lo[-1], p) <= 0:
            lo.pop()
        lo.append(p)
    for p in reversed(pts):
        while len(up) >= 2 and cross(up[-2], up[-1], p) <= 0:
            up.pop()
        up.append(p)
    return lo[:-1] + up[:-1]


# ---------------------------------------------------------------------------
# valid polygons

def convex_poly(rng: random.Random, n: int, span: int = 7):
    for _ in range(200):
        h = hull([(rng.randint(-span, span), rng.randint(-span, span)) for _ in range(3 * n + 4)])
        if len(h) >= n:
            keep = sorted(rng.sample(range(len(h)), n))
            p = [h[k] for k in keep]
            if is_simple(p):
                return p
    return [(0, 0), (4, 0), (0, 4)]


def _angle_key(d):
    # exact angular order of integer directions: half-plane then cross product
    import functools

    def half(v):
        return 0 if (v[1] > 0 or (v[1] == 0 and v[0] > 0)) else 1

    def cmp(u, v):
        if half(u) != half(v):
            return half(u) - half(v)
        c = u[0] * v[1] - u[1] * v[0]
        return -1 if c > 0 else (1 if c < 0 else 0)
    return functools.cmp_to_key(cmp)(d)


_DIRS = sorted({(dx, dy) for dx in range(-3, 4) for dy in range(-3, 4)
                if (dx, dy) != (0, 0) and __import__('math').gcd(dx, dy) == 1}, key=_angle_key)


def star_poly(rng: random.Random, n: int, rmax: int = 4):
    """star-shaped polygon around the origin: n directions in angular order, random radii;
    concave with probability growing with n, collinear triples occur"""
    for _ in range(500):
        ds = sorted(rng.sample(_DIRS, n), key=_angle_key)
        p = [(d[0] * r, d[1] * r) for d in ds for r in [rng.randint(1, rmax)]]
        if is_simple(p):
            return p
    return convex_poly(rng, n)


def untangled_poly(rng: random.Random, n: int, span: int = 4):
    """random lattice points joined in random order, crossings removed by 2-opt reversals;
    yields spirals, combs and other shapes a star generator cannot"""
    for _ in range(500):
        pts = set()
        while len(pts) < n:
            pts.add((rng.randint(0, span), rng.randint(0, span)))
        p = list(pts)
        rng.shuffle(p)
        for _ in range(60):
            changed = False
            for i in range(n):
                for j in range(i + 2, n):
                    if i == 0 and j == n - 1:
                        continue
                    a, b, c, d = p[i], p[(i + 1) % n], p[j], p[(j + 1) % n]
                    d1, d2 = cross(a, b, c), cross(a, b, d)
                    d3, d4 = cross(c, d, a), cross(c, d, b)
                    if d1 * d2 < 0 and d3 * d4 < 0:
                        p[i + 1:j + 1] = reversed(p[i + 1:j + 1])
                        changed = True
            if not changed:
                break
        if is_simple(p):
            return p
    return star_poly(rng, n)


TEMPLATES = {
    'dart': [(0, 0), (4, 2), (0, 4), (1, 2)],
    'chevron': [(0, 0), (2, 1), (4, 0), (2, 4)],
    'L': [(0, 0), (4, 0), (4, 2), (2, 2), (2, 4), (0, 4)],
    'L-mid': [(0, 0), (2, 0), (4, 0), (4, 2), (2, 2), (2, 4), (0, 4), (0, 2)],
    'T': [(0, 4), (0, 2), (2, 2), (2, 0), (4, 0), (4, 2), (6, 2), (6, 4)],
    'U': [(0, 0), (6, 0), (6, 4), (4, 4), (4, 2), (2, 2), (2, 4), (0, 4)],
    'stairs': [(0, 0), (6, 0), (6, 6), (4, 6), (4, 4), (2, 4), (2, 2), (0, 2)],
    'notch': [(0, 0), (3, 0), (4, 2), (5, 0), (8, 0), (8, 4), (0, 4)],
    'spiral': [(0, 0), (8, 0), (8, 8), (2, 8), (2, 4), (4, 4), (4, 6), (6, 6), (6, 2), (0, 2)],
    'comb': [(0, 0), (10, 0), (10, 4), (8, 4), (8, 2), (6, 2), (6, 4), (4, 4), (4, 2), (2, 2), (2, 4), (0, 4)],
    'plus': [(2, 0), (4, 0), (4, 2), (6, 2), (6, 4), (4, 4), (4, 6), (2, 6), (2, 4), (0, 4), (0, 2), (2, 2)],
    'arrow': [(0, 2), (4, 2), (4, 0), (8, 3), (4, 6), (4, 4), (0, 4)],
    'tri-mid3': [(0, 0), (2, 0), (4, 0), (2, 2), (0, 4), (0, 2)],
    'quad-mids': [(0, 0), (2, 0), (4, 0), (4, 2), (4, 4), (2, 4), (0, 4), (0, 2)],
    'sliver': [(0, 0), (8, 1), (0, 2), (6, 1)],
    'reflex-flat': [(0, 0), (4, 0), (4, 4), (3, 2), (2, 2), (1, 2), (0, 4)],
}

_UNIMODULAR = [(1, 0, 0, 1), (0, -1, 1, 0), (-1, 0, 0, -1), (0, 1, -1, 0),      # rotations
               (1, 1, 0, 1), (1, 0, 1, 1), (1, -1, 0, 1), (2, 1, 1, 1), (1, 2, 1, 1),
               (-1, 0, 0, 1), (1, 0, 0, -1), (0, 1, 1, 0), (1, 1, 0, -1)]       # reflections flip winding


def transform(rng: random.Random, poly, scale_ok: bool = True):
    a, b, c, d = rng.choice(_UNIMODULAR)
    k = rng.choice([1, 1, 2]) if scale_ok else 1
    return [(k * (a * x + b * y), k * (c * x + d * y)) for x, y in poly]


def with_collinear(rng: random.Random, poly, p_edge: float = 0.4):
    """double the coordinates and put the (now integer) midpoint on some edges"""
    q = [(2 * x, 2 * y) for x, y in poly]
    out = []
    n = len(q)
    for k in range(n):
        a, b = q[k], q[(k + 1) % n]
        out.append(a)
        if rng.random() < p_edge:
            out.append(((a[0] + b[0]) // 2, (a[1] + b[1]) // 2))
    if len(out) == len(q):
        a, b = q[0], q[1]
        out.insert(1, ((a[0] + b[0]) // 2, (a[1] + b[1]) // 2))
    return out


def variants(poly):
    """every rotation of the starting vertex, both windings"""
    n = len(poly)
    for p in (poly, poly[::-1]):
        for s in range(n):
            yield p[s:] + p[:s]


def lattice_polys(n: int, w: int = 3, h: int = 3):
    """EVERY simple polygon with n vertices on the w x h integer lattice, as vertex
    sequences (so every rotation and both windings of each are included)"""
    pts = [(x, y) for y in range(h) for x in range(w)]
    for seq in itertools.permutations(pts, n):
        if is_simple(list(seq)):
            yield list(seq)


def random_valid(rng: random.Random, max_n: int = 8):
    """one polygon of the valid stream, with its generator label"""
    c = rng.random()
    n = rng.randint(3, max_n)
    if c < 0.2:
        p, kind = convex_poly(rng, n), 'gen:convex'
    elif c < 0.35:
        m = rng.randint(3, max(3, max_n - 2))
        p = with_collinear(rng, convex_poly(rng, m))
        while len(p) > max_n and m > 3:
            m -= 1
            p = with_collinear(rng, convex_poly(rng, m), 0.3)
        kind = 'gen:convex+mid'
    elif c < 0.6:
        p, kind = star_poly(rng, max(4, n)), 'gen:star'
    elif c < 0.85:
        p, kind = untangled_poly(rng, max(4, n)), 'gen:untangled'
    else:
        names = [k for k, v in TEMPLATES.items() if len(v) <= max_n] or ['dart']
        name = rng.choice(names)
        p, kind = transform(rng, TEMPLATES[name]), 'gen:template'
    if rng.random() < 0.5:
        p = p[::-1]
    s = rng.randrange(len(p))
    p = p[s:] + p[:s]
    if not is_simple(p):
        p, kind = [(0, 0), (4, 0), (0, 4)], 'gen:fallback'
    return p, kind


# ---------------------------------------------------------------------------
# malformed rings (not valid cells)

def random_malformed(rng: random.Random):
    c = rng.randrange(7)
    if c == 0:      # repeated consecutive vertex
        p, _ = random_valid(rng, 6)
        k = rng.randrange(len(p))
        return p[:k + 1] + [p[k]] + p[k + 1:], 'bad:repeat'
    if c == 1:      # bow-tie: swap two neighbours of a convex polygon
        p = convex_poly(rng, rng.randint(4, 6))
        k = rng.randrange(len(p) - 1)
        p[k], p[k + 1] = p[k + 1], p[k]
        return p, 'bad:bowtie'
    if c == 2:      # all vertices on one line
        d = rng.choice([(1, 0), (0, 1), (1, 1), (2, 1)])
        ks = rng.sample(range(-4, 5), rng.randint(3, 5))
        return [(d[0] * k, d[1] * k) for k in ks], 'bad:line'
    if c == 3:      # spike: go out along an edge direction and straight back
        p = convex_poly(rng, rng.randint(3, 5))
        k = rng.randrange(len(p))
        a, b = p[k - 1], p[k]
        tip = (2 * b[0] - a[0], 2 * b[1] - a[1])
        return p[:k + 1] + [tip, p[k]] + p[k + 1:], 'bad:spike'
    if c == 4:      # pinch: a vertex sitting on a non-adjacent edge
        return transform(rng, [(0, 0), (4, 0), (4, 4), (2, 0), (0, 4)]), 'bad:pinch'
    if c == 5:      # non-consecutive repeated vertex (figure of eight through a vertex)
        return transform(rng, [(0, 0), (2, 2), (4, 0), (4, 4), (2, 2), (0, 4)]), 'bad:eight'
    # random order of random points (usually self-intersecting)
    n = rng.randint(4, 7)
    pts = set()
    while len(pts) < n:
        pts.add((rng.randint(0, 4), rng.randint(0, 4)))
    p = list(pts)
    rng.shuffle(p)
    return p, ('bad:random' if not is_simple(p) else 'gen:random-simple')


# ---------------------------------------------------------------------------
# packing polygons as disjoint faces of one UGRID mesh

def pack(polys: list, rng: random.Random | None = None, cols: int = 12, enc: dict | None = None,
         holes: bool = False) -> dict:
    """UGRID recipe whose face k is polys[k] translated into its own box of a grid of
    boxes.  Translation is by integers, so it changes no orientation predicate."""
    ext = 1
    for p in polys:
        xs, ys = [v[0] for v in p], [v[1] for v in p]
        ext = max(ext, max(xs) - min(xs), max(ys) - min(ys))
    pitch = ext + 3
    nodes, faces = [], []
    for k, p in enumerate(polys):
        ox = pitch * (k % cols) - min(v[0] for v in p)
        oy = pitch * (k // cols) - min(v[1] for v in p)
        ids = []
        local = {}
        for v in p:
            w = (v[0] + ox, v[1] + oy)
            # a repeated vertex of a malformed ring becomes a repeated node id
            if w not in local:
                local[w] = len(nodes)
                nodes.append([w[0], w[1]])
            ids.append(local[w])
        faces.append(ids)
    if enc is None:
        enc = {'start_index': 0, 'fill': 'nan'}
        if rng is not None:
            enc = {'start_index': rng.choice([0, 1]), 'fill': rng.choice(['nan', 'attr']),
                   'transposed': rng.random() < 0.2}
    return {'conv': 'ugrid', 'nodes': nodes, 'faces': faces, 'enc': enc}


def frac_poly(poly):
    return [(Fraction(x), Fraction(y)) for x, y in poly]
