"""Cross-check of the source translator `harness/trans_masking.py` (C08).

The terms generated from the source text of `emsarray.masking` (`lean/EmsModel/Gen/MaskingSrc.lean`) are evaluated by the driver
ops `srcfill`, `srcbounds`, `srcclip` of `lean/Drivers/C08.lean`; here the REAL functions are run on the same inputs:

* `find_fill_value` over variable classes — float / int / unsigned / bool / datetime / timedelta / object / string / complex dtypes;
  no attribute, `_FillValue`, `missing_value`, both (different values, either insertion order), a falsy `_FillValue = 0`;
  `_FillValue` only in the encoding; a masked array with / without masked entries (xarray itself converts masked arrays on
  construction, so those are handed over as a stand-in object carrying the three attributes the function reads);
* `calculate_grid_mask_bounds` on small random mask datasets (1–3 masks of rank 1–3, shared dimensions, a few completely empty).

Each case is also judged directly (no Lean involved): the fill decision the property demands, and per dimension the slice
`[first marked, last marked + 1)` stated with `numpy.flatnonzero`.
"""
from __future__ import annotations

import types
import warnings

import numpy as np
import xarray as xr

warnings.simplefilter('ignore')

# dtype → what the missing value of a self-promoting dtype prints as (`-`: the dtype cannot hold a missing value)
PROMO = {'f': 'NAN', 'c': 'NAN', 'M': 'NAT', 'm': 'NAT', 'O': 'NAN'}
DTYPES = ['f8', 'f4', 'i4', 'i8', 'u4', 'u1', 'i2', 'bool', 'M8[ns]', 'm8[ns]', 'O', 'U3', 'c16']
ATTR_SETS = [
    [], [], [('_FillValue', -999)], [('missing_value', -777)], [('_FillValue', 0)],
    [('_FillValue', -999), ('missing_value', -777)], [('missing_value', -777), ('_FillValue', -999)],
    [('units', 1), ('missing_value', 5)], [('units', 1)], [('_fillvalue', 3)], [('missing_value', 0), ('_FillValue', 7)],
]


def canon_fill(v) -> str:
    if v is np.ma.masked:
        return 'MASKED'
    if v is None:
        return 'NONE'
    try:
        a = np.asarray(v)
        if a.dtype.kind in 'Mm' and np.isnat(a):
            return 'NAT'
        if a.dtype.kind in 'fc' and np.isnan(a):
            return 'NAN'
        if a.dtype.kind in 'iu' or (a.dtype.kind == 'f' and float(a) == int(a)):
            return f'VAL:{int(a)}'
    except Exception:
        pass
    return f'OTHER:{v!r}'[:60]


def attr_object(dt, v):
    """the attribute value as stored: a numpy scalar of the variable's dtype where that is numeric"""
    return np.array(v).astype(dt)[()] if dt.kind in 'iuf' else v


def build_variable(spec):
    """the object handed to `find_fill_value` for a spec (JSON-able)"""
    dt = np.dtype(spec['dtype'])
    if dt.kind == 'O':
        values = np.array([1, 'a', None], dtype=object)
    elif dt.kind == 'U':
        values = np.array(['a', 'b', 'c'], dtype=dt)
    else:
        values = np.array([1, 2, 3]).astype(dt)
    attrs = {k: attr_object(dt, v) for k, v in spec['attrs']}
    if spec['masked'] is not None:
        mask = [False, True, False] if spec['masked'] else [False, False, False]
        return types.SimpleNamespace(values=np.ma.array(values, mask=mask), attrs=attrs, dtype=dt,
                                     encoding={k: -999 for k in spec['encoding']}, name='v', dims=('n',))
    da = xr.DataArray(values, dims=['n'], attrs=attrs, name='v')
    for k in spec['encoding']:
        da.encoding[k] = -999
    return da


def fill_line(spec) -> str:
    dt = np.dtype(spec['dtype'])
    attrs = ','.join(f'{k}={canon_fill(attr_object(dt, v))[4:]}' for k, v in spec['attrs']) or '-'
    enc = ','.join(spec['encoding']) or '-'
    return (f"srcfill {1 if spec['masked'] else 0} {attrs} {enc} {PROMO.get(dt.kind, '-')} "
            f"{1 if dt.kind == 'f' else 0}")


def fill_expected(spec) -> str:
    """the decision the property demands (DESIGN.md, C08 `fill_decision`)"""
    dt = np.dtype(spec['dtype'])
    if spec['masked']:
        return 'MASKED'
    attrs = dict((k, v) for k, v in spec['attrs'])
    for k in ('_FillValue', 'missing_value'):
        if k in attrs:
            return canon_fill(attr_object(dt, attrs[k]))
    return PROMO.get(dt.kind, 'ERR')


def fill_impl(spec) -> str:
    from emsarray import masking
    try:
        return canon_fill(masking.find_fill_value(build_variable(spec)))
    except ValueError:
        return 'ERR'
    except Exception as e:       # noqa: BLE001 — canonicalised, judged by the comparison
        return f'RAISED:{type(e).__name__}'


def fill_specs(rng, n_random: int) -> list:
    specs = []
    for dt in DTYPES:                                  # every dtype with every attribute set once: 13 × 11
        for attrs in ATTR_SETS:
            specs.append({'dtype': dt, 'attrs': [list(a) for a in attrs], 'encoding': [], 'masked': None})
    for dt in ('f8', 'i4', 'u1', 'bool', 'M8[ns]'):
        specs.append({'dtype': dt, 'attrs': [], 'encoding': ['_FillValue'], 'masked': None})
        specs.append({'dtype': dt, 'attrs': [], 'encoding': ['missing_value', '_FillValue'], 'masked': None})
        for masked in (True, False):
            for attrs in ([], [('_FillValue', -999)], [('missing_value', -777)]):
                specs.append({'dtype': dt, 'attrs': [list(a) for a in attrs], 'encoding': [], 'masked': masked})
    for _ in range(n_random):
        specs.append({'dtype': rng.choice(DTYPES), 'attrs': [list(a) for a in rng.choice(ATTR_SETS)],
                      'encoding': rng.choice([[], [], ['_FillValue']]), 'masked': rng.choice([None, None, None, True, False])})
    return specs


# ---- calculate_grid_mask_bounds ------------------------------------------------------------------
def random_masks(rng) -> dict:
    sizes = {'y': rng.randint(1, 5), 'x': rng.randint(1, 5), 'z': rng.randint(1, 3)}
    sizes['yn'] = sizes['y'] + 1
    sizes['xn'] = sizes['x'] + 1
    masks = []
    for k in range(rng.choice([1, 1, 2, 3])):
        dims = rng.sample(sorted(sizes), rng.choice([1, 2, 2, 3]))
        n = int(np.prod([sizes[d] for d in dims]))
        style = rng.choice(['sparse', 'sparse', 'one', 'dense', 'empty', 'edge'])
        if style == 'empty' and rng.random() < 0.6:
            style = 'sparse'
        if style == 'empty':
            bits = [0] * n
        elif style == 'one':
            bits = [0] * n
            bits[rng.randrange(n)] = 1
        elif style == 'edge':
            bits = [0] * n
            bits[0] = rng.choice([0, 1])
            bits[-1] = 1
        else:
            p = 0.25 if style == 'sparse' else 0.8
            bits = [1 if rng.random() < p else 0 for _ in range(n)]
        masks.append({'name': f'mask{k}', 'dims': dims, 'bits': bits})
    return {'sizes': sizes, 'masks': masks}


def build_masks(spec) -> xr.Dataset:
    data_vars = {}
    for m in spec['masks']:
        shape = [spec['sizes'][d] for d in m['dims']]
        data_vars[m['name']] = xr.DataArray(np.array(m['bits'], dtype=bool).reshape(shape), dims=m['dims'])
    return xr.Dataset(data_vars=data_vars)


def bounds_dims(spec) -> list:
    return sorted({d for m in spec['masks'] for d in m['dims']})


def bounds_line(spec) -> str:
    ms = ';'.join(
        f"{m['name']}=" + ','.join(f"{d}:{spec['sizes'][d]}" for d in m['dims']) + '|' + ','.join(str(b) for b in m['bits'])
        for m in spec['masks'])
    return f"srcbounds {ms} {','.join(bounds_dims(spec))}"


def bounds_expected(spec) -> str:
    """per dimension `[first marked, last marked + 1)`, the last mask naming a dimension deciding; an empty mask is refused"""
    out = {}
    for m in spec['masks']:
        arr = np.array(m['bits'], dtype=bool).reshape([spec['sizes'][d] for d in m['dims']])
        if not arr.any():
            return 'ERR'
        for ax, d in enumerate(m['dims']):
            nz = np.flatnonzero(arr.any(axis=tuple(k for k in range(arr.ndim) if k != ax)))
            out[d] = (int(nz[0]), int(nz[-1]) + 1)
    return ','.join(f'{d}={out[d][0]}:{out[d][1]}' for d in bounds_dims(spec))


def bounds_impl(spec) -> str:
    from emsarray import masking
    try:
        got = masking.calculate_grid_mask_bounds(build_masks(spec))
    except ValueError:
        return 'ERR'
    except Exception as e:       # noqa: BLE001
        return f'RAISED:{type(e).__name__}'
    parts = []
    for d in bounds_dims(spec):
        s = got.get(d)
        if not isinstance(s, slice) or s.step not in (None, 1):
            parts.append(f'{d}=?{s!r}')
        else:
            parts.append(f'{d}={"-" if s.start is None else int(s.start)}:{"-" if s.stop is None else int(s.stop)}')
    extra = sorted(str(k) for k in got if k not in bounds_dims(spec))
    return ','.join(parts) + (',+' + '+'.join(extra) if extra else '')


# ---- entry points --------------------------------------------------------------------------------
def cross_check(ctx, items: list) -> None:
    """append the translator cross-check lines to `items`; judge every case directly as well"""
    rng = ctx.rng
    # the generated programs against the implementation on a sample of the real clips already collected
    grid = [it for it in items if it[0].startswith('gridclip ')]
    for it in grid[::max(1, len(grid) // 120)]:
        line = 'srcclip ' + it[0][len('gridclip '):]
        items.append((line, it[1], {**it[2], 'op': line}))
    for spec in fill_specs(rng, ctx.budget(40, 400)):
        def one(spec=spec):
            line = fill_line(spec)
            impl = fill_impl(spec)
            want = fill_expected(spec)
            items.append((line, impl, {'src': 'fill', 'spec': spec, 'op': line}))
            ctx.count(f"src:fill:{'masked' if spec['masked'] else 'plain'}")
            if impl != want:
                ctx.oracle_fail('fill-value-decision-wrong', {'src': 'fill', 'spec': spec, 'op': line},
                                f'find_fill_value on {spec} gave {impl}, the fill decision demands {want}')
        ctx.guarded(one, {'src': 'fill', 'spec': spec})
    for _ in range(ctx.budget(120, 1200)):
        spec = random_masks(rng)

        def one(spec=spec):
            line = bounds_line(spec)
            impl = bounds_impl(spec)
            want = bounds_expected(spec)
            items.append((line, impl, {'src': 'bounds', 'spec': spec, 'op': line}))
            ctx.count('src:bounds:' + ('empty' if want == 'ERR' else f"{len(spec['masks'])}masks"))
            if impl != want:
                ctx.oracle_fail('mask-bounds-wrong', {'src': 'bounds', 'spec': spec, 'op': line},
                                f'calculate_grid_mask_bounds gave {impl}, the tightest slices are {want}')
        ctx.guarded(one, {'src': 'bounds', 'spec': spec})


def replay_one(ctx, inp) -> dict:
    out = {}
    if inp.get('op') and ctx.driver:
        out['model'] = ctx.model([inp['op']])[0]
    if inp['src'] == 'fill':
        out['impl'] = fill_impl(inp['spec'])
        want = fill_expected(inp['spec'])
    else:
        out['impl'] = bounds_impl(inp['spec'])
        want = bounds_expected(inp['spec'])
    if out['impl'] != want:
        out['oracle'] = f"the property demands {want}, the implementation gives {out['impl']}"
    return out
