"""
C16 — pairs of geometry that a *coarser notion of equality* would identify.

The property quantifies over "any change to a geometry variable's ... name or attributes".  Two classes of change are
small enough to be lost by a helper that compares, normalises or remembers its input before it is hashed:

1. **Spellings of a text** (`spelling_pairs`): two different sequences of code points that a text normalisation maps
   to one another — canonical equivalence (NFC / NFD, singleton characters such as U+212B ANGSTROM SIGN, the order of
   combining marks), compatibility equivalence (NFKC / NFKD: ligatures, superscripts, full-width letters), letter case
   (upper / lower / casefold, including `ß`, the Kelvin sign and the long s), code points that are invisible
   (zero-width space / joiner, soft hyphen) and surrounding white space.  For xarray, numpy and Python they are
   different names (`ds[a]` works, `ds[b]` raises `KeyError`) and different attribute texts.
2. **Values that compare equal** (`equal_value_pairs`): two attribute values with `a == b` in Python whose type or
   representation differs — `360` / `360.0`, `1` / `True` / `numpy.int64(1)` / `numpy.float32(1)`, `0.0` / `-0.0`,
   `'m'` / `numpy.str_('m')`, `(1, 2)` / `(1.0, 2.0)`.  They are different netCDF attributes.

Every pair is described by JSON (`spec`s decoded by `harness.gen.cachekey.decode_value`), so that a case is rebuilt in
a fresh interpreter from its description alone.

What the UNCHANGED code can see of an attribute value is stated here independently (`marshal_visible`): Python's own
`int` / `float` / `bool` / `str` / `tuple` are written with a type tag; every numpy scalar is written as its raw bytes
WITHOUT its type (the known finding `cache-key-attr-type-erased`), so two numpy scalars with the same bytes
(`int64(1)` / `uint64(1)`, `int64(0)` / `float64(0.0)`, `uint8(1)` / `bool_(True)`) are never generated as a pair here
and are classified by `type_erased_pair` should they ever be.
"""
from __future__ import annotations

import random
import unicodedata

import numpy as np

# --------------------------------------------------------------------------
# 1. spellings of a text

#: characters with more than one spelling (composed letters with one and with several marks, singletons, Hangul,
#: compatibility characters, letters with special case mappings)
POOL = [
    '\u00e9', '\u00f1', '\u00fc', '\u00c5', '\u212b', '\u2126', '\u1ec7', '\u01d6', '\u1e69', '\uac00', '\ud55c',
    '\u00b5', '\ufb01', '\u00b2', '\uff21', '\uff4d', '\u2460', '\u00df', '\u212a', '\u017f', '\u0130', '\u01c5',
    '\u03c2', '\u00e7', 'a\u0303', 'q\u0323\u0307',
]
INVISIBLE = ['\u200b', '\u200d', '\u00ad', '\ufeff', '\u2060']
SPACE = [' ', '\t', '\u00a0']


def _swap_marks(s: str) -> str:
    """NFD with the first pair of adjacent combining marks of different classes exchanged (canonically equivalent)"""
    d = list(unicodedata.normalize('NFD', s))
    for k in range(len(d) - 1):
        a, b = unicodedata.combining(d[k]), unicodedata.combining(d[k + 1])
        if a and b and a != b:
            d[k], d[k + 1] = d[k + 1], d[k]
            return ''.join(d)
    return s


def spellings(stem: str, rng: random.Random, spaces: bool) -> dict:
    """{relation: other spelling} of `stem`; the relation names the normalisation under which the two agree"""
    out = {}
    for form in ('NFC', 'NFD', 'NFKC', 'NFKD'):
        out[form.lower()] = unicodedata.normalize(form, stem)
    out['marks'] = _swap_marks(stem)
    out['upper'], out['lower'], out['casefold'] = stem.upper(), stem.lower(), stem.casefold()
    k = rng.randint(0, len(stem))
    out['invisible'] = stem[:k] + rng.choice(INVISIBLE) + stem[k:]
    if spaces:
        sp = rng.choice(SPACE)
        out['space'] = rng.choice([stem + sp, sp + stem])
    return {rel: s for rel, s in out.items()
            if s != stem and (rel == 'space' or not any(c.isspace() for c in s))
            and not any(0xd800 <= ord(c) <= 0xdfff for c in s)}


def random_stem(rng: random.Random) -> str:
    n = rng.choice([1, 1, 2, 3])
    chars = [rng.choice(POOL) for _ in range(n)]
    if rng.random() < 0.5:
        chars.insert(rng.randint(0, len(chars)), rng.choice('abKs'))
    return ''.join(chars)


def spelling_pairs(rng: random.Random, n: int, spaces: bool = True, must: tuple = ('nfc', 'nfd'), prefix: str = '') -> list:
    """n triples (relation, a, b) of texts starting with `prefix`: a != b as code point sequences, equal under the
    normalisation `relation`.
    At least one pair of every relation in `must` (the canonical forms: what netCDF itself applies to names)."""
    out, seen = [], set()
    want = list(must)
    tries = 0
    while len(out) < n and tries < 50 * n:
        tries += 1
        stem = prefix + random_stem(rng)
        alts = spellings(stem, rng, spaces)
        if not alts:
            continue
        if want:
            rels = [r for r in alts if r == want[0]]
            if not rels:
                continue
            rel = rels[0]
            want.pop(0)
        else:
            rel = rng.choice(sorted(alts))
        a, b = stem, alts[rel]
        if rng.random() < 0.5:
            a, b = b, a
        if (a, b) in seen or (b, a) in seen:
            continue
        seen.add((a, b))
        out.append((rel, a, b))
    return out


# --------------------------------------------------------------------------
# 2. attribute values that compare equal

NUMBERS = [0, 1, 2, 7, -1, 90, 180, 360, -999, 1000, 32767, 100000, 0.5, -0.25, 1.5]
NP_INT = ['int8', 'int16', 'int32', 'int64', 'uint8', 'uint16', 'uint32', 'uint64']
NP_FLOAT = ['float16', 'float32', 'float64']


def decode(spec):
    """the value a JSON spec stands for (same rules as `harness.gen.cachekey.decode_value`)"""
    from harness.gen.cachekey import decode_value
    return decode_value(spec)


def representations(x) -> list:
    """JSON specs of the ways the number x can be held as an attribute value, all comparing equal to x"""
    specs = []
    if float(x).is_integer():
        n = int(x)
        specs.append(n)
        if n in (0, 1):
            specs.append(bool(n))
            specs.append({'t': 'np', 'dtype': 'bool', 'v': bool(n)})
        for dt in NP_INT:
            info = np.iinfo(dt)
            if info.min <= n <= info.max:
                specs.append({'t': 'np', 'dtype': dt, 'v': n})
        if n == 0:
            specs.append({'t': 'float', 'v': -0.0})
            specs += [{'t': 'np', 'dtype': dt, 'v': -0.0} for dt in ('float32', 'float64')]
    specs.append({'t': 'float', 'v': float(x)})
    for dt in NP_FLOAT:
        with np.errstate(all='ignore'):
            if float(np.dtype(dt).type(x)) == float(x):
                specs.append({'t': 'np', 'dtype': dt, 'v': float(x)})
    return specs


def marshal_visible(v):
    """what `marshal.dumps(v, 4)` can tell about v, stated independently: Python's own types are written with a type
    tag and their value; numpy scalars and arrays only as their bytes (known finding: the type is erased)"""
    if isinstance(v, (np.generic, np.ndarray)):
        return ('buffer', v.tobytes())
    if isinstance(v, tuple):
        return ('tuple', tuple(marshal_visible(x) for x in v))
    if isinstance(v, float):
        return ('float', v.hex())
    return (type(v).__name__, v)


def type_erased_pair(a, b) -> bool:
    """both values are numpy objects with the same raw bytes: the class of the known finding"""
    return (isinstance(a, (np.generic, np.ndarray)) and isinstance(b, (np.generic, np.ndarray))
            and a.tobytes() == b.tobytes())


def _describe(spec) -> str:
    v = decode(spec)
    return repr(v) if isinstance(v, np.generic) else f'{type(v).__name__} {v!r}'


def equal_value_pairs(rng: random.Random, n: int) -> list:
    """n triples (relation, spec_a, spec_b) of attribute values with a == b and another type / representation"""
    out = []
    tries = 0
    while len(out) < n and tries < 50 * n:
        tries += 1
        roll = rng.random() if out else 1.0
        if roll < 0.1:
            text = rng.choice(['m', 'degrees_east', 'up', 'café'])
            a, b = text, {'t': 'npstr', 'v': text}
        elif roll < 0.2:
            x = rng.choice([1, 2, 360])
            a, b = rng.sample([{'t': 'tuple', 'v': [0, x]}, {'t': 'tuple', 'v': [{'t': 'float', 'v': 0.0}, x]},
                               {'t': 'tuple', 'v': [False, {'t': 'float', 'v': float(x)}]}], 2)
        else:
            x = rng.choice(NUMBERS if out else [360, 1, 0])      # the first pair: an integral number int / float
            reps = representations(x)
            a, b = (reps[0], {'t': 'float', 'v': float(x)}) if not out else rng.sample(reps, 2)
        if rng.random() < 0.5:
            a, b = b, a
        va, vb = decode(a), decode(b)
        try:
            equal = bool(va == vb)
        except Exception:  # noqa
            equal = False
        if not equal:
            continue
        if type_erased_pair(va, vb) or marshal_visible(va) == marshal_visible(vb):
            continue        # the known finding's class: not generated here (the `attr_pun` edit covers it)
        out.append((f'{_kind(va)}~{_kind(vb)}', a, b))
    return out


def _kind(v) -> str:
    if isinstance(v, np.generic):
        return 'np.' + v.dtype.name
    if isinstance(v, float) and v == 0 and np.signbit(v):
        return 'float-0'
    return type(v).__name__


#: names of attributes without a meaning to xarray or emsarray
NEUTRAL_KEYS = ['valid_max', 'valid_min', 'missing_value', 'level', 'flag', 'actual_range_start', 'resolution']
#: realistic scalar attributes put in front of the one that is varied (every value hashable)
SCALAR_ATTRS = [('long_name', 'a coordinate'), ('precision', 3), ('tolerance', {'t': 'float', 'v': 0.125}),
                ('packed', False), ('sentinel', {'t': 'np', 'dtype': 'int16', 'v': -32768}),
                ('gain', {'t': 'np', 'dtype': 'float32', 'v': 2.0})]
