"""
Sixth-round input classes for C01, on top of `gen/datasets.py` and `gen/c01_extra.py` (both stay as they are).

1. **How the integers of an index are spelt** (`SPELLINGS`).  A native index handed to `ravel_index` and a linear
   index handed to `wind_index` are tuples of *integers*; in practice these are Python ints, numpy integers of any
   width (a row of a compact `int16` index array, a (j, i) pair read from a netCDF `short` variable, what
   `numpy.argwhere` returns, …) or 0-d integer arrays.  The type is a representation: the index denotes its values
   (`Ems.C01.typed_ravel_eq`).  A spelling is usable for an index when the type holds every component, however
   large the *grid* is.

2. **Grids larger than an integer type** (`random_typed`): `medium` (128 … ~600 cells: more than 8 bits), `big`
   (32 768 … ~80 000 cells: more than 16 bits) and `huge` (a CF 1-D grid of two long axes, more than 2**31 or 2**32
   cells; only its two axes are ever materialised).  Medium grids of the two-dimensional conventions come from the
   shared builders (with their variations of how a dataset is held); big ones, and all UGRID ones, are built here with
   numpy (`build_plain`).  They are never enumerated: `probe_cells` picks the corners, the first / middle / last cell,
   the cells either side of every power-of-two boundary of the linear index, cells with a component at a type's
   largest value, and a few drawn ones (`Ems.C01.narrow_accumulation_wrong`: the last cell is where an arithmetic that
   is too narrow for the grid must go wrong).

3. **Arakawa C datasets under a names table** (`'c01x'`): `ShocStandard(dataset, coordinate_names=…)`,
   `ArakawaC(dataset, coordinate_names=…)`, a subclass of `ArakawaC` with the table set on the class (the three
   documented ways), keys given as strings or as enumeration members, the coordinate variables of the dataset renamed
   accordingly — to names of their own, or to the default names *of the other grids* (a permutation: every default name
   is still in the dataset, on another grid's dimensions).  Ground truth stays `Built.grids`
   (`Ems.C01.arakawa_rename`); `names_spec` renders dataset and table for the model (`nsize` / `nwind` / `nravel`).

4. **What happened earlier in the process** (`'c01_before'`): a list of things done *before* the convention object
   under test is constructed — other datasets opened and bound through any of the ways above and asked a few index
   questions; constructions that are refused (a partial names table, `ArakawaC` without a table) or that make no sense
   (a convention class put on another convention's dataset); a second convention object with another names table on the
   very dataset under test.  Each entry carries its full recipe, so a replay in a fresh process is exact.  The index
   space of a dataset is a function of the dataset (and the table it is opened with): none of this may change it.

`build` / `bind` fall back to `c01_extra.build` / `c01_extra.bind` for recipes without the new keys.
"""
from __future__ import annotations

import itertools
import random

import numpy as np
import xarray as xr

from harness.gen import c01_extra as X
from harness.gen import datasets as G

# --------------------------------------------------------------------------
# 1. spellings of an integer

INT_TYPES = {
    'int8': (8, True), 'uint8': (8, False), 'int16': (16, True), 'uint16': (16, False),
    'int32': (32, True), 'uint32': (32, False), 'int64': (64, True), 'uint64': (64, False),
}
# 'int' = Python int; 'T/0d' = a zero-dimensional numpy array of type T
SPELLINGS = ['int'] + list(INT_TYPES) + ['int16/0d', 'uint8/0d', 'int64/0d']
BOUNDARIES = [2 ** 7, 2 ** 8, 2 ** 15, 2 ** 16, 2 ** 31, 2 ** 32]


def type_of(spelling: str) -> str:
    """the integer type of a spelling, as the model knows it (`int`, `int8` … `uint64`)"""
    return spelling.split('/')[0]


def holds(spelling: str, v: int) -> bool:
    t = type_of(spelling)
    if t == 'int':
        return True
    bits, signed = INT_TYPES[t]
    return -(2 ** (bits - 1)) <= v < 2 ** (bits - 1) if signed else 0 <= v < 2 ** bits


def spell(spelling: str | None, v: int):
    """the integer `v` the way the spelling says; the value is unchanged (asserted: never a silent cast)"""
    if not spelling or spelling == 'int':
        return int(v)
    assert holds(spelling, v), (spelling, v)
    t = type_of(spelling)
    out = np.array(v, dtype=t) if spelling.endswith('/0d') else getattr(np, t)(v)
    assert int(out) == v
    return out


def spell_all(spelling: str | None, comps) -> tuple:
    return tuple(spell(spelling, int(v)) for v in comps)


def usable(comps) -> list:
    """the spellings that hold every one of these integers"""
    return [s for s in SPELLINGS if all(holds(s, int(v)) for v in comps)]


# --------------------------------------------------------------------------
# 2. plain grids of any size, built with numpy (no per-cell Python objects)

LAT = {'standard_name': 'latitude', 'units': 'degrees_north'}
LON = {'standard_name': 'longitude', 'units': 'degrees_east'}
SHOC_NAMES = {'face': ('y_centre', 'x_centre'), 'left': ('y_left', 'x_left'),
              'back': ('y_back', 'x_back'), 'node': ('y_grid', 'x_grid')}
SHOC_DIMS = {'face': ('j_centre', 'i_centre'), 'left': ('j_left', 'i_left'),
             'back': ('j_back', 'i_back'), 'node': ('j_node', 'i_node')}


def _lattice2(ny: int, nx: int, half: bool = False):
    """exact float coordinates of an ny x nx sheared lattice (small multiples of 1/2 ** 10)"""
    jj, ii = np.meshgrid(np.arange(ny, dtype='f8'), np.arange(nx, dtype='f8'), indexing='ij')
    s = 1 / 1024
    off = s / 2 if half else 0.0
    return -40 + s * jj + off + (s / 8) * ii, 100 + s * ii + off - (s / 8) * jj


def build_plain(r: dict) -> G.Built:
    conv, ny, nx = r['conv'], r['ny'], r['nx']
    info = r['c01_plain']
    polys, centres = [], []          # (C01 does not look at them)
    if conv == 'cf1d':
        ydim, xdim, latname, lonname = info.get('names', ['lat', 'lon', 'lat', 'lon'])
        # (only the two axes exist: the grid itself is never materialised unless a data variable is asked for)
        lat = -80 + np.arange(ny, dtype='f8') / 1024
        lon = 10 + np.arange(nx, dtype='f8') / 512
        ds = xr.Dataset(attrs={'Conventions': 'CF-1.4'})
        ds = ds.assign_coords({latname: xr.DataArray(lat, dims=[ydim], attrs=LAT),
                               lonname: xr.DataArray(lon, dims=[xdim], attrs=LON)})
        grids = {'face': ((ydim, xdim), (ny, nx))}
        default = 'face'
    elif conv in ('cf2d', 'shoc_simple'):
        shoc = conv == 'shoc_simple'
        ydim, xdim = ('j', 'i') if shoc else tuple(info.get('dims', ['y', 'x']))
        latname, lonname = ('latitude', 'longitude') if shoc else ('lat', 'lon')
        lat, lon = _lattice2(ny, nx)
        attrs = {'Conventions': 'CF-1.4'}
        if shoc:
            attrs['ems_version'] = 'v1.2.3'
        ds = xr.Dataset(attrs=attrs)
        ds = ds.assign_coords({latname: xr.DataArray(lat, dims=[ydim, xdim], attrs=LAT),
                               lonname: xr.DataArray(lon, dims=[ydim, xdim], attrs=LON)})
        grids = {'face': ((ydim, xdim), (ny, nx))}
        default = 'face'
    elif conv == 'shoc_standard':
        shapes = {'face': (ny, nx), 'left': (ny, nx + 1), 'back': (ny + 1, nx), 'node': (ny + 1, nx + 1)}
        ds = xr.Dataset(attrs={'Conventions': 'CF-1.0', 'title': 'shoc standard'})
        coords = {}
        for kind, (sj, si) in shapes.items():
            lat, lon = _lattice2(sj, si, half=kind != 'node')
            yn, xn = SHOC_NAMES[kind]
            coords[yn] = xr.DataArray(lat, dims=SHOC_DIMS[kind], attrs={'units': 'degrees_north', 'coordinate_type': 'latitude'})
            coords[xn] = xr.DataArray(lon, dims=SHOC_DIMS[kind], attrs={'units': 'degrees_east', 'coordinate_type': 'longitude'})
        ds = ds.assign_coords(coords)
        grids = {kind: (SHOC_DIMS[kind], shapes[kind]) for kind in shapes}
        default = 'face'
    elif conv == 'ugrid':
        # an nx x ny lattice of quadrilaterals; optionally with its edge_node table
        base = info.get('start_index', 0)
        nid = np.arange((ny + 1) * (nx + 1), dtype='i8').reshape(ny + 1, nx + 1)
        faces = np.stack([nid[:-1, :-1], nid[:-1, 1:], nid[1:, 1:], nid[1:, :-1]], axis=-1).reshape(-1, 4)
        jj, ii = np.meshgrid(np.arange(ny + 1, dtype='f8'), np.arange(nx + 1, dtype='f8'), indexing='ij')
        ds = xr.Dataset(attrs={'Conventions': 'UGRID-1.0'})
        ds['Mesh2_node_x'] = xr.DataArray((100 + ii / 64).reshape(-1), dims=['nMesh2_node'], attrs={'standard_name': 'longitude'})
        ds['Mesh2_node_y'] = xr.DataArray((-40 + jj / 64).reshape(-1), dims=['nMesh2_node'], attrs={'standard_name': 'latitude'})
        ds['Mesh2_face_nodes'] = xr.DataArray(
            (faces + base).astype('i4'), dims=['nMesh2_face', 'nMaxMesh2_face_nodes'],
            attrs={'cf_role': 'face_node_connectivity', 'start_index': base})
        mesh_attrs = {'cf_role': 'mesh_topology', 'topology_dimension': 2,
                      'node_coordinates': 'Mesh2_node_x Mesh2_node_y',
                      'face_node_connectivity': 'Mesh2_face_nodes', 'face_dimension': 'nMesh2_face'}
        grids = {'node': (('nMesh2_node',), ((ny + 1) * (nx + 1),)), 'face': (('nMesh2_face',), (ny * nx,))}
        if info.get('edges'):
            horiz = np.stack([nid[:, :-1], nid[:, 1:]], axis=-1).reshape(-1, 2)
            vert = np.stack([nid[:-1, :], nid[1:, :]], axis=-1).reshape(-1, 2)
            edges = np.concatenate([horiz, vert])
            ds['Mesh2_edge_nodes'] = xr.DataArray(
                (edges + base).astype('i4'), dims=['nMesh2_edge', 'Two'],
                attrs={'cf_role': 'edge_node_connectivity', 'start_index': base})
            mesh_attrs['edge_node_connectivity'] = 'Mesh2_edge_nodes'
            mesh_attrs['edge_dimension'] = 'nMesh2_edge'
            grids['edge'] = (('nMesh2_edge',), (len(edges),))
        ds['Mesh2'] = xr.DataArray(np.int32(0), attrs=mesh_attrs)
        default = 'face'
    else:
        raise ValueError(conv)
    if info.get('var'):
        # one data variable on the default grid, stored in the order the recipe says (the index space may not follow it)
        dims, shape = grids[default]
        order = info['var'] if len(dims) > 1 else [0]
        vdims = [dims[a] for a in order]
        vshape = tuple(shape[a] for a in order)
        ds['eta'] = xr.DataArray(np.zeros(vshape, dtype='f4'), dims=vdims)
    b = G.Built(r, ds, conv, grids, default, polys, centres)
    b.extra = {'names': {}, 'geom_names': []}
    return b


def _medium_shape(rng: random.Random, min_n: int = 1) -> tuple:
    target = rng.choice([rng.randint(129, 250), rng.randint(257, 600), rng.randint(257, 600)])
    ny = max(min_n, rng.choice([1, 2, 3, 5, 8, 11, 16, 19, 23]))
    nx = max(min_n, -(-target // ny))
    return (nx, ny) if rng.random() < 0.5 else (ny, nx)


def _big_shape(rng: random.Random) -> tuple:
    ny, nx = rng.choice([(200, 300), (182, 181), (256, 257), (2, 33000), (40000, 2), (1, 70000), (300, 220), (260, 130)])
    return ny + rng.randint(0, 3), nx + rng.randint(0, 3)


TYPED_CLASSES = ['medium', 'big', 'medium', 'medium', 'big', 'huge', 'medium', 'big', 'medium', 'medium', 'big', 'medium']


def random_typed(rng: random.Random, k: int, tier: str = 'quick') -> dict:
    """the k-th recipe of the stream of larger grids: size class and convention are walked (cycles of coprime
    length 12 and 5), the rest is drawn"""
    cls = TYPED_CLASSES[k % len(TYPED_CLASSES)]
    conv = G.CONVS[k % len(G.CONVS)]
    if cls == 'huge':
        # more cells than 32 bits count; only a CF 1-D grid can be that large without a single large array
        side = rng.choice([46400, 65600]) + rng.randint(0, 500)
        r = {'conv': 'cf1d', 'ny': side + rng.randint(0, 40), 'nx': side,
             'c01_plain': {'names': rng.choice([['lat', 'lon', 'lat', 'lon'], ['y', 'x', 'latitude', 'longitude']])}}
    elif cls == 'big' or conv == 'ugrid':
        ny, nx = _big_shape(rng) if cls == 'big' else _medium_shape(rng)
        if conv == 'ugrid' and cls == 'big':
            ny, nx = rng.choice([(182, 181), (130, 260), (257, 256)])
        r = {'conv': conv, 'ny': ny, 'nx': nx, 'c01_plain': {'var': rng.choice([None, [0, 1], [1, 0]])}}
        if conv == 'cf1d':
            r['c01_plain']['names'] = rng.choice([['lat', 'lon', 'lat', 'lon'], ['y', 'x', 'latitude', 'longitude']])
        elif conv == 'cf2d':
            r['c01_plain']['dims'] = rng.choice([['y', 'x'], ['nj', 'ni']])
        elif conv == 'ugrid':
            r['c01_plain'].update(start_index=rng.choice([0, 1]), edges=rng.random() < 0.5)
    else:
        # a medium grid from the shared builders: every way of holding a dataset they know stays in play
        if conv == 'cf1d':
            r = G.random_cf1d(rng)
            ny, nx = _medium_shape(rng, min_n=2)
            r['lat'], r['lon'] = G._axis(rng, ny, True), G._axis(rng, nx, rng.random() < 0.5)
        elif conv in ('cf2d', 'shoc_simple'):
            r = G.random_cf2d(rng, conv, holes=False)
            r['ny'], r['nx'] = _medium_shape(rng)
        else:
            r = G.random_shoc_standard(rng, holes=False)
            r['ny'], r['nx'] = _medium_shape(rng)
        r['vary'] = G.random_vary(rng, conv)
    r['c01_typed'] = {'class': cls, 'probe_seed': rng.randrange(2 ** 32)}
    return r


def unravel(n: int, shape) -> tuple:
    out = []
    for s in reversed(shape):
        n, rem = divmod(n, s)
        out.append(rem)
    return tuple(reversed(out))


def probe_cells(rng: random.Random, shape: tuple, n_random: int = 5) -> list:
    """in-range cells of a grid that is too large to enumerate, as sorted component tuples"""
    size = 1
    for s in shape:
        size *= s
    if size == 0:
        return []
    lin = {0, size - 1, size // 2}
    for b in BOUNDARIES:
        lin.update(n for n in (b - 1, b, b + 1) if 0 <= n < size)
    lin.update(rng.randrange(size) for _ in range(n_random))
    cells = {unravel(n, shape) for n in lin}
    cells.update(itertools.product(*[(0, s - 1) for s in shape]))
    # a component at the largest value of a type, on an axis long enough to have it
    for a, s in enumerate(shape):
        for b in BOUNDARIES:
            for v in (b - 1, b // 2 - 1):
                if 0 < v < s:
                    cells.add(tuple(v if c == a else min(t - 1, rng.choice([0, t - 1, rng.randrange(t)]))
                                    for c, t in enumerate(shape)))
    return sorted(cells)


# --------------------------------------------------------------------------
# 3. Arakawa C datasets under a names table

NAME_SCHEMES = {
    'default': SHOC_NAMES,
    'own': {'face': ('lat_centre', 'lon_centre'), 'left': ('lat_left', 'lon_left'),
            'back': ('lat_back', 'lon_back'), 'node': ('lat_corner', 'lon_corner')},
    'short': {'face': ('yc', 'xc'), 'left': ('yl', 'xl'), 'back': ('yb', 'xb'), 'node': ('yn', 'xn')},
    # the default names, on the other grids: every default name is in the dataset, none where the defaults say
    'permuted': {'face': ('y_grid', 'x_grid'), 'left': ('y_back', 'x_back'),
                 'back': ('y_left', 'x_left'), 'node': ('y_centre', 'x_centre')},
    'rotated': {'face': ('y_left', 'x_left'), 'left': ('y_back', 'x_back'),
                'back': ('y_grid', 'x_grid'), 'node': ('y_centre', 'x_centre')},
}
RENAMED = ['own', 'permuted', 'short', 'rotated']
NAMED_BINDS = ['coordinate_names', 'arakawa', 'subclass', 'coordinate_names']


def random_named(rng: random.Random, u: int, scheme: str | None = None, how: str | None = None) -> dict:
    """a SHOC standard / Arakawa C dataset opened under a names table; `scheme` and `how` walk with `u` unless given"""
    r = G.random_shoc_standard(rng, max_n=4, holes=False)
    scheme = scheme or RENAMED[u % len(RENAMED)]
    how = how or NAMED_BINDS[u % len(NAMED_BINDS)]
    if how == 'class':
        scheme = 'default'      # (ShocStandard(dataset) can only mean the default names)
    r['c01x'] = {'scheme': scheme, 'names': {k: list(v) for k, v in NAME_SCHEMES[scheme].items()},
                 'bind': how, 'keys': ['str', 'enum'][(u // 2) % 2]}
    r['vary'] = G.random_vary(rng, 'shoc_standard')
    return r


def _build_named(recipe: dict) -> G.Built:
    b = G.BUILDERS['shoc_standard'](recipe)
    names = recipe['c01x']['names']
    mapping = {}
    for kind, (yn, xn) in SHOC_NAMES.items():
        mapping[yn], mapping[xn] = names[kind]
    mapping = {old: new for old, new in mapping.items() if old != new}
    if mapping:
        b.ds = b.ds.rename(mapping)        # (simultaneous: a permutation of the names is fine)
    b.extra['geom_names'] = [n for kind in ('face', 'node', 'left', 'back') for n in reversed(names[kind])]
    b.extra['c01_names'] = names
    if recipe.get('vary'):
        G.apply_vary(b, recipe['vary'])
    return b


def names_table(names: dict, keys: str = 'str') -> dict:
    from emsarray.conventions.arakawa_c import ArakawaCGridKind
    if keys == 'enum':
        return {ArakawaCGridKind(k): tuple(v) for k, v in names.items()}
    return {k: tuple(v) for k, v in names.items()}


def construct_named(ds: xr.Dataset, info: dict):
    """the convention object of an Arakawa C dataset, made one of the documented ways"""
    from emsarray.conventions.arakawa_c import ArakawaC
    from emsarray.conventions.shoc import ShocStandard
    how = info['bind']
    table = names_table(info['names'], info.get('keys', 'str'))
    if how == 'class':
        return ShocStandard(ds)
    if how == 'coordinate_names':
        return ShocStandard(ds, coordinate_names=table)
    if how == 'arakawa':
        return ArakawaC(ds, coordinate_names=table)
    if how == 'subclass':
        cls = type('NamedArakawaC', (ArakawaC,), {'coordinate_names': names_table(info['names'], 'enum')})
        return cls(ds)
    raise ValueError(how)


def names_spec(built: G.Built, names: dict | None = None) -> tuple:
    """(`vars`, `names`) of the line protocol: the coordinate variables of the dataset with their dimensions and the
    names table, from the recipe (never read back from emsarray)"""
    own = built.recipe['c01x']['names']
    transposed = set(built.recipe.get('x_transposed', []))
    vars_ = []
    for kind, (dims, shape) in built.grids.items():
        yn, xn = own[kind]
        d = [f'{n}={s}' for n, s in zip(dims, shape)]
        vars_.append(':'.join([yn] + d))
        vars_.append(':'.join([xn] + (d[::-1] if kind in transposed else d)))
    names = names or own
    table = ','.join(f'{k}={v[0]}:{v[1]}' for k, v in names.items())
    return ';'.join(vars_), table


# --------------------------------------------------------------------------
# 4. what happened earlier in the process

def conv_class_of(conv: str):
    import emsarray.conventions as c
    return {'cf1d': c.grid.CFGrid1D, 'cf2d': c.grid.CFGrid2D, 'shoc_simple': c.shoc.ShocSimple,
            'shoc_standard': c.shoc.ShocStandard, 'ugrid': c.ugrid.UGrid}[conv]


def _ask(c) -> None:
    """a few ordinary index questions"""
    for kind in c.grid_kinds:
        size = int(c.grid_size[kind])
        c.grid_dimensions[kind]
        if size:
            c.ravel_index(c.wind_index(size - 1, grid_kind=kind))
            c.wind_index(0, grid_kind=kind)


def play_before(entry: dict, under_test: G.Built | None = None) -> str:
    """do what the entry says; whatever it answers or raises is not this case's business (the same dataset is the one
    under test of another case).  Returns a note for the input distribution."""
    import warnings
    from emsarray.conventions.arakawa_c import ArakawaC
    from emsarray.conventions.shoc import ShocStandard
    how = entry.get('do', 'open')
    try:
        with warnings.catch_warnings():
            warnings.simplefilter('ignore')
            if how == 'same':
                # a second convention object, with a names table of its own, on the very dataset under test
                _ask(construct_named(under_test.ds, entry['info']))
                return 'same:ok'
            b = build(entry['recipe'])
            if how == 'open':
                _ask(bind_fresh(b))
            elif how == 'partial':
                # a names table that leaves grids out is refused (ValueError)
                kinds = entry['kinds']
                names = entry['names']
                ShocStandard(b.ds, coordinate_names={k: tuple(names[k]) for k in kinds})
                return 'partial:accepted'
            elif how == 'no_names':
                ArakawaC(b.ds)              # refused (TypeError): no table given, none on the class
                return 'no_names:accepted'
            elif how == 'mismatch':
                # a convention class put on a dataset of another convention: whatever it makes of it
                conv_class = conv_class_of(entry['as'])
                _ask(conv_class(b.ds))
            return f'{how}:ok'
    except Exception as e:  # noqa: BLE001
        return f'{how}:{type(e).__name__}'


def build(recipe: dict) -> G.Built:
    if 'c01_plain' in recipe:
        return build_plain(recipe)
    if 'c01x' in recipe:
        return _build_named(recipe)
    return X.build(recipe)


def bind_fresh(built: G.Built):
    """the convention object of the recipe, nothing asked of it yet"""
    if 'c01x' in built.recipe:
        conv = construct_named(built.ds, built.recipe['c01x'])
        conv.bind()
        return conv
    return X._bind_fresh(built)


def bind(built: G.Built):
    """the convention object under test: made after everything in `'c01_before'` has happened in this process, the way
    the recipe says, and - when the recipe carries a `'c01_history'` - after that history was put to it"""
    notes = [play_before(e, built) for e in built.recipe.get('c01_before', [])]
    built.extra['c01_before_notes'] = notes
    conv = bind_fresh(built)
    if built.recipe.get('c01_history'):
        built.extra['c01_history_raised'] = X.apply_history(conv, built, built.recipe['c01_history'])
    return conv


def _plain_shoc(rng: random.Random, tier: str) -> dict:
    return G.random_recipe(rng, 'shoc_standard', tier, vary=True, holes=False)


def _cf(rng: random.Random, tier: str) -> dict:
    return X.random_extra(rng, rng.randrange(60), tier)


def _any(rng: random.Random, tier: str, conv: str | None = None) -> dict:
    conv = conv or rng.choice(G.CONVS)
    kw = {'holes': False} if conv not in ('ugrid', 'cf1d') else {}
    return G.random_recipe(rng, conv, tier, vary=True, **kw)


def _refusal(rng: random.Random, tier: str) -> dict:
    c = rng.random()
    if c < 0.5:
        scheme = rng.choice(RENAMED)
        r = random_named(rng, rng.randrange(8), scheme=scheme, how='coordinate_names')
        kinds = rng.sample(['face', 'left', 'back', 'node'], rng.randint(1, 3))
        return {'do': 'partial', 'recipe': r, 'kinds': sorted(kinds), 'names': r['c01x']['names']}
    if c < 0.7:
        return {'do': 'no_names', 'recipe': _plain_shoc(rng, tier)}
    conv = rng.choice(G.CONVS)
    other = rng.choice([c for c in G.CONVS if c != conv])
    return {'do': 'mismatch', 'recipe': _any(rng, tier, conv), 'as': other}


def random_process(rng: random.Random, k: int, tier: str = 'quick') -> dict:
    """the k-th case of the process-history stream: the dataset under test with its `'c01_before'`.  The shape of the
    history walks with k (cycle of 8), the datasets are drawn."""
    u = k // 8
    shape = k % 8
    if shape == 0:      # a dataset with names of its own was opened; then an ordinary SHOC standard one
        r = _plain_shoc(rng, tier)
        before = [{'recipe': random_named(rng, u, how=['coordinate_names', 'subclass', 'arakawa'][u % 3])}]
    elif shape == 1:    # the other way round
        r = random_named(rng, u)
        before = [{'recipe': _plain_shoc(rng, tier)}]
    elif shape == 2:    # two differently named ones in a row, the second with another table
        r = random_named(rng, u + 1)
        before = [{'recipe': random_named(rng, u + 2)}]
    elif shape == 3:    # a refused construction, then an ordinary dataset of any convention
        r = _any(rng, tier, G.CONVS[u % len(G.CONVS)])
        before = [_refusal(rng, tier)]
    elif shape == 4:    # CF datasets opened with explicit names / a topology helper, then one found by introspection
        r = _cf(rng, tier)
        before = [{'recipe': _cf(rng, tier)}, {'recipe': _cf(rng, tier)}]
    elif shape == 5:    # a second object with another table on the very dataset under test
        r = _plain_shoc(rng, tier)
        scheme = ['permuted', 'rotated'][u % 2]
        before = [{'do': 'same', 'info': {'names': {k_: list(v) for k_, v in NAME_SCHEMES[scheme].items()},
                                          'bind': ['arakawa', 'coordinate_names', 'subclass'][u % 3],
                                          'keys': ['enum', 'str'][u % 2]}}]
    elif shape == 6:    # a refusal and a named dataset, then an ordinary SHOC standard one
        r = _plain_shoc(rng, tier)
        before = [{'recipe': random_named(rng, u, how='arakawa')}, _refusal(rng, tier)]
        rng.shuffle(before)
    else:               # anything, then anything
        r = _any(rng, tier) if rng.random() < 0.6 else random_named(rng, u, how=rng.choice(NAMED_BINDS + ['class']))
        before = [{'recipe': rng.choice([_any, _cf])(rng, tier)} if rng.random() < 0.7 else _refusal(rng, tier)
                  for _ in range(rng.randint(1, 2))]
    r = dict(r)
    r['c01_before'] = before
    return r
