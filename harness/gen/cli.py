"""
Generators for C20: bounds texts from the grammar of `emsarray.cli.utils.bounds_re` and near
it, GeoJSON texts, file-name scenarios.  Every random choice comes from the `rng` passed in.

A *numeral* is generated as a token list so that the generator knows its exact value
(`Fraction`) without parsing anything back.
"""
from __future__ import annotations

import json
import random
import unicodedata
from fractions import Fraction

# zero code points of some Unicode decimal-digit runs (ASCII first)
DIGIT_ZEROS = [0x30, 0x660, 0x6f0, 0x966, 0xff10, 0x1d7ce, 0x1e950, 0x1fbf0, 0xe50, 0x1040]
BLANKS = [' ', ' ', ' ', '\t', '\n', '\r', '\x0b', '\x0c', '\x1c', '\x1f', '\x85', '\xa0', ' ',
          ' ', ' ', ' ', ' ', '　']


def digit_char(rng: random.Random, d: int, exotic: float) -> str:
    z = 0x30 if rng.random() >= exotic else rng.choice(DIGIT_ZEROS)
    return chr(z + d)


def number(rng: random.Random, max_digits: int = 6, exotic: float = 0.0, underscores: float = 0.25):
    """NUMBER = \\d+(?:_\\d+)*  ->  (text, digit list)"""
    n = rng.choice([1, 1, 2, 2, 3, rng.randint(1, max_digits)])
    digits = [rng.randint(0, 9) for _ in range(n)]
    out = []
    for k, d in enumerate(digits):
        if k and rng.random() < underscores:
            out.append('_')
        out.append(digit_char(rng, d, exotic))
    return ''.join(out), digits


def nat_of(digits) -> int:
    v = 0
    for d in digits:
        v = 10 * v + d
    return v


def numeral(rng: random.Random, *, dyadic: bool = False, exotic: float = 0.0, max_digits: int = 6):
    """DECIMAL -> (text, exact value).  `dyadic`: fraction digits chosen so that the value is a
    dyadic rational (not needed for exactness of the comparison, used for variety)."""
    form = rng.choice(['int', 'int', 'intdot', 'frac', 'intfrac', 'intfrac', 'intfrac'])
    neg = rng.random() < 0.3
    text, value = '', Fraction(0)
    if form in ('int', 'intdot', 'intfrac'):
        t, ds = number(rng, max_digits, exotic)
        text += t
        value += nat_of(ds)
    if form == 'intdot':
        text += '.'
    if form in ('frac', 'intfrac'):
        if dyadic:
            fd = rng.choice(['5', '25', '75', '125', '375', '0', '50', '0625'])
            t, ds = '', [int(c) for c in fd]
            for k, d in enumerate(ds):
                if k and rng.random() < 0.15:
                    t += '_'
                t += digit_char(rng, d, exotic)
        else:
            t, ds = number(rng, max_digits, exotic)
        text += '.' + t
        value += Fraction(nat_of(ds), 10 ** len(ds))
    if neg:
        text, value = '-' + text, -value
    return text, value


def blanks(rng: random.Random, p: float = 0.35) -> str:
    if rng.random() >= p:
        return ''
    return ''.join(rng.choice(BLANKS) for _ in range(rng.choice([1, 1, 1, 2, 3])))


def bounds_text(rng: random.Random, **kw):
    """a text of the grammar -> (text, [four exact values], [four numeral texts])"""
    nums = [numeral(rng, **kw) for _ in range(4)]
    text = nums[0][0]
    for t, _ in nums[1:]:
        text += blanks(rng) + ',' + blanks(rng) + t
    return text, [v for _, v in nums], [t for t, _ in nums]


GARBAGE = ['x', 'abc', ' ', '\n', ',', ',5', ',,', '.', '..', '_', '__', '-', '+', 'e3', 'E-2', '5', '.5', '5.',
           '\x00', ';', ')', ']', '}', '"', "'", '/', '\\', '%', 'nan', 'inf', '−' + '1', '，' + '1',
           '0x1', 'j', ' 1', '\t', '½', '²', '①', '௧' + '௰', '١٫٥']


def mutate(rng: random.Random, text: str, parts: list) -> tuple[str, str]:
    """a text *near* the grammar -> (text, mutation name)"""
    m = rng.choice(['suffix', 'suffix', 'suffix', 'prefix', 'drop-field', 'add-field', 'empty-field',
                    'double-underscore', 'edge-underscore', 'double-dot', 'plus', 'exponent', 'inner-blank',
                    'outer-blank', 'other-comma', 'other-minus', 'insert', 'delete', 'swap-sep', 'trail-frac',
                    'double-minus', 'bare-dot', 'bare-minus', 'replace'])
    g = rng.choice(GARBAGE)
    k = rng.randrange(4)
    p = list(parts)
    if m == 'suffix':
        return text + g, m
    if m == 'prefix':
        return g + text, m
    if m == 'drop-field':
        del p[k]
        return ','.join(p), m
    if m == 'add-field':
        p.insert(k, numeral(rng)[0])
        return ','.join(p), m
    if m == 'empty-field':
        p[k] = rng.choice(['', ' ', '\t'])
        return ','.join(p), m
    if m == 'double-underscore':
        p[k] = p[k] + '__1' if '.' not in p[k] else p[k].replace('.', '__1.', 1)
        return ','.join(p), m
    if m == 'edge-underscore':
        p[k] = rng.choice(['_' + p[k], p[k] + '_', p[k].replace('.', '_.', 1), p[k].replace('.', '._', 1)])
        return ','.join(p), m
    if m == 'double-dot':
        p[k] = rng.choice([p[k] + '.5', p[k].replace('.', '..', 1), '1.2.3'])
        return ','.join(p), m
    if m == 'plus':
        p[k] = '+' + p[k].lstrip('-')
        return ','.join(p), m
    if m == 'exponent':
        p[k] = p[k] + rng.choice(['e3', 'E3', 'e-3', 'e+3', 'e'])
        return ','.join(p), m
    if m == 'inner-blank':
        t = p[k]
        i = rng.randrange(1, len(t)) if len(t) > 1 else 0
        p[k] = (t[:i] + rng.choice(BLANKS) + t[i:]) if i else t + ' ' + '1'
        return ','.join(p), m
    if m == 'outer-blank':
        b = rng.choice(BLANKS)
        return rng.choice([b + text, text + b, b + text + b]), m
    if m == 'other-comma':
        return text.replace(',', rng.choice([';', '，', '،', ' ', '|', ':']), 1), m
    if m == 'other-minus':
        p[k] = rng.choice(['−', '–', '‐', '－', '~']) + p[k].lstrip('-')
        return ','.join(p), m
    if m == 'insert':
        i = rng.randrange(len(text) + 1)
        return text[:i] + g + text[i:], m
    if m == 'delete':
        i = rng.randrange(len(text))
        return text[:i] + text[i + 1:], m
    if m == 'swap-sep':
        return text.replace(',', '.', 1), m
    if m == 'trail-frac':
        # the shape the prefix match mis-reads: last numeral with a fraction, maybe more behind it
        p[3] = rng.choice(['4.5', '0.18', '7.25', '10.', '3.0_5', '2.5.'])
        return ','.join(p), m
    if m == 'double-minus':
        p[k] = '--' + p[k].lstrip('-')
        return ','.join(p), m
    if m == 'bare-dot':
        p[k] = rng.choice(['.', '-.', '._1', '1_.'])
        return ','.join(p), m
    if m == 'bare-minus':
        p[k] = rng.choice(['-', '- 1', '1-', '1-2'])
        return ','.join(p), m
    i = rng.randrange(len(text))
    return text[:i] + g[:1] + text[i + 1:], 'replace'


def token_strings(alphabet: str, max_len: int):
    """every string over `alphabet` up to `max_len` (for the exhaustive numeral sweep)"""
    level = ['']
    for _ in range(max_len):
        level = [s + c for s in level for c in alphabet]
        yield from level


# ---------------------------------------------------------------------------
# Python-side statement of the grammar, independent of `re` and of the Lean model

def is_number_text(t: str) -> bool:
    groups = t.split('_')
    return all(g != '' and all(c.isdecimal() for c in g) for g in groups)


def is_numeral_text(t: str) -> bool:
    if t.startswith('-'):
        t = t[1:]
    if t.count('.') > 1 or t in ('', '.'):
        return False
    if '.' not in t:
        return is_number_text(t)
    ip, fp = t.split('.')
    return (ip == '' or is_number_text(ip)) and (fp == '' or is_number_text(fp))


def numeral_value(t: str) -> Fraction:
    """exact value of a numeral text (digits through unicodedata, underscores dropped)"""
    neg = t.startswith('-')
    if neg:
        t = t[1:]
    ip, _, fp = t.partition('.')
    ds = [unicodedata.decimal(c) for c in ip if c != '_']
    fs = [unicodedata.decimal(c) for c in fp if c != '_']
    v = Fraction(nat_of(ds)) + (Fraction(nat_of(fs), 10 ** len(fs)) if fs else 0)
    return -v if neg else v


def classify_bounds(s: str):
    """('accept', [four numeral texts]) — the text in its entirety is four numerals separated by
    commas, blanks only next to the commas;  ('reject', None) — it is not four comma-separated
    numbers at all;  ('open', texts) — four numerals but with blanks before the first or after
    the last one (the grammar decides; the oracle has no opinion)."""
    fields = s.split(',')
    if len(fields) != 4:
        return 'reject', None
    cores = [f.strip() for f in fields]     # str.strip() removes exactly the str.isspace() characters
    if not all(is_numeral_text(c) for c in cores):
        return 'reject', None
    if fields[0] != fields[0].lstrip() or fields[3] != fields[3].rstrip():
        return 'open', cores
    return 'accept', cores


# ---------------------------------------------------------------------------
# GeoJSON texts

def geojson_geometry(rng: random.Random):
    """a small geometry as a GeoJSON mapping (integer / half-integer coordinates)"""
    def c():
        return rng.randint(-20, 20) / rng.choice([1, 1, 2])
    kind = rng.choice(['Point', 'LineString', 'Polygon', 'Polygon', 'MultiPolygon', 'MultiPoint'])
    if kind == 'Point':
        return {'type': 'Point', 'coordinates': [c(), c()]}
    if kind == 'MultiPoint':
        return {'type': 'MultiPoint', 'coordinates': [[c(), c()] for _ in range(rng.randint(1, 3))]}
    if kind == 'LineString':
        return {'type': 'LineString', 'coordinates': [[c(), c()] for _ in range(rng.randint(2, 4))]}

    def ring():
        x, y = rng.randint(-20, 10), rng.randint(-20, 10)
        w, h = rng.randint(1, 8), rng.randint(1, 8)
        return [[x, y], [x + w, y], [x + w, y + h], [x, y + h], [x, y]]
    if kind == 'Polygon':
        return {'type': 'Polygon', 'coordinates': [ring()]}
    return {'type': 'MultiPolygon', 'coordinates': [[ring()] for _ in range(rng.randint(1, 2))]}


NOT_GEOMETRY_JSON = [
    '{}', 'null', 'true', '5', '-1.5', '1e3', '"abc"', '"1,2,3,4"', '[]', '[1,2,3,4]', '[[1,2],[3,4]]',
    '{"type": "nope", "coordinates": [[1, 2]]}', '{"type": "Polygon"}', '{"not": "geojson"}',
    '{"type": "Polygon", "coordinates": [[1, 2], [3, 2], [3, 4], [1, 4], [1, 2]]}',
    '{"type": "Point", "coordinates": "x"}', '{"coordinates": [1, 2]}', ' 7 ', '[1,2,3,4] ',
]

NOT_JSON = ['nope', '{', '{"type": "Point"', "{'type': 'Point', 'coordinates': [1, 2]}", 'POINT (1 2)',
            'POLYGON ((0 0, 1 0, 1 1, 0 0))', '', ' ', 'NaN,1', '1,2;3,4', 'a,b,c,d', './nothing/here.geojson']


def dump_json(rng: random.Random, obj) -> str:
    style = rng.choice(['compact', 'default', 'indent', 'padded'])
    if style == 'compact':
        return json.dumps(obj, separators=(',', ':'))
    if style == 'indent':
        return json.dumps(obj, indent=rng.choice([1, 2]))
    if style == 'padded':
        return rng.choice([' ', '\n', '\t']) + json.dumps(obj) + rng.choice([' ', '\n', ''])
    return json.dumps(obj)
