"""Export histories (C15): several datasets exported one after the other in one process.

The property speaks about *a* dataset's export; it holds for the third dataset a program exports as much as for the
first.  A single-dataset case never sees what an earlier export leaves behind (tables kept between calls, writers
that are reused, ...).  A history is a base recipe followed by siblings of it, chosen so that everything a too
coarse memo could key on coincides while the cells differ:

* ``reshape``  same convention, same number of cells, another grid shape (3 x 4 -> 4 x 3, 2 x 6, 1 x 12; a mesh: the
               same faces numbered the other way round), fresh coordinates;
* ``recoord``  same convention and grid shape, fresh coordinates / holes;
* ``again``    the very same recipe once more.

Recipes are plain dicts of the shared generator's vocabulary (`harness.gen.datasets`); nothing here is random outside
the `rng` handed in.
"""
from __future__ import annotations

import copy

from harness.gen import datasets as G

HOWS = ('reshape', 'recoord', 'again')


def shape_of(recipe: dict):
    """(ny, nx) of a grid recipe, None for a mesh"""
    if recipe['conv'] == 'cf1d':
        return (len(recipe['lat']), len(recipe['lon']))
    if recipe['conv'] == 'ugrid':
        return None
    return (recipe['ny'], recipe['nx'])


def other_shapes(shape: tuple, min_n: int) -> list:
    """every (a, b) != shape with a * b == ny * nx and both sides >= min_n"""
    n = shape[0] * shape[1]
    return [(a, n // a) for a in range(min_n, n + 1)
            if n % a == 0 and n // a >= min_n and (a, n // a) != tuple(shape)]


def impose_shape(rng, recipe: dict, shape: tuple) -> dict:
    """`recipe` (fresh from the shared generator) with grid shape `shape`; cell lists that fall outside are dropped"""
    ny, nx = shape
    r = dict(recipe)
    if r['conv'] == 'cf1d':
        if len(r['lat']) != ny:
            r['lat'] = G._axis(rng, ny, rng.random() < 0.5)
        if len(r['lon']) != nx:
            r['lon'] = G._axis(rng, nx, rng.random() < 0.5)
        return r
    r['ny'], r['nx'] = ny, nx
    for key, (hj, hi) in (('holes', (ny, nx)), ('twist', (ny, nx)), ('masked_nodes', (ny + 1, nx + 1))):
        if key in r:
            cells = [list(c) for c in r[key] if c[0] < hj and c[1] < hi]
            if cells:
                r[key] = cells
            else:
                del r[key]
    return r


def sibling(rng, recipe: dict, how: str, fresh) -> tuple:
    """(how actually used, sibling recipe); `fresh()` draws a new recipe of the same convention from the shared
    generator with the check's own keyword arguments"""
    if how == 'again':
        return how, copy.deepcopy(recipe)
    shape = shape_of(recipe)
    if shape is None:
        # a mesh has one cell dimension: "another arrangement of as many cells" is the same faces numbered backwards
        if how == 'reshape' and len(recipe['faces']) > 1:
            r = copy.deepcopy(recipe)
            r['faces'] = r['faces'][::-1]
            return how, r
        return 'recoord', fresh()
    if how == 'reshape':
        options = other_shapes(shape, 2 if recipe['conv'] == 'cf1d' else 1)
        if options:
            # the transposed shape as often as all others together
            t = (shape[1], shape[0])
            new = t if (t in options and rng.random() < 0.5) else rng.choice(options)
            return how, impose_shape(rng, fresh(), new)
        how = 'recoord'
    return how, impose_shape(rng, fresh(), shape)


def random_history(rng, base: dict, fresh, length: int) -> list:
    """[(how, recipe)]: `base` first ('base'), then `length - 1` siblings of it; the first sibling is a reshape six
    times in ten"""
    out = [('base', base)]
    for k in range(1, length):
        how = 'reshape' if (k == 1 and rng.random() < 0.6) else rng.choice(HOWS)
        out.append(sibling(rng, base, how, fresh))
    return out
