"""
Extra generator classes of property C10 (on top of `gen/mesh.py`):

* `uniform_grid(rng, n)` / `mixed_grid(rng, n)`   medium meshes (a couple of hundred nodes): large enough
                               that the *square* of the node count no longer fits the narrow integer
                               types a file may store its index tables in
* `apply_storage(built, st)`   the integer STORAGE TYPE of the connectivity tables (`i1 u1 i2 u2 i4 u4 i8`,
                               every table that fits is held in that type, its fill value re-encoded at
                               the edge of the type's range): the content is the same mesh
* `second_built(built, how)`   a second dataset object over the SAME variables (a
                               shallow copy, `assign_attrs`, a full-slice `isel`): what every
                               `ds.isel(...)` / `ds.copy()` / `drop_vars` of a user hands to a fresh accessor

* `via_file(ds, path)`         the dataset written to netCDF AT A GIVEN PATH and opened again (the file that
                               was at that path is replaced)
* `with_history(recipe, ...)`  a HISTORY of one process (`recipe['c10']['history']`): before the dataset of
                               the recipe is handed to emsarray, another valid mesh was opened from the same
                               file path and all its tables were asked for ('replaced': a file regenerated in
                               place), or the dataset is what `Dataset.isel` makes of an opened file whose
                               tables were asked for, its faces reordered / some of them taken ('isel')
* `base_mixes(tables)`         which connectivity tables count from the OTHER base than the rest
                               (`enc['other_base_tables']`: `start_index` is an attribute of each table)

Everything is a pure function of the recipe (`recipe['c10']['storage']`, `recipe['c10']['relook']`,
`recipe['c10']['history']`), so a replay rebuilds exactly the same input and the same sequence of calls.
"""
from __future__ import annotations

import copy
import os
import random
import tempfile

import numpy as np
import xarray as xr

from harness.gen import datasets as G
from harness.gen import mesh as M

STORAGE_DTYPES = ['i1', 'u1', 'i2', 'u2', 'i4', 'u4', 'i8']
RELOOKS = ['copy', 'attrs', 'isel']


# --------------------------------------------------------------------------
# medium meshes

def _finish(rng: random.Random, cells: list, name: str) -> dict:
    """cells: faces as lists of lattice points; random winding / start vertex / numbering"""
    faces = []
    for f in cells:
        if rng.random() < 0.4:
            f = f[::-1]
        s = rng.randrange(len(f))
        faces.append(f[s:] + f[:s])
    rng.shuffle(faces)
    pts = sorted({p for f in faces for p in f})
    rng.shuffle(pts)
    index = {p: k for k, p in enumerate(pts)}
    return {'name': name, 'nodes': [[2 * p[0], 2 * p[1]] for p in pts], 'faces': [[index[p] for p in f] for f in faces]}


def uniform_grid(rng: random.Random, n: int) -> dict:
    """n x n quadrilaterals, (n + 1)^2 nodes: no table of it needs a missing entry in face_node"""
    cells = [[(i, j), (i + 1, j), (i + 1, j + 1), (i, j + 1)] for j in range(n) for i in range(n)]
    return _finish(rng, cells, f'grid-{n}x{n}')


def mixed_grid(rng: random.Random, n: int) -> dict:
    """n x n cells, each a quadrilateral or two triangles: face_node needs missing entries"""
    cells = []
    for j in range(n):
        for i in range(n):
            sq = [(i, j), (i + 1, j), (i + 1, j + 1), (i, j + 1)]
            c = rng.random()
            if c < 0.2:
                cells += [[sq[0], sq[1], sq[2]], [sq[0], sq[2], sq[3]]]
            elif c < 0.4:
                cells += [[sq[0], sq[1], sq[3]], [sq[1], sq[2], sq[3]]]
            else:
                cells.append(sq)
    if all(len(c) == 4 for c in cells):
        sq = cells.pop(0)
        cells += [[sq[0], sq[1], sq[2]], [sq[0], sq[2], sq[3]]]
    return _finish(rng, cells, f'mixed-{n}x{n}')


# --------------------------------------------------------------------------
# integer storage type of the tables

def apply_storage(built: G.Built, st: dict) -> list:
    """Hold every integer connectivity table in `st['dtype']` where all of its values fit.

    `st['fill']`: how a table with a `_FillValue` attribute marks its missing entries in the new type:
    'keep' (the value it had), 'max' / 'min' (the largest / smallest value of the type, what netCDF
    libraries default to). A table that does not fit (an index or the fill value out of range, or the fill
    value colliding with an index) is left as it was. Returns the names of the tables that were cast."""
    ds = built.ds
    dtype = np.dtype(st['dtype'])
    info = np.iinfo(dtype)
    done = []
    for name in M._conn_names(ds):
        var = ds[name]
        if not np.issubdtype(var.dtype, np.integer):
            continue
        attrs, enc = dict(var.attrs), dict(var.encoding)
        values = [[int(v) for v in row] for row in var.values]
        flat = [v for row in values for v in row]
        if '_FillValue' in attrs:
            old = int(attrs['_FillValue'])
            new = {'keep': old, 'max': int(info.max), 'min': int(info.min)}[st.get('fill', 'keep')]
            real = [v for v in flat if v != old]
            if not (info.min <= new <= info.max) or new in real:
                continue
            values = [[new if v == old else v for v in row] for row in values]
            attrs['_FillValue'] = dtype.type(new)
        else:
            real = flat
        if real and not (info.min <= min(real) and max(real) <= info.max):
            continue
        ds[name] = (var.dims, np.array(values, dtype=dtype).reshape(var.shape))
        ds[name].attrs, ds[name].encoding = attrs, enc
        done.append(name)
    built.ds = ds
    return done


# --------------------------------------------------------------------------
# a second dataset object over the same variables

def second_built(built: G.Built, how: str) -> G.Built:
    ds = built.ds
    # (binding a second convention to the very same Dataset object is refused by emsarray, by design)
    if how == 'copy':
        ds2 = ds.copy()                        # shallow: shares every variable's data
    elif how == 'attrs':
        ds2 = ds.assign_attrs(title='second look')
    elif how == 'isel':
        fdim = built.extra['names']['face_dim']
        ds2 = ds.isel({fdim: slice(None)}) if fdim in ds.dims else ds.copy()
    else:
        raise ValueError(f'relook {how!r}')
    for n in ds.variables:
        if n in ds2.variables:
            ds2[n].encoding = dict(ds[n].encoding)
    b2 = copy.copy(built)
    b2.ds = ds2
    return b2


# --------------------------------------------------------------------------
# index base per table

def base_mixes(tables: list) -> list:
    """The ways in which the tables of one file may disagree about the index base: face_node alone on the
    other base, each supplied table alone, all supplied tables, face_node together with one supplied table."""
    tables = list(tables)
    out = [['face_node']]
    out += [[t] for t in tables]
    if len(tables) > 1:
        out.append(tables)
        out += [['face_node', t] for t in tables]
    return out


# --------------------------------------------------------------------------
# a history: files at one path, datasets made from datasets

def via_file(ds: xr.Dataset, path: str) -> xr.Dataset:
    """`mesh.netcdf_roundtrip` at a path of the caller's choosing: whatever file was there is replaced.
    The dataset handed back is loaded, the file closed; `.encoding['source']` is the path."""
    ds = ds.copy(deep=True)
    conn = M._conn_names(ds)
    for name in conn:
        v = ds[name]
        if '_FillValue' in v.attrs:
            v.encoding['_FillValue'] = v.attrs.pop('_FillValue')
            v.encoding['dtype'] = 'int32'
        else:
            v.encoding['_FillValue'] = None
    for name in ds.variables:
        if name not in conn:
            ds[name].encoding['_FillValue'] = None
    if os.path.exists(path):
        os.remove(path)
    ds.to_netcdf(path)
    with xr.open_dataset(path) as back:
        back.load()
        out = back.copy(deep=True)
        for name in back.variables:
            out[name].encoding = dict(back[name].encoding)
    return out


def earlier_meshes(rng: random.Random, faces: list) -> dict:
    """other valid meshes on the same nodes: the faces in another order, fewer faces, the same faces each
    begun at another corner / walked the other way round"""
    out = {}
    order = list(range(len(faces)))
    for _ in range(8):
        rng.shuffle(order)
        if order != sorted(order):
            break
    out['reordered'] = [faces[i] for i in order]
    keep = sorted(rng.sample(range(len(faces)), max(1, len(faces) - rng.randint(1, max(1, len(faces) // 2)))))
    out['fewer'] = [faces[i] for i in keep]
    rewound = []
    for f in faces:
        s = rng.randrange(1, len(f))
        g = f[s:] + f[:s]
        rewound.append(g[::-1] if rng.random() < 0.5 else g)
    out['rewound'] = rewound
    return out


def with_history(recipe: dict, build, look) -> G.Built:
    """Run the history of `recipe['c10']['history']` and hand back the dataset it ends with.

    `build(recipe, path)` builds a dataset (through a file at `path` where the recipe asks for the netCDF
    round trip), `look(built)` binds emsarray to it and asks for every table.

    {'how': 'replaced', 'earlier': [{'faces':, 'edges':, 'tables':}, ...]}
        each earlier mesh (same nodes, same encoding) is written to the path, opened and looked at; then the
        file is replaced by the mesh of the recipe and opened
    {'how': 'isel', 'file_faces': [...], 'file_edges': [...] | None}
        the file holds `file_faces` (a rearrangement / superset of the recipe's faces); it is opened and looked
        at; the dataset of the recipe is `opened.isel(face=[...])`, the faces of the recipe in their order
    """
    opt = recipe['c10']
    hist = opt['history']
    plain = {k: v for k, v in opt.items() if k != 'history'}
    with tempfile.TemporaryDirectory(prefix='verif_c10h_') as tmp:
        path = os.path.join(tmp, 'mesh.nc')
        if hist['how'] == 'replaced':
            for early in hist['earlier']:
                r0 = dict(recipe, faces=early['faces'], edges=early['edges'],
                          enc=dict(recipe['enc'], tables=list(early['tables'])), c10=plain)
                look(build(r0, path))
            return build(dict(recipe, c10=plain), path)
        if hist['how'] == 'isel':
            r0 = dict(recipe, faces=hist['file_faces'], edges=hist.get('file_edges'), c10=plain)
            b0 = build(r0, path)
            look(b0)
            take = [hist['file_faces'].index(f) for f in recipe['faces']]
            fdim = b0.extra['names']['face_dim']
            ds = b0.ds.isel({fdim: take})
            for n in b0.ds.variables:
                if n in ds.variables:
                    ds[n].encoding = dict(b0.ds[n].encoding)
            # the ground truth of the mesh that was taken (never read from the dataset)
            # (the table keeps the width the file gave it: padding columns where its widest faces went)
            spare = max(len(f) for f in hist['file_faces']) - max(len(f) for f in recipe['faces'])
            truth = {k: v for k, v in recipe.items() if k != 'c10'}
            truth['enc'] = dict(recipe['enc'], pad=recipe['enc'].get('pad', 0) + spare)
            built = G.build(truth)
            built.ds = ds
            return built
    raise ValueError(f'history {hist!r}')
