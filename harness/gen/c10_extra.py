"""
Extra generator classes of property C10 (on top of `gen/mesh.py`):

* `uniform_grid(rng, n)` / `mixed_grid(rng, n)`   medium meshes (a couple of hundred nodes): large enough
                               that the *square* of the node count no longer fits the narrow integer
                               types a file may store its index tables in
* `apply_storage(built, st)`   the integer STORAGE TYPE of the connectivity tables (`i1 u1 i2 u2 i4 u4 i8`,
                               every table that fits is held in that type, its fill value re-encoded at
                               the edge of the type's range): the content is the same mesh
* `second_built(built, how)`   a second dataset object over the SAME variables (a
                               shallow copy, `assign_attrs`, a full-slice `isel`): what every
                               `ds.isel(...)` / `ds.copy()` / `drop_vars` of a user hands to a fresh accessor

Everything is a pure function of the recipe (`recipe['c10']['storage']`, `recipe['c10']['relook']`),
so a replay rebuilds exactly the same input.
"""
from __future__ import annotations

import copy
import random

import numpy as np

from harness.gen import datasets as G
from harness.gen import mesh as M

STORAGE_DTYPES = ['i1', 'u1', 'i2', 'u2', 'i4', 'u4', 'i8']
RELOOKS = ['copy', 'attrs', 'isel']


# --------------------------------------------------------------------------
# medium meshes

def _finish(rng: random.Random, cells: list, name: str) -> dict:
    """cells: faces as lists of lattice points; random winding / start vertex / numbering"""
    faces = []
    for f in cells:
        if rng.random() < 0.4:
            f = f[::-1]
        s = rng.randrange(len(f))
        faces.append(f[s:] + f[:s])
    rng.shuffle(faces)
    pts = sorted({p for f in faces for p in f})
    rng.shuffle(pts)
    index = {p: k for k, p in enumerate(pts)}
    return {'name': name, 'nodes': [[2 * p[0], 2 * p[1]] for p in pts], 'faces': [[index[p] for p in f] for f in faces]}


def uniform_grid(rng: random.Random, n: int) -> dict:
    """n x n quadrilaterals, (n + 1)^2 nodes: no table of it needs a missing entry in face_node"""
    cells = [[(i, j), (i + 1, j), (i + 1, j + 1), (i, j + 1)] for j in range(n) for i in range(n)]
    return _finish(rng, cells, f'grid-{n}x{n}')


def mixed_grid(rng: random.Random, n: int) -> dict:
    """n x n cells, each a quadrilateral or two triangles: face_node needs missing entries"""
    cells = []
    for j in range(n):
        for i in range(n):
            sq = [(i, j), (i + 1, j), (i + 1, j + 1), (i, j + 1)]
            c = rng.random()
            if c < 0.2:
                cells += [[sq[0], sq[1], sq[2]], [sq[0], sq[2], sq[3]]]
            elif c < 0.4:
                cells += [[sq[0], sq[1], sq[3]], [sq[1], sq[2], sq[3]]]
            else:
                cells.append(sq)
    if all(len(c) == 4 for c in cells):
        sq = cells.pop(0)
        cells += [[sq[0], sq[1], sq[2]], [sq[0], sq[2], sq[3]]]
    return _finish(rng, cells, f'mixed-{n}x{n}')


# --------------------------------------------------------------------------
# integer storage type of the tables

def apply_storage(built: G.Built, st: dict) -> list:
    """Hold every integer connectivity table in `st['dtype']` where all of its values fit.

    `st['fill']`: how a table with a `_FillValue` attribute marks its missing entries in the new type:
    'keep' (the value it had), 'max' / 'min' (the largest / smallest value of the type, what netCDF
    libraries default to). A table that does not fit (an index or the fill value out of range, or the fill
    value colliding with an index) is left as it was. Returns the names of the tables that were cast."""
    ds = built.ds
    dtype = np.dtype(st['dtype'])
    info = np.iinfo(dtype)
    done = []
    for name in M._conn_names(ds):
        var = ds[name]
        if not np.issubdtype(var.dtype, np.integer):
            continue
        attrs, enc = dict(var.attrs), dict(var.encoding)
        values = [[int(v) for v in row] for row in var.values]
        flat = [v for row in values for v in row]
        if '_FillValue' in attrs:
            old = int(attrs['_FillValue'])
            new = {'keep': old, 'max': int(info.max), 'min': int(info.min)}[st.get('fill', 'keep')]
            real = [v for v in flat if v != old]
            if not (info.min <= new <= info.max) or new in real:
                continue
            values = [[new if v == old else v for v in row] for row in values]
            attrs['_FillValue'] = dtype.type(new)
        else:
            real = flat
        if real and not (info.min <= min(real) and max(real) <= info.max):
            continue
        ds[name] = (var.dims, np.array(values, dtype=dtype).reshape(var.shape))
        ds[name].attrs, ds[name].encoding = attrs, enc
        done.append(name)
    built.ds = ds
    return done


# --------------------------------------------------------------------------
# a second dataset object over the same variables

def second_built(built: G.Built, how: str) -> G.Built:
    ds = built.ds
    # (binding a second convention to the very same Dataset object is refused by emsarray, by design)
    if how == 'copy':
        ds2 = ds.copy()                        # shallow: shares every variable's data
    elif how == 'attrs':
        ds2 = ds.assign_attrs(title='second look')
    elif how == 'isel':
        fdim = built.extra['names']['face_dim']
        ds2 = ds.isel({fdim: slice(None)}) if fdim in ds.dims else ds.copy()
    else:
        raise ValueError(f'relook {how!r}')
    for n in ds.variables:
        if n in ds2.variables:
            ds2[n].encoding = dict(ds[n].encoding)
    b2 = copy.copy(built)
    b2.ds = ds2
    return b2
