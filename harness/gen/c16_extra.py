"""
C16 — datasets of realistic size.

`harness/gen/datasets.py` builds every dataset cell by cell with exact rational ground truth (polygons, centres):
right for the properties that need that ground truth, far too slow for a grid of 10^5 cells.  The cache key needs
none of it: the geometry of the property is the geometry VARIABLES (names, types, shapes, values, attributes).  This
module builds datasets of all five convention classes directly with numpy, with multi-dimensional geometry variables
of 10^3 .. 4 * 10^5 elements (what real model grids have), from a small JSON recipe

    {'conv': 'cf1d'|'cf2d'|'shoc_simple'|'shoc_standard'|'ugrid', 'ny': .., 'nx': .., 'shear': [a, b, c, d],
     'origin': [x0, y0], 'dtype': 'f8'|'f4', 'coords_as': 'coords'|'vars', 'nt': time steps, 'seed': ..,
     cf2d / shoc_simple:  'bounds': 'stored'|'none', 'holes': number of NaN cells
     cf1d:                'bounds': 'contig'|'none', 'index_coords': bool
     ugrid:               'verts': 3|4, 'tables': [] | ['edge_node'], 'face_coords': None|'vars'|'coords',
                          'start_index': 0|1, 'conn_dtype': 'i4'|'i8', 'shuffle': bool}

All coordinates are multiples of 1/8 of moderate size: exact in float32 and float64.  Names of variables and
dimensions are those of `harness/gen/datasets.py`, so the edits of `harness/gen/cachekey.py` apply unchanged.
"""
from __future__ import annotations

import math
import random

import numpy as np
import xarray as xr

CONVS = ['cf2d', 'shoc_standard', 'ugrid', 'shoc_simple', 'cf1d']


class BigBuilt:
    """the part of `datasets.Built` the C16 edits use"""

    def __init__(self, recipe, ds, conv, grids, default_kind, state, data_vars):
        self.recipe, self.ds, self.conv = recipe, ds, conv
        self.grids, self.default_kind = grids, default_kind
        self.state = state
        self.vars = data_vars
        self.extra = {}


# --------------------------------------------------------------------------
# recipes

def _shape_for(rng: random.Random, cells: int) -> tuple:
    """(ny, nx) with about `cells` cells, aspect ratio between 1:4 and 4:1, never square"""
    root = math.sqrt(cells)
    ny = max(2, int(root * 2 ** rng.uniform(-1, 1)))
    nx = max(2, cells // ny)
    if ny == nx:
        nx += 1
    return ny, nx


def random_big(rng: random.Random, conv: str, lo: int, hi: int) -> dict:
    """a recipe whose LARGEST multi-dimensional geometry variable has between lo and hi elements (log-uniform)"""
    target = int(round(math.exp(rng.uniform(math.log(lo), math.log(hi)))))
    while True:
        a, b, c, d = (rng.randint(-3, 3) for _ in range(4))
        if a * d - b * c != 0 and (a, c) != (b, d):
            break
    r = {'conv': conv, 'shear': [a, b, c, d], 'origin': [rng.randint(-80, 80), rng.randint(-40, 40)],
         'dtype': rng.choice(['f8', 'f8', 'f4']), 'coords_as': rng.choice(['coords', 'vars']),
         'nt': rng.choice([1, 3, 4]), 'seed': rng.randint(0, 10 ** 6)}
    if conv in ('cf2d', 'shoc_simple'):
        r['bounds'] = rng.choice(['stored', 'none', 'none'])
        cells = target // 4 if r['bounds'] == 'stored' else target       # bounds are (ny, nx, 4)
        r['ny'], r['nx'] = _shape_for(rng, max(cells, 4))
        r['holes'] = rng.choice([0, 0, 5, 200])
        if conv == 'cf2d':
            r['ydim'], r['xdim'] = rng.choice([('y', 'x'), ('nj', 'ni')])
    elif conv == 'shoc_standard':
        r['ny'], r['nx'] = _shape_for(rng, target)                       # the node grid is (ny + 1, nx + 1)
        r['holes'] = rng.choice([0, 3])
    elif conv == 'cf1d':
        # the only multi-dimensional geometry variables of a 1-D grid are its bounds, (n, 2): one long axis
        r['bounds'] = 'contig'
        n_long, n_short = max(target // 2, 2), rng.randint(2, 6)
        r['ny'], r['nx'] = (n_long, n_short) if rng.random() < 0.5 else (n_short, n_long)
        r['nt'] = 1
        r['index_coords'] = rng.random() < 0.5
    else:
        r['verts'] = rng.choice([3, 3, 4])
        cells = max(target // r['verts'] // (2 if r['verts'] == 3 else 1), 2)   # a lattice cell is two triangles
        r['ny'], r['nx'] = _shape_for(rng, cells)
        r['tables'] = rng.choice([[], ['edge_node']])
        r['face_coords'] = rng.choice([None, 'vars', 'coords'])
        r['start_index'] = rng.choice([0, 1])
        r['conn_dtype'] = rng.choice(['i4', 'i4', 'i8'])
        r['shuffle'] = rng.random() < 0.5
    return r


# --------------------------------------------------------------------------
# builders

def _lattice(r: dict, jj, ii):
    """x, y of lattice point (j, i): multiples of 1/8"""
    a, b, c, d = r['shear']
    x0, y0 = r['origin']
    return x0 + (a * ii + b * jj) / 8.0, y0 + (c * ii + d * jj) / 8.0


def _data_var(ds, name, dims, shape, nt, attrs):
    n = int(np.prod(shape))
    if nt * n > 2_000_000:
        nt = 1
    data = (np.arange(nt * n, dtype='f4') % 1000).reshape((nt,) + tuple(shape))
    ds[name] = xr.Variable(('time',) + tuple(dims), data, attrs=dict(attrs))


def _put(ds, name, var, as_coord: bool):
    if as_coord:
        return ds.assign_coords({name: var})
    ds[name] = var
    return ds


def _time(ds, nt):
    return ds.assign_coords(time=xr.Variable(['time'], np.arange(nt, dtype='f8'), attrs={'units': 'days since 2000-01-01'}))


def build_cf2d(r: dict) -> BigBuilt:
    shoc = r['conv'] == 'shoc_simple'
    ny, nx = r['ny'], r['nx']
    dt = r.get('dtype', 'f8')
    ydim, xdim = ('j', 'i') if shoc else (r.get('ydim', 'y'), r.get('xdim', 'x'))
    latname, lonname = ('latitude', 'longitude') if shoc else ('lat', 'lon')
    jj, ii = np.meshgrid(np.arange(ny + 1), np.arange(nx + 1), indexing='ij')
    gx, gy = _lattice(r, 2 * jj, 2 * ii)          # corners on even lattice points: the centres are exact
    cx = (gx[:-1, :-1] + gx[:-1, 1:] + gx[1:, 1:] + gx[1:, :-1]) / 4
    cy = (gy[:-1, :-1] + gy[:-1, 1:] + gy[1:, 1:] + gy[1:, :-1]) / 4
    rs = np.random.RandomState(r.get('seed', 0))
    holes = rs.choice(ny * nx, size=min(r.get('holes', 0), ny * nx // 4), replace=False) if r.get('holes') \
        else np.array([], dtype=int)
    cx.reshape(-1)[holes] = np.nan
    cy.reshape(-1)[holes] = np.nan
    lat_attrs = {'standard_name': 'latitude', 'units': 'degrees_north'}
    lon_attrs = {'standard_name': 'longitude', 'units': 'degrees_east'}
    attrs = {'Conventions': 'CF-1.4'}
    if shoc:
        attrs['ems_version'] = 'v1.2.3'
    stored = r.get('bounds') == 'stored'
    if stored:
        lat_attrs['bounds'], lon_attrs['bounds'] = latname + '_bounds', lonname + '_bounds'
    ds = xr.Dataset(attrs=attrs)
    as_coord = r.get('coords_as', 'coords') == 'coords'
    ds = _put(ds, latname, xr.Variable([ydim, xdim], cy.astype(dt), attrs=lat_attrs), as_coord)
    ds = _put(ds, lonname, xr.Variable([ydim, xdim], cx.astype(dt), attrs=lon_attrs), as_coord)
    names = [lonname, latname]
    if stored:
        xb = np.stack([gx[:-1, :-1], gx[:-1, 1:], gx[1:, 1:], gx[1:, :-1]], axis=-1)
        yb = np.stack([gy[:-1, :-1], gy[:-1, 1:], gy[1:, 1:], gy[1:, :-1]], axis=-1)
        xb.reshape(-1, 4)[holes] = np.nan
        yb.reshape(-1, 4)[holes] = np.nan
        ds[lonname + '_bounds'] = xr.Variable([ydim, xdim, 'nv'], xb.astype(dt))
        ds[latname + '_bounds'] = xr.Variable([ydim, xdim, 'nv'], yb.astype(dt))
        names += [lonname + '_bounds', latname + '_bounds']
    ds = _time(ds, r.get('nt', 1))
    _data_var(ds, 'eta', (ydim, xdim), (ny, nx), r.get('nt', 1), {'standard_name': 'sea_surface_height', 'units': 'm'})
    state = {'conv': r['conv'], 'subclass': False, 'kwargs': {}, 'valid_roles': [], 'expected': names}
    return BigBuilt(r, ds, r['conv'], {'face': ((ydim, xdim), (ny, nx))}, 'face', state, ['eta'])


def build_cf1d(r: dict) -> BigBuilt:
    ny, nx = r['ny'], r['nx']
    dt = r.get('dtype', 'f8')
    x0, y0 = r['origin']
    # axes of multiples of 1/512 (a long axis of 10^5 points then spans some 200 degrees), cells 1/512 wide
    lat = y0 + np.arange(ny) / 512.0
    lon = x0 + np.arange(nx) / 512.0
    # dimension coordinates (pandas-indexed) or plain coordinate variables on dimensions of another name
    ydim, xdim = ('lat', 'lon') if r.get('index_coords', True) else ('y', 'x')
    lat_attrs = {'standard_name': 'latitude', 'units': 'degrees_north'}
    lon_attrs = {'standard_name': 'longitude', 'units': 'degrees_east'}
    names = ['lon', 'lat']
    ds = xr.Dataset(attrs={'Conventions': 'CF-1.4'})
    if r.get('bounds', 'none') != 'none':
        lat_attrs['bounds'], lon_attrs['bounds'] = 'lat_bnds', 'lon_bnds'
        names += ['lon_bnds', 'lat_bnds']
    ds = ds.assign_coords(lat=xr.Variable([ydim], lat.astype(dt), attrs=lat_attrs),
                          lon=xr.Variable([xdim], lon.astype(dt), attrs=lon_attrs))
    if r.get('bounds', 'none') != 'none':
        half = 1 / 1024.0
        ds['lat_bnds'] = xr.Variable([ydim, 'nv'], np.stack([lat - half, lat + half], axis=-1).astype(dt))
        ds['lon_bnds'] = xr.Variable([xdim, 'nv'], np.stack([lon - half, lon + half], axis=-1).astype(dt))
    ds = _time(ds, r.get('nt', 1))
    _data_var(ds, 'eta', (ydim, xdim), (ny, nx), r.get('nt', 1), {'units': 'm'})
    state = {'conv': 'cf1d', 'subclass': False, 'kwargs': {}, 'valid_roles': [], 'expected': names}
    return BigBuilt(r, ds, 'cf1d', {'face': ((ydim, xdim), (ny, nx))}, 'face', state, ['eta'])


def build_shoc_standard(r: dict) -> BigBuilt:
    ny, nx = r['ny'], r['nx']
    dt = r.get('dtype', 'f8')
    jj, ii = np.meshgrid(np.arange(ny + 1), np.arange(nx + 1), indexing='ij')
    gx, gy = _lattice(r, 2 * jj, 2 * ii)
    rs = np.random.RandomState(r.get('seed', 0))
    if r.get('holes'):
        masked = rs.choice((ny + 1) * (nx + 1), size=r['holes'], replace=False)
        gx.reshape(-1)[masked] = np.nan
        gy.reshape(-1)[masked] = np.nan

    def grids_of(g):
        return {'face': (g[:-1, :-1] + g[:-1, 1:] + g[1:, 1:] + g[1:, :-1]) / 4,
                'left': (g[:-1, :] + g[1:, :]) / 2, 'back': (g[:, :-1] + g[:, 1:]) / 2, 'node': g}
    xs, ys = grids_of(gx), grids_of(gy)
    dims = {'face': ('j_centre', 'i_centre'), 'left': ('j_left', 'i_left'),
            'back': ('j_back', 'i_back'), 'node': ('j_node', 'i_node')}
    names = {'face': ('y_centre', 'x_centre'), 'left': ('y_left', 'x_left'),
             'back': ('y_back', 'x_back'), 'node': ('y_grid', 'x_grid')}
    ds = xr.Dataset(attrs={'Conventions': 'CF-1.0', 'title': 'shoc standard'})
    as_coord = r.get('coords_as', 'coords') == 'coords'
    for kind in ('face', 'left', 'back', 'node'):
        yn, xn = names[kind]
        ds = _put(ds, xn, xr.Variable(dims[kind], xs[kind].astype(dt),
                                      attrs={'units': 'degrees_east', 'coordinate_type': 'longitude'}), as_coord)
        ds = _put(ds, yn, xr.Variable(dims[kind], ys[kind].astype(dt),
                                      attrs={'units': 'degrees_north', 'coordinate_type': 'latitude'}), as_coord)
    ds = _time(ds, r.get('nt', 1))
    _data_var(ds, 'eta', dims['face'], (ny, nx), r.get('nt', 1), {'units': 'm'})
    grids = {'face': (dims['face'], (ny, nx)), 'left': (dims['left'], (ny, nx + 1)),
             'back': (dims['back'], (ny + 1, nx)), 'node': (dims['node'], (ny + 1, nx + 1))}
    state = {'conv': 'shoc_standard', 'subclass': False, 'kwargs': {}, 'valid_roles': [],
             'expected': ['x_centre', 'y_centre', 'x_grid', 'y_grid', 'x_left', 'y_left', 'x_back', 'y_back']}
    return BigBuilt(r, ds, 'shoc_standard', grids, 'face', state, ['eta'])


def build_ugrid(r: dict) -> BigBuilt:
    h, w = r['ny'], r['nx']
    verts = r.get('verts', 3)
    base = r.get('start_index', 0)
    cdt = r.get('conn_dtype', 'i4')
    jj, ii = np.meshgrid(np.arange(h + 1), np.arange(w + 1), indexing='ij')
    nx_, ny_ = _lattice(r, 2 * jj, 2 * ii)
    node_x, node_y = nx_.reshape(-1), ny_.reshape(-1)
    nid = (jj * (w + 1) + ii)
    n00, n01, n11, n10 = (nid[:-1, :-1].reshape(-1), nid[:-1, 1:].reshape(-1), nid[1:, 1:].reshape(-1),
                          nid[1:, :-1].reshape(-1))
    if verts == 4:
        faces = np.stack([n00, n01, n11, n10], axis=1)
    else:
        faces = np.concatenate([np.stack([n00, n01, n11], axis=1), np.stack([n00, n11, n10], axis=1)], axis=0)
    rs = np.random.RandomState(r.get('seed', 0))
    if r.get('shuffle'):
        faces = faces[rs.permutation(len(faces))]
    nface = len(faces)
    fdim, ndim, edim, mdim, two = 'nMesh2_face', 'nMesh2_node', 'nMesh2_edge', 'nMaxMesh2_face_nodes', 'Two'
    ds = xr.Dataset(attrs={'Conventions': 'UGRID-1.0'})
    mesh_attrs = {'cf_role': 'mesh_topology', 'topology_dimension': 2,
                  'node_coordinates': 'Mesh2_node_x Mesh2_node_y', 'face_node_connectivity': 'Mesh2_face_nodes',
                  'face_dimension': fdim}
    as_coord = r.get('coords_as', 'vars') == 'coords'
    dt = r.get('dtype', 'f8')
    ds = _put(ds, 'Mesh2_node_x', xr.Variable([ndim], node_x.astype(dt), attrs={'standard_name': 'longitude'}), as_coord)
    ds = _put(ds, 'Mesh2_node_y', xr.Variable([ndim], node_y.astype(dt), attrs={'standard_name': 'latitude'}), as_coord)
    ds['Mesh2_face_nodes'] = xr.Variable([fdim, mdim], (faces + base).astype(cdt),
                                         attrs={'cf_role': 'face_node_connectivity', 'start_index': base})
    names = ['Mesh2', 'Mesh2_face_nodes', 'Mesh2_node_x', 'Mesh2_node_y']
    roles = []
    grids = {'node': ((ndim,), (len(node_x),)), 'face': ((fdim,), (nface,))}
    if 'edge_node' in r.get('tables', []):
        parts = [np.stack([nid[:, :-1].reshape(-1), nid[:, 1:].reshape(-1)], axis=1),
                 np.stack([nid[:-1, :].reshape(-1), nid[1:, :].reshape(-1)], axis=1)]
        if verts == 3:
            parts.append(np.stack([n00, n11], axis=1))
        edges = np.concatenate(parts, axis=0)
        ds['Mesh2_edge_nodes'] = xr.Variable([edim, two], (edges + base).astype(cdt),
                                             attrs={'cf_role': 'edge_node_connectivity', 'start_index': base})
        mesh_attrs['edge_node_connectivity'] = 'Mesh2_edge_nodes'
        mesh_attrs['edge_dimension'] = edim
        names.append('Mesh2_edge_nodes')
        roles.append('edge_node_connectivity')
        grids['edge'] = ((edim,), (len(edges),))
    if r.get('face_coords'):
        fx = node_x[faces].sum(axis=1) + 1        # deliberately not the centroid, exact
        fy = node_y[faces].sum(axis=1) - 1
        ds = _put(ds, 'Mesh2_face_x', xr.Variable([fdim], fx.astype(dt)), r['face_coords'] == 'coords')
        ds = _put(ds, 'Mesh2_face_y', xr.Variable([fdim], fy.astype(dt)), r['face_coords'] == 'coords')
        mesh_attrs['face_coordinates'] = 'Mesh2_face_x Mesh2_face_y'
        names += ['Mesh2_face_x', 'Mesh2_face_y']
    ds['Mesh2'] = xr.Variable([], np.int32(0), attrs=mesh_attrs)
    nt = r.get('nt', 1)
    if nt == 2:
        nt = 3          # a time dimension of size two could be taken for the edge tables' `Two` (known, repaired)
    ds = _time(ds, nt)
    _data_var(ds, 'eta', (fdim,), (nface,), nt, {'units': 'm'})
    state = {'conv': 'ugrid', 'subclass': False, 'kwargs': {}, 'valid_roles': roles, 'expected': names}
    return BigBuilt(r, ds, 'ugrid', grids, 'face', state, ['eta'])


BUILDERS = {'cf1d': build_cf1d, 'cf2d': build_cf2d, 'shoc_simple': build_cf2d,
            'shoc_standard': build_shoc_standard, 'ugrid': build_ugrid}


def build(recipe: dict) -> BigBuilt:
    return BUILDERS[recipe['conv']](recipe)


# --------------------------------------------------------------------------
# where to change one value of an array of `size` elements

def stratified_positions(rng: random.Random, size: int, parts: int = 4, powers: int | None = 2) -> list:
    """Flat (C order) positions that cover the array from end to end: the first, the middle and the last element, one
    random element of each of `parts` equal stretches, and both sides of powers of two inside the array (where an
    implementation that works through an array piece by piece is most likely to change hands): `powers` random ones,
    or every one from 2^10 upwards when `powers` is None."""
    pos = {0, size - 1, size // 2}
    for q in range(parts):
        lo, hi = q * size // parts, (q + 1) * size // parts
        if hi > lo:
            pos.add(rng.randrange(lo, hi))
    ks = [k for k in range(6, 40) if 2 ** k < size]
    chosen = [k for k in ks if k >= 10] if powers is None else rng.sample(ks, min(powers, len(ks)))
    for k in chosen:
        pos.update({2 ** k - 1, 2 ** k})
    return sorted(p for p in pos if 0 <= p < size)
