"""C19, sixth round: two further input classes.

1. *Metadata on the variable.*  Real variables carry attributes (CF `units`, `long_name`, `standard_name`, `cell_methods`,
   `valid_min` / `valid_max` / `valid_range`, `actual_range`; ERDDAP's `colorBarMinimum` / `colorBarMaximum`; ...).  xarray keeps
   them through `isel` / `transpose` / slicing, so the 2D field that is plotted still carries what was written about the whole
   stored variable (all time steps, the cells without geometry too), or about an earlier state of it.  None of it is a plotted
   value: the patches, their values and the default colour limits are those of the plotted cells whatever the attributes say.

2. *Histories in which the caller uses the artists it was handed.*  An artist returned by `make_poly_collection` /
   `make_quiver` is the caller's: it may move the vertices in place (re-centre on the Pacific, rescale to km), overwrite the
   values, change the limits.  Collections built afterwards, and the untouched ones built before, still show every cell's own
   outline and value.
"""
from __future__ import annotations

from fractions import Fraction

import numpy as np

from harness import util
from harness.gen import geomspec as S

# ---------------------------------------------------------------------------------------------------------------------
# 1. attributes

TEXT_ATTRS = {
    'units': ['K', 'degrees_C', 'm s-1', 'psu', '1', 'kg m-3', 'Pa'],
    'long_name': ['Temperature', 'Salinity', 'Eastward current', 'Sea surface height', 'Tracer'],
    'standard_name': ['sea_water_temperature', 'sea_water_salinity', 'eastward_sea_water_velocity', 'sea_surface_height_above_geoid'],
    'cell_methods': ['time: mean', 'time: point', 'area: mean'],
    'comment': ['instantaneous', 'daily mean'],
    'coverage_content_type': ['modelResult', 'physicalMeasurement'],
}
# attributes that name a range of values: (attribute, which end(s))
RANGE_ATTRS = {
    'actual_range': 'both', 'valid_range': 'both', 'valid_min': 'lo', 'valid_max': 'hi',
    'colorBarMinimum': 'lo', 'colorBarMaximum': 'hi',
}
RANGE_GROUPS = [['actual_range'], ['valid_range'], ['valid_min', 'valid_max'], ['colorBarMinimum', 'colorBarMaximum'],
                ['valid_min'], ['valid_max'], ['actual_range', 'valid_range']]
# what the range attributes were written from
RANGE_OF = ['whole', 'whole', 'whole', 'nominal', 'nominal', 'stale']
RANGE_AS = ['list', 'tuple', 'f8', 'f4', 'own']


def random_attrs(rng):
    """the attributes of one variable: a few descriptive ones and, half of the time, a group that names a range —
    that of the whole stored variable ('whole': what CF says `actual_range` is), a wider nominal one ('nominal'),
    or one written before the values were rescaled ('stale')"""
    if rng.random() < 0.25:
        return None
    keys = rng.sample(sorted(TEXT_ATTRS), rng.randint(0, 3))
    spec = {'text': {k: rng.choice(TEXT_ATTRS[k]) for k in keys}}
    if rng.random() < 0.6:
        spec['ranges'] = list(rng.choice(RANGE_GROUPS))
        spec['range_of'] = rng.choice(RANGE_OF)
        spec['range_as'] = rng.choice(RANGE_AS)
    if not spec['text'] and 'ranges' not in spec:
        spec['text'] = {'units': '1'}
    return spec


def attrs_of(spec, values, base, dtype) -> dict:
    """the attribute dict `spec` stands for, on a variable holding `values` (float64, NaN = missing)"""
    out = dict(spec.get('text') or {})
    names = spec.get('ranges') or []
    v = np.asarray(values, dtype='f8').reshape(-1)
    v = v[~np.isnan(v)]
    if names and v.size:
        lo, hi = float(v.min()), float(v.max())
        of = spec.get('range_of')
        if of == 'nominal':
            span = (hi - lo) or max(abs(hi), 1.0)
            lo, hi = lo - span, hi + 2 * span
        elif of == 'stale':
            lo, hi = float(base), float(base) + float(max(v.size - 1, 1))      # the tags, before any rescaling
            if (lo, hi) == (float(v.min()), float(v.max())):
                lo, hi = 0.0, 1.0
        how = spec.get('range_as')

        def one(x):
            if how == 'f4':
                return np.float32(x)
            if how == 'own':
                with np.errstate(all='ignore'):
                    return np.asarray(x).astype(dtype)[()]
            return np.float64(x) if how == 'f8' else float(x)

        def both(a, b):
            if how == 'list':
                return [a, b]
            if how == 'tuple':
                return (a, b)
            if how == 'own':
                with np.errstate(all='ignore'):
                    return np.asarray([a, b]).astype(dtype)
            return np.asarray([a, b], dtype='f4' if how == 'f4' else 'f8')
        for n in names:
            end = RANGE_ATTRS[n]
            out[n] = both(lo, hi) if end == 'both' else one(lo if end == 'lo' else hi)
    return out


def apply_attrs(built, recipe) -> None:
    """put the attributes recipe['c19']['attrs'] names on the variables (the values stay what they are)"""
    specs = (recipe.get('c19') or {}).get('attrs') or {}
    ds = built.ds
    for name in sorted(specs):
        spec = specs[name]
        if spec is None or name not in ds:
            continue
        da = ds[name]
        new = attrs_of(spec, np.asarray(da.values, dtype='f8'), built.vars[name].base, da.dtype)
        ds[name] = da.assign_attrs(new)
    built.ds = ds


# ---------------------------------------------------------------------------------------------------------------------
# 2. histories of artists

BUILD_HOWS = ['no-data', 'by-name', 'array', 'transposed', 'styled', 'with-clim', 'figure', 'sliced', 'quiver']
EDITS = ['shift', 'shift', 'scale', 'scale', 'vals', 'clim']
SHIFTS = [(360, 0), (-360, 0), (180, 0), (0, 90), (1000000, 2000000), (-3, 5)]
SCALES = ['2', '1/2', '-1', '1/4', '-2']      # (with the shifts: exact in float64 however few of them are stacked)


def random_artist_history(rng) -> list:
    """calls and edits in turn: [call]+ ([edit]+ [call]+)+ ; an edit names one of the artists handed out so far
    (as a fraction of their number) and what is done to it"""
    def calls(lo, hi):
        return [['build', rng.choice(BUILD_HOWS), rng.choice(['a', 'b'])] for _ in range(rng.randint(lo, hi))]

    def edit():
        what = rng.choice(EDITS)
        arg = {'shift': lambda: list(rng.choice(SHIFTS)), 'scale': lambda: rng.choice(SCALES),
               'vals': lambda: rng.choice([0, -1, 7]), 'clim': lambda: rng.choice([[0, 1], [-5, 5]])}[what]()
        return ['edit', rng.random(), what, arg]
    steps = calls(1, 2)
    for _ in range(rng.randint(1, 2)):
        steps += [edit() for _ in range(rng.randint(1, 2))]
        steps += calls(1, 3)
    return steps


def apply_edit(pc, what, arg) -> bool:
    """what a caller does, in place, to a collection it holds; True if it took"""
    try:
        if what == 'shift':
            for p in pc.get_paths():
                p.vertices += np.asarray(arg, dtype='f8')
        elif what == 'scale':
            k = float(Fraction(arg))
            for p in pc.get_paths():
                p.vertices *= k
        elif what == 'vals':
            a = pc.get_array()
            if a is None:
                return False
            a[...] = arg
        elif what == 'clim':
            pc.set_clim(arg[0], arg[1])
        else:
            return False
        return True
    except (ValueError, TypeError):         # (a read-only buffer: nothing was changed)
        return False


def edit_word(i, what, arg) -> str:
    a = f'{arg[0]},{arg[1]}' if isinstance(arg, (list, tuple)) else str(arg)
    return f'e:{i}:{what}:{a}'


def artist_str(pc) -> str:
    """the canonical `P= A= C=` form of a collection (as in the `collection` op)"""
    paths = '|'.join(S.ring_str([(Fraction(float(x)), Fraction(float(y))) for x, y in p.vertices]) for p in pc.get_paths()) or '(none)'
    a = pc.get_array()
    if a is None:
        astr = '-'
    else:
        f = np.ma.filled(np.ma.asarray(a, dtype='f8'), np.nan).reshape(-1)
        astr = ','.join('-' if np.isnan(v) else util.rat_str(Fraction(float(v))) for v in f) or '(empty)'
    cl = pc.get_clim()
    if cl is None or cl[0] is None or (isinstance(cl[0], float) and np.isnan(cl[0])):
        cstr = '-'
    else:
        cstr = f'{util.rat_str(Fraction(float(cl[0])))},{util.rat_str(Fraction(float(cl[1])))}'
    return f'P={paths} A={astr} C={cstr}'


def judge(pc, kept, flat, clim_given, single_value_excused=False):
    """the property on one collection against the ground truth (`kept`: outline or None per linear index; `flat`: the
    value per linear index, None = built without data). Returns None or (signature, message)."""
    paths = [[(Fraction(float(x)), Fraction(float(y))) for x, y in p.vertices] for p in pc.get_paths()]
    cells = [n for n, q in enumerate(kept) if q is not None]
    if len(paths) != len(cells):
        return 'collection-size', f'{len(paths)} patches for {len(cells)} cells with geometry'
    arr = None
    if flat is not None:
        got = pc.get_array()
        if got is None:
            return 'collection-size', f'{len(paths)} patches and no values for {len(cells)} cells with geometry'
        arr = np.ma.filled(np.ma.asarray(got, dtype='f8'), np.nan).reshape(-1)
        if len(arr) != len(cells):
            return 'collection-size', f'{len(paths)} patches / {len(arr)} values for {len(cells)} cells with geometry'
    for k, n in enumerate(cells):
        p = paths[k]
        pr = p[:-1] if len(p) > 1 and p[0] == p[-1] else p
        ring = util.expected_ring(kept[n])
        if pr != ring:
            return 'patch-value-not-of-its-cell', f'patch {k}: outline {S.ring_str(pr)}; its cell ({n}) has outline {S.ring_str(ring)}'
        if arr is not None and not (flat[n] == arr[k] or (np.isnan(flat[n]) and np.isnan(arr[k]))):
            return 'patch-value-not-of-its-cell', f'patch {k}: value {arr[k]}; its cell ({n}) has value {flat[n]}'
    if flat is not None and not clim_given:
        present = [flat[n] for n in cells if not np.isnan(flat[n])]
        if present:
            lo, hi = min(present), max(present)
            if single_value_excused and lo == hi:
                return None
            cl = pc.get_clim()
            if cl is None or (cl[0], cl[1]) != (lo, hi):
                return 'clim-not-plotted-range', f'colour limits {cl}, the plotted values span {(float(lo), float(hi))}'
    return None


def apply_quiver_edit(q, what, arg) -> bool:
    """the same, on a Quiver: its positions / components changed in place"""
    try:
        if what == 'shift':
            q.X += float(arg[0])
            q.Y += float(arg[1])
        elif what == 'scale':
            k = float(Fraction(arg))
            q.X *= k
            q.Y *= k
        elif what == 'vals':
            q.U[...] = arg
            q.V[...] = arg
        else:
            return False
        return True
    except (ValueError, TypeError):
        return False


def judge_quiver(q, centres, kept, conv, flat):
    """arrow n sits at the centre of cell n with the components of cell n (u = v = the variable `flat`)"""
    X, Y = np.asarray(q.X, dtype='f8'), np.asarray(q.Y, dtype='f8')
    if len(X) != len(kept):
        return 'quiver-size', f'{len(X)} arrows for {len(kept)} cells'
    qmask = np.broadcast_to(np.ma.getmaskarray(np.ma.masked_array(q.U, mask=q.Umask)), np.shape(q.U))
    U = np.where(qmask, np.nan, np.asarray(q.U, dtype='f8'))
    V = np.where(qmask, np.nan, np.asarray(q.V, dtype='f8'))
    for n in range(len(kept)):
        okv = all(a == flat[n] or (np.isnan(a) and np.isnan(flat[n])) for a in (U[n], V[n]))
        cen = centres[n]
        okc = cen is None or (not np.isnan(X[n]) and (Fraction(float(X[n])), Fraction(float(Y[n]))) == tuple(cen))
        if not okv or not okc:
            return 'arrow-not-of-its-cell', f'arrow {n}: at ({X[n]}, {Y[n]}) with ({U[n]}, {V[n]}); cell {n} has centre {cen} and value {flat[n]}'
    return None


def play_artist_history(ctx, recipe, built, c, kept, style, desc, items) -> None:
    """play recipe['c19']['artists'] on the convention `c`: every call is judged when it is made, every artist the
    caller never touched is judged again at the end, and the final state of all the collections held goes to the model"""
    from matplotlib.collections import PolyCollection
    from matplotlib.figure import Figure
    steps = (recipe.get('c19') or {}).get('artists')
    if not steps:
        return
    ds = built.ds
    gd = built.grids['face'][0]
    rings = S.rings_str(kept)

    def truth(name):
        da = ds[name]
        extra = [d for d in da.dims if d not in gd]
        if extra:
            da = da.isel({d: da.sizes[d] - 1 for d in extra})
        return da, np.asarray(da.transpose(*gd).values, dtype='f8').reshape(-1)

    def rat(v):
        return '-' if np.isnan(v) else util.rat_str(Fraction(float(v)))

    held = []        # collections: [artist or refusal string, flat, clim_given, excused, touched, how]
    quivers = []     # [quiver, flat, touched]
    words = []
    edited = False
    told = []
    for sn, st in enumerate(steps):
        if st[0] == 'build' and st[1] == 'quiver':
            da, flat = truth(st[2])
            ax = Figure().add_subplot()
            q = c.make_quiver(ax, da, da, transform=ax.transData)
            quivers.append([q, flat, False])
            told.append(f'quiver of {st[2]}')
            ctx.evaluated()
            bad = judge_quiver(q, built.centres, kept, built.conv, flat)
            if bad:
                ctx.oracle_fail('quiver-depends-on-earlier-artists' if edited else bad[0], {**desc, 'history': told[:], 'step': sn},
                                f"after {told[:-1]}: {told[-1]}: {bad[1]}")
                return
        elif st[0] == 'build':
            how, name = st[1], ('t' if st[1] == 'sliced' and 't' in ds else st[2])
            da, flat = truth(name)
            plotted = set(v for n, v in enumerate(flat) if kept[n] is not None and not np.isnan(v))
            if how == 'figure' and len(plotted) <= 1:
                how = 'styled'          # (no range for a colour bar to show: matplotlib makes one up)
            mv = ','.join(rat(v) for v in flat)
            kw, arg, word = {}, da, f'b:{mv}:0:-'
            if how == 'no-data':
                arg, flat, word = None, None, 'b:none:0:-'
            elif how == 'by-name':
                arg = name if name in ('a', 'b') else da
            elif how == 'transposed':
                arg = da.transpose(*gd[::-1])
            elif how == 'styled':
                kw = dict(style)
            elif how == 'with-clim':
                kw, word = {'clim': (-2, 3)}, f'b:{mv}:0:-2,3'
            told.append(f'{how} of {name}')
            try:
                if how == 'figure':
                    fig = Figure()
                    c.plot_on_figure(fig, scalar=da, coast=False, gridlines=False)
                    pcs = [a for ax in fig.axes for a in ax.collections if isinstance(a, PolyCollection)]
                    if len(pcs) != 1:
                        ctx.oracle_fail('plot-on-figure-collections', {**desc, 'history': told[:]}, f'plot_on_figure: {len(pcs)} polygon collections on the figure')
                        return
                    pc = pcs[0]
                else:
                    pc = c.make_poly_collection(arg, **kw)
            except ValueError:
                pc = 'ValueError'
            except TypeError:
                pc = 'TypeError'
            words.append(word)
            held.append([pc, flat, 'clim' in kw, how == 'figure', False, told[-1]])
            ctx.count('artist-history:call:' + how)
            if not isinstance(pc, str):
                ctx.evaluated()
                bad = judge(pc, kept, flat, 'clim' in kw, how == 'figure')
                if bad:
                    ctx.oracle_fail('collection-depends-on-earlier-artists' if edited else bad[0], {**desc, 'history': told[:], 'step': sn},
                                    f"after {told[:-1]}: {told[-1]}: {bad[1]}")
                    return
        else:
            _, frac, what, arg = st
            if quivers and what != 'clim' and (not held or frac < 0.5):
                k = int(frac * 2 * len(quivers)) % len(quivers)
                if apply_quiver_edit(quivers[k][0], what, arg):
                    quivers[k][2] = True
                    edited = True
                    told.append(f'caller: {what} {arg} on its quiver {k}')
                    ctx.count('artist-history:edit-quiver:' + what)
                continue
            if not held:
                continue
            k = int(frac * len(held)) % len(held)
            if isinstance(held[k][0], str):
                continue
            if what == 'vals' and held[k][0].get_array() is None:
                continue
            if apply_edit(held[k][0], what, arg):
                held[k][4] = True
                edited = True
                words.append(edit_word(k, what, arg))
                told.append(f'caller: {what} {arg} on its collection {k} ({held[k][5]})')
                ctx.count('artist-history:edit:' + what)
    # the artists nobody touched are still what they were built as
    for k, (pc, flat, clim_given, excused, touched, how) in enumerate(held):
        if touched or isinstance(pc, str):
            continue
        ctx.evaluated()
        bad = judge(pc, kept, flat, clim_given, excused)
        if bad:
            ctx.oracle_fail('collection-depends-on-earlier-artists', {**desc, 'history': told[:], 'artist': k},
                            f'at the end of {told}: collection {k} ({how}), which the caller never touched: {bad[1]}')
            return
    for k, (q, flat, touched) in enumerate(quivers):
        if touched:
            continue
        ctx.evaluated()
        bad = judge_quiver(q, built.centres, kept, built.conv, flat)
        if bad:
            ctx.oracle_fail('quiver-depends-on-earlier-artists', {**desc, 'history': told[:], 'quiver': k},
                            f'at the end of {told}: quiver {k}, which the caller never touched: {bad[1]}')
            return
    if held:
        line = f"history {rings} {'&'.join(words)}"
        out = ' ## '.join(a[0] if isinstance(a[0], str) else artist_str(a[0]) for a in held)
        items.append((line, out, {**desc, 'op': line, 'call': 'artist-history', 'history': told}))
    if edited:
        ctx.nontrivial((str(recipe), 'artist-history'))
        ctx.count('artist-history:played-with-an-edit')
