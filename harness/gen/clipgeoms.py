"""
Clip geometries for C07 (and reusable by C08/C09): structured, derived from the generator's
ground-truth cell polygons (`Built.polys`), never from emsarray.

Every geometry has integer / dyadic coordinates so GEOS predicates are evaluated on exactly
representable input.  A geometry travels through replay files as hex WKB (exact).
"""
from __future__ import annotations

import random
from fractions import Fraction

import shapely
from shapely.geometry import (GeometryCollection, LineString, MultiLineString, MultiPoint,
                              MultiPolygon, Point, Polygon, box)

CLASSES = ['box', 'polygon', 'line', 'point', 'multi', 'touch-edge', 'touch-corner', 'touch-cell',
           'touch-outside', 'cover-all', 'hug-border', 'hug-strip', 'outside', 'empty']


def fpts(poly) -> list:
    return [(float(x), float(y)) for x, y in poly]


def ground_polygons(built) -> list:
    """shapely polygons of the generator's ground truth; None for a hole and for a cell whose
    ground-truth outline is not a valid polygon (emsarray drops those: C06 `invalid_dropped`)"""
    out = []
    for p in built.polys:
        g = None if p is None else Polygon(fpts(p))
        out.append(g if g is not None and g.is_valid else None)
    return out


def extent(built):
    xs = [float(x) for p in built.polys if p is not None for x, _ in p]
    ys = [float(y) for p in built.polys if p is not None for _, y in p]
    if not xs:
        return (0.0, 0.0, 1.0, 1.0)
    return (min(xs), min(ys), max(xs), max(ys))


def _half(rng: random.Random, lo: float, hi: float) -> float:
    """a half-integer in [lo - 1, hi + 1]"""
    a, b = int(2 * lo) - 2, int(2 * hi) + 2
    return rng.randint(a, b) / 2


def _rand_pt(rng, ext):
    return (_half(rng, ext[0], ext[2]), _half(rng, ext[1], ext[3]))


def boundary_edges(built) -> list:
    """(a, b, owner cell) for edges that belong to exactly one cell"""
    count: dict = {}
    for n, p in enumerate(built.polys):
        if p is None:
            continue
        for a, b in zip(p, p[1:] + p[:1]):
            count.setdefault(frozenset((a, b)), []).append((a, b, n))
    return [v[0] for v in count.values() if len(v) == 1]


def make(rng: random.Random, built, cls: str):
    """one valid geometry of the given class (always returns a shapely geometry)"""
    for _ in range(8):
        g = _make(rng, built, cls)
        if g.is_empty or (g.is_valid and _no_repeats(g)):
            return g
    ext = extent(built)
    return box(ext[0], ext[1], ext[0] + 1, ext[1] + 1)


def _no_repeats(g) -> bool:
    """no repeated consecutive vertices (GEOS refuses zero-length segments in some predicates)"""
    parts = list(g.geoms) if hasattr(g, 'geoms') else [g]
    for part in parts:
        if hasattr(part, 'geoms'):
            if not _no_repeats(part):
                return False
        elif part.geom_type in ('LineString', 'LinearRing'):
            cs = list(part.coords)
            if any(a == b for a, b in zip(cs, cs[1:])):
                return False
        elif part.geom_type == 'Polygon' and not part.is_empty:
            for ring in [part.exterior, *part.interiors]:
                cs = list(ring.coords)
                if any(a == b for a, b in zip(cs, cs[1:])):
                    return False
    return True


def _make(rng: random.Random, built, cls: str):
    ext = extent(built)
    cells = [n for n, p in enumerate(built.polys) if p is not None]
    if not cells:
        return box(0, 0, 1, 1)

    def cell_poly(n):
        return fpts(built.polys[n])

    if cls == 'box':
        x0, y0 = _rand_pt(rng, ext)
        w, h = rng.choice([0.5, 1, 2, 3, 4, 6]), rng.choice([0.5, 1, 2, 3, 4, 6])
        return box(x0, y0, x0 + w, y0 + h)
    if cls == 'polygon':
        for _ in range(50):
            k = rng.choice([3, 3, 4, 5])
            pts = [_rand_pt(rng, ext) for _ in range(k)]
            g = Polygon(pts)
            if g.is_valid and g.area > 0:
                return g
        return box(ext[0], ext[1], (ext[0] + ext[2]) / 2, (ext[1] + ext[3]) / 2)
    if cls == 'line':
        k = rng.choice([2, 2, 3, 4])
        pts = [_rand_pt(rng, ext) for _ in range(k)]
        if len(set(pts)) < 2:
            pts = [(ext[0], ext[1]), (ext[2], ext[3])]
        return LineString(pts)
    if cls == 'point':
        n = rng.choice(cells)
        p = cell_poly(n)
        c = rng.random()
        if c < 0.4:   # interior: mean of the vertices of a triangle fan corner (inside for convex cells; GEOS decides anyway)
            return Point(sum(x for x, _ in p) / len(p), sum(y for _, y in p) / len(p))
        if c < 0.6:   # a vertex
            return Point(rng.choice(p))
        if c < 0.8:   # an edge midpoint
            k = rng.randrange(len(p))
            a, b = p[k], p[(k + 1) % len(p)]
            return Point((a[0] + b[0]) / 2, (a[1] + b[1]) / 2)
        return Point(_rand_pt(rng, ext))
    if cls == 'multi':
        c = rng.random()
        if c < 0.35:
            parts = [_make(rng, built, 'box') for _ in range(2)]
            u = shapely.union_all(parts)      # boxes on half-integers: exact
            return u if not u.is_empty else parts[0]
        if c < 0.55:
            return MultiPoint([make(rng, built, 'point') for _ in range(rng.randint(2, 4))])
        if c < 0.75:
            return MultiLineString([make(rng, built, 'line') for _ in range(2)])
        return GeometryCollection([make(rng, built, rng.choice(['box', 'line', 'point'])) for _ in range(3)])
    if cls == 'touch-edge':
        p = cell_poly(rng.choice(cells))
        k = rng.randrange(len(p))
        return LineString([p[k], p[(k + 1) % len(p)]])
    if cls == 'touch-corner':
        return Point(rng.choice(cell_poly(rng.choice(cells))))
    if cls == 'touch-cell':
        return Polygon(cell_poly(rng.choice(cells)))
    if cls == 'touch-outside':
        edges = boundary_edges(built)
        if not edges:
            return Point(ext[0], ext[1])
        a, b, n = rng.choice(edges)
        a, b = (float(a[0]), float(a[1])), (float(b[0]), float(b[1]))
        p = cell_poly(n)
        cx, cy = sum(x for x, _ in p) / len(p), sum(y for _, y in p) / len(p)
        mx, my = (a[0] + b[0]) / 2, (a[1] + b[1]) / 2
        nx, ny = -(b[1] - a[1]), (b[0] - a[0])
        if nx * (cx - mx) + ny * (cy - my) > 0:
            nx, ny = -nx, -ny
        if rng.random() < 0.5:   # touches along the whole boundary edge
            return Polygon([a, b, (mx + nx, my + ny)])
        return Polygon([a, (a[0] + nx, a[1] + ny), (a[0] + nx - (b[0] - a[0]), a[1] + ny - (b[1] - a[1]))])   # touches at the corner only
    if cls == 'cover-all':
        return box(ext[0] - 1, ext[1] - 1, ext[2] + 1, ext[3] + 1)
    if cls == 'hug-border':
        pts = [pt for n in cells for pt in cell_poly(n)]
        hull = MultiPoint(pts).convex_hull
        if hull.geom_type == 'Polygon':
            return LineString(hull.exterior.coords)
        return hull
    if cls == 'hug-strip':
        grids = built.grids
        if built.conv != 'ugrid':
            ny, nx = grids['face'][1]
            side = rng.choice(['top', 'bottom', 'left', 'right'])
            sel = {'top': [(0, i) for i in range(nx)], 'bottom': [(ny - 1, i) for i in range(nx)],
                   'left': [(j, 0) for j in range(ny)], 'right': [(j, nx - 1) for j in range(ny)]}[side]
            ps = [Polygon(cell_poly(j * nx + i)) for j, i in sel if built.polys[j * nx + i] is not None]
            if ps:
                return GeometryCollection(ps) if len(ps) > 1 else ps[0]
        edges = boundary_edges(built)
        if edges:
            return Polygon(cell_poly(rng.choice(edges)[2]))
        return Polygon(cell_poly(rng.choice(cells)))
    if cls == 'outside':
        return box(ext[2] + 50, ext[3] + 50, ext[2] + 53, ext[3] + 52)
    if cls == 'empty':
        return Polygon()
    raise ValueError(cls)


def enlarge(rng: random.Random, built, g):
    """a geometry that contains `g` as a point set (for the monotonicity clause)"""
    other = make(rng, built, rng.choice(['box', 'line', 'point', 'touch-cell', 'polygon']))
    parts = []
    for x in (g, other):
        if x.is_empty:
            continue
        parts.extend(x.geoms if x.geom_type == 'GeometryCollection' else [x])
    return GeometryCollection(parts)


def to_hex(g) -> str:
    return shapely.to_wkb(g, hex=True)


def from_hex(h: str):
    return shapely.from_wkb(h)
