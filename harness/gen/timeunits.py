"""
Generators for CF time-units strings (property C17).

A *case* is a JSON-able dict
    {'period', 'Y','M','D','h','mi','s', 'off' (minutes east), 'calendar', 'sp': spelling}
from which `spell(case)` builds the units string.  The dict is the ground truth: the oracle
computes the denoted instant from it with Python's `datetime`, never by parsing the string.

`mutate(rng, text)` produces the malformed stream from valid strings.
"""
from __future__ import annotations

import datetime as _dt
import random

# cftime's accepted unit names (`cftime._cftime._units`) - compared with the live list on every run
UNIT_NAMES = ['microseconds', 'microsecond', 'microsec', 'microsecs', 'milliseconds', 'millisecond',
              'millisec', 'millisecs', 'msec', 'msecs', 'ms', 'second', 'seconds', 'sec', 'secs', 's',
              'minute', 'minutes', 'min', 'mins', 'hour', 'hours', 'hr', 'hrs', 'h', 'day', 'days', 'd']
MAIN_PERIODS = ['seconds', 'minutes', 'hours', 'days']
UNIT_SECONDS = {}
for _n in UNIT_NAMES:
    UNIT_SECONDS[_n] = (1e-6 if _n.startswith('micro') else 1e-3 if _n.startswith(('milli', 'ms')) else
                        1 if _n.startswith('s') else 60 if _n.startswith('m') else
                        3600 if _n.startswith('h') else 86400)
UNIT_MICROS = {n: round(v * 1_000_000) for n, v in UNIT_SECONDS.items()}

# every offset from -12:00 to +14:00 in 15 minute steps
OFFSET_GRID = list(range(-12 * 60, 14 * 60 + 1, 15))

GOOD_CALENDARS = ['proleptic_gregorian', 'standard', 'gregorian']
BAD_CALENDARS = ['noleap', 'julian', '360_day', 'all_leap', '365_day', 'bogus', '']

EPOCHS_FIXED = [
    # ordinary
    (1990, 1, 1, 0, 0, 0), (2021, 11, 16, 12, 0, 0), (1970, 1, 1, 0, 0, 0), (2000, 1, 1, 12, 30, 15),
    # leap days
    (2000, 2, 29, 23, 59, 59), (1996, 2, 29, 0, 0, 0), (2400, 2, 29, 6, 7, 8), (4, 2, 29, 0, 0, 0),
    # around month / year ends: the local date and the UTC date differ
    (1999, 12, 31, 23, 59, 59), (2000, 1, 1, 0, 0, 0), (2001, 3, 1, 0, 0, 0), (2004, 3, 1, 0, 30, 0),
    (1900, 2, 28, 23, 0, 0), (1900, 3, 1, 1, 0, 0), (2100, 2, 28, 23, 59, 59),
    # years below 1000 (strftime('%Y') does not pad them)
    (999, 12, 31, 23, 59, 59), (950, 6, 15, 4, 5, 6), (99, 1, 1, 0, 0, 0), (7, 7, 7, 7, 7, 7),
    (1, 1, 2, 0, 0, 0), (1, 1, 1, 0, 0, 0), (1000, 1, 1, 0, 0, 0),
    # far end
    (9999, 12, 31, 23, 59, 59), (9999, 12, 30, 0, 0, 0), (9999, 1, 1, 0, 0, 0),
    # the Gregorian switch (matters for calendar='standard')
    (1582, 10, 15, 0, 0, 0), (1582, 10, 16, 0, 0, 0), (1582, 10, 17, 12, 0, 0), (1582, 11, 1, 0, 0, 0),
    (1582, 12, 31, 0, 0, 0), (1583, 1, 1, 0, 0, 0), (1582, 10, 4, 0, 0, 0), (1500, 3, 1, 0, 0, 0),
]


def days_in_month(y: int, m: int) -> int:
    if m == 2:
        return 29 if (y % 4 == 0 and y % 100 != 0) or y % 400 == 0 else 28
    return 30 if m in (4, 6, 9, 11) else 31


def random_epoch(rng: random.Random) -> tuple:
    c = rng.random()
    if c < 0.35:
        return rng.choice(EPOCHS_FIXED)
    if c < 0.5:
        y = rng.choice([rng.randint(1, 999), rng.randint(1, 99), rng.randint(1, 9)])
    elif c < 0.6:
        y = rng.choice([1582, 1583, 1581, 9999, 1, 2])
    else:
        y = rng.randint(1000, 9999) if rng.random() < 0.3 else rng.randint(1850, 2100)
    m = rng.randint(1, 12)
    d = rng.choice([1, days_in_month(y, m), rng.randint(1, days_in_month(y, m))])
    tod = rng.choice([(0, 0, 0), (23, 59, 59), (12, 0, 0), (0, 0, 1), (23, 0, 0),
                      (rng.randint(0, 23), rng.randint(0, 59), rng.randint(0, 59)),
                      (rng.randint(0, 23), rng.randint(0, 59), 0)])
    return (y, m, d, *tod)


def random_offset(rng: random.Random) -> int:
    c = rng.random()
    if c < 0.6:
        return rng.choice(OFFSET_GRID)
    if c < 0.7:
        return rng.choice([0, 1, -1, 59, -59, 60, -60, 599, 600, -600, 1439, -1439, 840, -720, -210, 480, 345, -30])
    return rng.randint(-1439, 1439)


SPELL_TZ = ['colon', 'compact', 'hours', 'Z', 'none']


def random_spelling(rng: random.Random, case: dict) -> dict:
    """A spelling under which the case's fields are what cftime must read."""
    off, s = case['off'], case['s']
    tz_choices = ['colon', 'colon', 'compact']
    if off % 60 == 0:
        tz_choices.append('hours')
    if off == 0:
        tz_choices += ['Z', 'none', 'none']
    sp = {
        'sep': rng.choice(['T', ' ', ' ', 'T', 't', '_']) if rng.random() < 0.95 else rng.choice('x@/'),
        'seconds': True if s != 0 else rng.random() < 0.7,
        'pad': rng.random() < 0.8,
        'tz': rng.choice(tz_choices),
        'tzsep': rng.choice([' ', '', ' ']),
        'frac': rng.choice(['', '', '', '', '0', '000', '000000', '0000000', '00000099']) if rng.random() < 0.25 else '',
        'time': True,
        'ws': rng.choice([None] * 8 + ['lead', 'double', 'tab', 'trail', 'fs']),
        'case': rng.choice([None] * 8 + ['upper', 'title', 'since']),
        'tail': rng.choice([''] * 9 + [' UTC', ' trailing words', '  ']),
        'yearpad': rng.random() < 0.85,
    }
    if case['h'] == 0 and case['mi'] == 0 and s == 0 and rng.random() < 0.15:
        # date only; a directly attached sign would be read as a time separator, so keep the blank
        sp['time'] = False
        sp['tzsep'] = ' '
    if not sp['seconds']:
        sp['frac'] = ''
    return sp


def tz_text(off: int, style: str) -> str:
    if style == 'none':
        return ''
    if style == 'Z':
        return 'Z'
    sign = '-' if off < 0 else '+'
    a = abs(off)
    if style == 'hours':
        return f'{sign}{a // 60:02d}'
    if style == 'compact':
        return f'{sign}{a // 60:02d}{a % 60:02d}'
    if style == 'colon1':
        # hour field not padded (`+9:30`): pandas / xarray read the offset, cftime on its own does not
        return f'{sign}{a // 60}:{a % 60:02d}'
    return f'{sign}{a // 60:02d}:{a % 60:02d}'


def spell(case: dict) -> str:
    sp = case.get('sp') or {}
    pad = sp.get('pad', True)
    f2 = (lambda v: f'{v:02d}') if pad else str
    year = f"{case['Y']:04d}" if sp.get('yearpad', True) else str(case['Y'])
    text = f"{year}-{f2(case['M'])}-{f2(case['D'])}"
    if sp.get('time', True):
        text += f"{sp.get('sep', ' ')}{f2(case['h'])}:{case['mi']:02d}" if pad else \
            f"{sp.get('sep', ' ')}{case['h']}:{case['mi']}"
        if sp.get('seconds', True):
            text += f":{f2(case['s'])}"
            if sp.get('frac'):
                text += '.' + sp['frac']
    tz = tz_text(case['off'], sp.get('tz', 'colon'))
    if tz:
        text += sp.get('tzsep', ' ') + tz
    text += sp.get('tail', '')
    period, since = case['period'], 'since'
    c = sp.get('case')
    if c == 'upper':
        period = period.upper()
    elif c == 'title':
        period = period.title()
    elif c == 'since':
        since = 'SINCE'
    ws = sp.get('ws')
    a, b = ' ', ' '
    lead = ''
    if ws == 'lead':
        lead = '  '
    elif ws == 'double':
        a, b = '  ', '   '
    elif ws == 'tab':
        a, b = '\t', ' \t'
    elif ws == 'fs':
        a = '\x1c'
    elif ws == 'trail':
        text += ' \t'
    return f'{lead}{period}{a}{since}{b}{text}'


def canonical(case: dict) -> str:
    """the EMS spelling of a case - what the rewritten units must be"""
    a = abs(case['off'])
    return (f"{case['period'].lower()} since {case['Y']:04d}-{case['M']:02d}-{case['D']:02d} "
            f"{case['h']:02d}:{case['mi']:02d}:{case['s']:02d} {'-' if case['off'] < 0 else '+'}{a // 60:02d}:{a % 60:02d}")


PY_MIN = _dt.datetime(1, 1, 1)
PY_MAX = _dt.datetime(9999, 12, 31, 23, 59, 59)


def utc_instant(case: dict):
    """The UTC instant a case denotes as a naive Python datetime, or None when it is not
    representable (invalid field, outside year 1..9999)."""
    try:
        local = _dt.datetime(case['Y'], case['M'], case['D'], case['h'], case['mi'], case['s'])
        utc = local - _dt.timedelta(minutes=case['off'])
    except (ValueError, OverflowError):
        return None
    return utc


def python_calendar_ok(calendar: str, utc: _dt.datetime) -> bool:
    """can cftime hand the reference out as a Python datetime under this calendar"""
    cal = calendar.lower()
    if cal == 'proleptic_gregorian':
        return True
    if cal in ('standard', 'gregorian'):
        return utc.year > 1582 or (utc.year == 1582 and utc.month >= 10 and utc.day > 15)
    return False


def is_valid(case: dict) -> bool:
    """Is the case inside the property's quantifier: a real date and time of day, an offset below
    24 h, a supported unit and calendar, no sub-second part, representable before and after the shift."""
    if case['period'].lower() not in UNIT_NAMES:
        return False
    if abs(case['off']) >= 1440:
        return False
    utc = utc_instant(case)
    if utc is None:
        return False
    if not python_calendar_ok(case['calendar'], utc):
        return False
    sp = case.get('sp') or {}
    frac = sp.get('frac', '') if sp.get('seconds', True) and sp.get('time', True) else ''
    if frac and int(float('0.' + frac) * 1e6) != 0:
        return False
    return True


def f5_class(off: int) -> bool:
    """offsets the unrepaired formatter gets wrong: one-digit hour field after floor division, or
    a negative offset with a minute part"""
    h, m = divmod(off, 60)
    return abs(h) < 10 or (off < 0 and m != 0)


def random_case(rng: random.Random, periods=None, calendar=None) -> dict:
    y, m, d, h, mi, s = random_epoch(rng)
    case = {'period': rng.choice(periods or (MAIN_PERIODS * 3 + UNIT_NAMES)),
            'Y': y, 'M': m, 'D': d, 'h': h, 'mi': mi, 's': s, 'off': random_offset(rng),
            'calendar': calendar or rng.choice(['proleptic_gregorian'] * 6 + ['standard', 'gregorian', 'Proleptic_Gregorian', 'STANDARD'])}
    case['sp'] = random_spelling(rng, case)
    return case


# --------------------------------------------------------------------------
# malformed stream

ALPHABET = '0123456789-+:. TZz'


def mutate(rng: random.Random, text: str) -> str:
    """One or two random edits of a (mostly valid) units string."""
    for _ in range(rng.choice([1, 1, 2])):
        c = rng.random()
        if c < 0.25 and text:
            k = rng.randrange(len(text))
            text = text[:k] + text[k + 1:]
        elif c < 0.5:
            k = rng.randrange(len(text) + 1)
            text = text[:k] + rng.choice(ALPHABET) + text[k:]
        elif c < 0.7 and text:
            k = rng.randrange(len(text))
            text = text[:k] + rng.choice(ALPHABET) + text[k + 1:]
        elif c < 0.8:
            k = rng.randrange(len(text) + 1)
            text = text[:k]
        elif c < 0.9:
            k = rng.randrange(len(text) + 1)
            text = text[:k] + rng.choice([' ', '  ', '\t', '\n', '\x0b', '\x1f', 'T', '%', ';', '|']) + text[k:]
        else:
            parts = text.split(' ')
            rng.shuffle(parts)
            text = ' '.join(parts)
    return text


MALFORMED_FIXED = [
    '', ' ', 'days', 'days since', 'days since ', 'days 1990-01-01', 'since days 1990-01-01',
    'days since 1990', 'days since 1990-01', 'days since 1990-01-', 'days since -', 'days since +',
    'days since 1990-01-01', 'days since 1990-01-01 ', 'days since 1990-01-01+10:00',
    'days since 1990-01-01-10:00', 'days since 1990-01-01 +10:00', 'days since 1990-01-01T+10:00',
    'days since 1990-01-01 00:00:00  +10:00', 'days since 1990-01-01 00:00:00 +8:00',
    'days since 1990-01-01 00:00:00 +8', 'days since 1990-01-01 00:00:00 8:00',
    'days since 1990-01-01 00:00:00 +080', 'days since 1990-01-01 00:00:00 +08:0',
    'days since 1990-01-01 00:00:00 +08:000', 'days since 1990-01-01 00:00:00 +08000',
    'days since 1990-01-01 00:00:00 z', 'days since 1990-01-01 00:00:00Z+10:00',
    'days since 1990-01-01 00:00:00-+10:00', 'days since 1990-01-01 00:00:00 ZZ',
    'days since 1990-01-01 00:00:00 +24:00', 'days since 1990-01-01 00:00:00 -24:00',
    'days since 1990-01-01 00:00:00 +23:59', 'days since 1990-01-01 00:00:00 -23:59',
    'days since 1990-01-01 00:00:00 +10:99', 'days since 1990-01-01 00:00:00 +99:00',
    'days since 1990-01-01 00:00:00 -00:00', 'days since 1990-01-01 00:00:00 -00:30',
    'days since 1990-01-01 00:00:00.5 +10:00', 'days since 1990-01-01 00:00:00.000001 +10:00',
    'days since 1990-01-01 00:00:00.0000009 +10:00', 'days since 1990-01-01 00:00:00. +10:00',
    'days since 1990-01-01 00:00:00.+10:00', 'days since 1990-02-30', 'days since 1990-13-01',
    'days since 1990-00-01', 'days since 1990-01-00', 'days since 1990-01-32', 'days since 1900-02-29',
    'days since 2000-02-29', 'days since 1990-01-01 24:00:00', 'days since 1990-01-01 23:60:00',
    'days since 1990-01-01 23:59:60', 'days since 1990-01-01 0:0:0', 'days since 1990-1-1 1:2',
    'days since 1990-1-1 1:2:3', 'days since 1990-001-01', 'days since 1990-01-001',
    'days since 1990-01-01 001:00', 'days since 1990-01-01 00:000', 'days since 1990-01-01 00:00:000',
    'days since 0000-01-01', 'days since 0-1-1', 'days since -0001-01-01', 'days since +1990-01-01',
    'days since 10000-01-01', 'days since 10000-01-01 00:00:00 +10:00', 'days since 99999999999999999999-01-01',
    'days since 0001-01-01 00:00:00 +00:01', 'days since 0001-01-01 00:00:00 -00:01',
    'days since 9999-12-31 23:59:59 -00:01', 'days since 9999-12-31 23:59:59 +00:01',
    'days since 0000-12-31 23:00:00 -10:00', 'days since 10000-01-01 00:00:00 +10:00',
    'fortnights since 1990-01-01', 'months since 1990-01-01', 'years since 1990-01-01',
    'common_years since 1990-01-01', 'DAYS SINCE 1990-01-01', 'days sInCe 1990-01-01',
    'days sincee 1990-01-01', 'days sinc 1990-01-01', 'days\tsince\t1990-01-01', 'days\x1csince\x1d1990-01-01',
    'days since\n1990-01-01', 'days since 1990-01-01\n00:00:00', 'days since 1990-01-01 00:00:00\n+10:00',
    'days since 1990-01-01 00:00:00 +10:00 ', 'days since 1990-01-01 00:00:00 +10:00\t\n',
    'days since 1990-01-01 00:00:00 +10:00 trailing', 'days since 1990-01-01 00:00:00 +10:00:00',
    'days since 1990-01-01T00:00:00+10:00', 'days since 1990-01-01T00:00:00+1000',
    'days since 1990-01-01T00:00:00+10', 'days since 1990-01-01T00:00+10', 'days since 1990-01-01T00+10',
    'days since 1990-01-01 00 +10:00', 'days since 1990-01-01 00: +10:00', 'days since 1990-01-01 :00 +10:00',
    'days since 19900101', 'days since 1990/01/01', 'days since 1990-01-01 00.00.00',
    'd since 1990-01-01', 's since 1990-01-01', 'ms since 1990-01-01', 'h since 1990-01-01 00:00:00 +05:45',
    'microseconds since 1990-01-01 00:00:00 -09:30', 'days  since  1990-01-01  00:00:00',
    'days since 1582-10-15 00:00:00', 'days since 1582-10-16 00:00:00', 'days since 1582-10-10 00:00:00',
    'days since 1582-11-01 00:00:00', 'days since 1582-11-16 00:00:00', 'days since 1500-02-29 00:00:00',
]
