"""
Two further input classes of C02.

1. LARGE grids (`conv: 'big'`).  Real model output has 10^5 .. 10^6 cells; everything the other generators build has a
   few dozen.  Code that treats a large grid differently from a small one (blocks, chunks, a vectorised path above a
   threshold, an integer type that runs out) is never entered by them.  A big recipe is parametric - shape, shear,
   origin, rectangular *patches* of land - so a replay file stays a few hundred bytes; dataset and ground truth are
   built with numpy from the same integer lattice, each by its own route:

   * `cf2d` / `shoc_simple` with stored bounds: a patch is a block of cells without coordinates and without bounds;
   * `cf2d` / `shoc_simple` without bounds: a patch is a block of cells without centre coordinates, the expected
     polygons are the bounds the convention documents for that case (corner = mean of the surrounding centres that
     exist, a cell whose two neighbours along an axis are both missing does not contribute, a cell with a corner that
     has no centre around it has no polygon);
   * `shoc_standard`: a patch is a block of grid corners without coordinates (the faces touching it have no polygon);
   * `cf1d`: no cell can lack geometry; uneven axes, ascending or descending, bounds derived or stored;
   * `ugrid`: a quadrilateral mesh, a patch is a block of triangular faces (missing entries in the face-node table).

   All coordinates are integers in units of 1/1024 degree, multiples of 12 at the lattice nodes, so every mean of
   1 .. 4 of them and every mid-point is again an integer: float arithmetic is exact and is compared exactly.

2. HISTORIES OF HELD RESULTS (`held_history`).  A script asks for the selectors / the point datasets of several
   cells first and uses them afterwards (a list of stations, a reference cell kept while looping over others).
   What was handed out for position n has to stay the selector / the data of cell n whatever is asked later of
   the same convention object.  Requests of every grid kind are made through `selector_for_index`,
   `selector_for_indexes` and `select_index`, all of them before any is used, then used in another order and judged
   against the generator's tags (`VarInfo.base`), never against another answer of emsarray.
"""
from __future__ import annotations

import hashlib
import json
import math
import random
import warnings

import numpy as np
import shapely
import xarray as xr

from harness import util
from harness.gen import datasets as G

SCALE = 12            # lattice nodes are multiples of 12: means of 1..4 values and mid-points stay integers
UNIT = 1.0 / 1024     # one integer step, in degrees (a power of two: exact)

BIG_KINDS_WITH_HOLES = [('cf2d', 'stored'), ('shoc_standard', None), ('cf2d', 'none'), ('shoc_simple', 'stored'),
                        ('shoc_simple', 'none')]
BIG_KINDS_OTHER = [('ugrid', None), ('cf1d', 'none'), ('cf1d', 'contig')]


def sub_rng(seed, *what) -> random.Random:
    """a stream of its own: a function of the run's seed and of what it is for, so a replay draws the same"""
    key = json.dumps([seed, *what], sort_keys=True, default=str)
    return random.Random(int(hashlib.sha256(key.encode()).hexdigest()[:16], 16))


# --------------------------------------------------------------------------
# 1. large grids: recipes

def _big_shape(rng: random.Random, lo: int, hi: int) -> tuple:
    """(ny, nx) with lo <= ny * nx <= hi, sizes log-uniform, aspect between 1:3 and 3:1"""
    for _ in range(100):
        n = int(math.exp(rng.uniform(math.log(lo), math.log(hi))))
        aspect = math.exp(rng.uniform(-1.1, 1.1))
        ny = max(2, int(round(math.sqrt(n * aspect))))
        nx = max(2, int(round(n / ny)))
        if lo <= ny * nx <= hi and ny != nx:
            return ny, nx
    raise RuntimeError('no shape')


def _patches(rng: random.Random, ny: int, nx: int, min_side: int) -> list:
    """rectangular patches [j, i, h, w], scattered over the whole grid: one in the first tenth of the rows, one in the
    last tenth, the rest anywhere; never touching the outermost ring of cells"""
    out = []
    n = rng.randint(3, 7)
    for k in range(n):
        h, w = rng.randint(min_side, 3), rng.randint(min_side, 3)
        if k == 0:
            j = rng.randint(1, max(1, ny // 10))
        elif k == 1:
            j = rng.randint(ny - ny // 10 - 4, ny - 5)
        else:
            j = rng.randint(1, ny - 5)
        i = rng.randint(1, nx - 5)
        out.append([j, i, h, w])
    return out


def random_big(rng: random.Random, kind: tuple, lo: int, hi: int) -> dict:
    conv, bounds = kind
    ny, nx = _big_shape(rng, lo, hi)
    r = {'conv': 'big', 'as': conv, 'ny': ny, 'nx': nx,
         'origin': [rng.randint(-40, 40), rng.randint(-40, 40)]}
    if conv == 'cf1d':
        r['bounds'] = bounds
        # an axis is the running sum of a short cycle of steps, from a start, ascending or descending
        for ax in ('lat', 'lon'):
            cyc = [rng.choice([1, 2, 3]) for _ in range(rng.randint(1, 4))]
            r[ax] = {'steps': cyc, 'descending': rng.random() < 0.4}
        r['lon_first'] = rng.random() < 0.5
    else:
        r['shear'] = G.random_shear(rng)
        if conv in ('cf2d', 'shoc_simple'):
            r['bounds'] = bounds
            # (without stored bounds a single missing centre leaves every polygon in place: patches of 2 x 2 and more)
            r['patches'] = _patches(rng, ny, nx, 1 if bounds == 'stored' else 2)
            if bounds == 'none':
                r['patches'].append([rng.randint(1, ny - 3), rng.randint(1, nx - 3), 1, 1])
        else:
            r['patches'] = _patches(rng, ny, nx, 1)
        if conv == 'ugrid':
            r['start_index'] = rng.choice([0, 1])
            r['fill'] = rng.choice(['nan', 'attr'])
    # one tagged variable on the face grid: an extra dimension before, between (2-D grids) or after the grid's
    # dimensions, the grid's own dimensions stored either way round
    r['var'] = {'base': rng.randrange(1000, 9000), 'nt': rng.randint(1, 2),
                'order': rng.choice([[0, 1, 2], [1, 2, 0], [2, 1, 0], [1, 0, 2], [0, 2, 1], [2, 0, 1]]),
                'dtype': rng.choice(['f8', 'i8', 'f8'])}
    return r


def big_recipes(ctx) -> list:
    """the large grids of one run: one that has cells without geometry (curvilinear kinds in turn), one of the other
    kinds; thorough: more of both and one of a million cells"""
    rng = sub_rng(ctx.seed, 'c02-extra6-big', ctx.tier, bool(getattr(ctx, 'searching', False)))
    at = rng.randrange(100)
    out = [random_big(rng, BIG_KINDS_WITH_HOLES[at % len(BIG_KINDS_WITH_HOLES)], 135_000, 300_000),
           random_big(rng, BIG_KINDS_OTHER[at % len(BIG_KINDS_OTHER)], 70_000, 140_000)]
    if ctx.thorough:
        for k in range(1, len(BIG_KINDS_WITH_HOLES)):
            out.append(random_big(rng, BIG_KINDS_WITH_HOLES[(at + k) % len(BIG_KINDS_WITH_HOLES)], 70_000, 300_000))
        for k in range(1, len(BIG_KINDS_OTHER)):
            out.append(random_big(rng, BIG_KINDS_OTHER[(at + k) % len(BIG_KINDS_OTHER)], 70_000, 300_000))
        out.append(random_big(rng, BIG_KINDS_WITH_HOLES[(at + 1) % 2], 1_050_000, 1_200_000))
    return out


# --------------------------------------------------------------------------
# 1. large grids: dataset + ground truth

class BigBuilt:
    """ground truth of a large grid, as integer arrays in units of 1/1024 degree

    `pts`   (n, 4, 2) int64: the vertices of cell n, in the order the convention documents
    `size`  (n,) int: number of vertices of cell n (0: the cell has no geometry; 3 / 4)
    `cen`   (n, 2) int64 and `has_cen` (n,) bool: the centre of cell n, where the dataset stores one
    `shape` the shape of the face grid; `dims` its dimensions; position n is the C-order position in `shape`
    """
    def __init__(self, recipe, ds, conv, dims, shape, pts, size, cen, has_cen, kinds):
        self.recipe, self.ds, self.conv = recipe, ds, conv
        self.dims, self.shape = tuple(dims), tuple(shape)
        self.pts, self.size, self.cen, self.has_cen = pts, size, cen, has_cen
        self.kinds = kinds          # kind name -> number of positions

    @property
    def conv_class(self):
        import emsarray.conventions as c
        return {'cf1d': c.grid.CFGrid1D, 'cf2d': c.grid.CFGrid2D, 'shoc_simple': c.shoc.ShocSimple,
                'shoc_standard': c.shoc.ShocStandard, 'ugrid': c.ugrid.UGrid}[self.conv]


def _f(a, missing=None):
    out = np.asarray(a, dtype='i8').astype('f8') * UNIT
    if missing is not None:
        out[missing] = np.nan
    return out


def _mask_of(patches, ny, nx) -> np.ndarray:
    m = np.zeros((ny, nx), dtype=bool)
    for j, i, h, w in patches:
        m[j:j + h, i:i + w] = True
    return m


def _nodes(r):
    ny, nx = r['ny'], r['nx']
    a, b, c, d = r['shear']
    x0, y0 = r['origin']
    J, I = np.meshgrid(np.arange(ny + 1, dtype='i8'), np.arange(nx + 1, dtype='i8'), indexing='ij')
    return SCALE * (x0 + a * I + b * J), SCALE * (y0 + c * I + d * J)


def _corner_stack(N):
    """(ny, nx, 4): the node values at (j, i), (j, i+1), (j+1, i+1), (j+1, i)"""
    return np.stack([N[:-1, :-1], N[:-1, 1:], N[1:, 1:], N[1:, :-1]], axis=-1)


def _exact_div(total, count):
    q, rem = np.divmod(total, np.maximum(count, 1))
    assert not rem[count > 0].any(), 'generator: a mean is not an integer'
    return q


def _derived_corners(C, missing):
    """the documented bounds of a 2-D coordinate without stored bounds, for integer centres `C` with `missing`:
    returns ((ny, nx, 4) values, (ny, nx) bool: every corner of the cell exists)"""
    ny, nx = C.shape
    pad = np.pad(missing, 1, constant_values=False)
    drop = (pad[:-2, 1:-1] & pad[2:, 1:-1]) | (pad[1:-1, :-2] & pad[1:-1, 2:])
    gone = missing | drop
    val = np.where(gone, 0, C)
    cnt = (~gone).astype('i8')
    vp, cp = np.pad(val, 1), np.pad(cnt, 1)
    total = vp[:-1, :-1] + vp[:-1, 1:] + vp[1:, :-1] + vp[1:, 1:]
    count = cp[:-1, :-1] + cp[:-1, 1:] + cp[1:, :-1] + cp[1:, 1:]
    grid = _exact_div(total, count)
    return _corner_stack(grid), _corner_stack(count > 0).all(axis=-1)


def _var(r, gdims, gshape):
    """the tagged variable: value at C-order position p of the stored array is base + p"""
    v = r['var']
    dims = ['time'] + list(gdims)
    shape = [v['nt']] + list(gshape)
    order = [k for k in v['order'] if k < len(dims)]
    dims = [dims[k] for k in order]
    shape = [shape[k] for k in order]
    n = int(np.prod(shape))
    data = (np.arange(n, dtype='i8') + v['base']).astype(v['dtype']).reshape(shape)
    return xr.DataArray(data, dims=dims)


def expected_flat(bb: BigBuilt) -> np.ndarray:
    """(nt, n): the tag of cell n at time t, from the storage order of the recipe alone"""
    v = bb.recipe['var']
    dims = ['time'] + list(bb.dims)
    shape = [v['nt']] + list(bb.shape)
    order = [k for k in v['order'] if k < len(dims)]
    sdims = [dims[k] for k in order]
    sshape = [shape[k] for k in order]
    stride = {}
    acc = 1
    for d, s in zip(reversed(sdims), reversed(sshape)):
        stride[d] = acc
        acc *= s
    n = int(np.prod(bb.shape))
    comps = np.unravel_index(np.arange(n), bb.shape)
    pos = sum(stride[d] * comp.astype('i8') for d, comp in zip(bb.dims, comps))
    t = np.arange(v['nt'], dtype='i8')[:, None] * stride['time']
    return (v['base'] + t + pos[None, :]).astype('f8')


def build_big(r: dict) -> BigBuilt:
    conv = r['as']
    ny, nx = r['ny'], r['nx']
    n = ny * nx
    if conv == 'cf1d':
        return _build_big_cf1d(r)
    X, Y = _nodes(r)
    patches = r.get('patches', [])
    lat_attrs = {'standard_name': 'latitude', 'units': 'degrees_north'}
    lon_attrs = {'standard_name': 'longitude', 'units': 'degrees_east'}
    if conv in ('cf2d', 'shoc_simple'):
        shoc = conv == 'shoc_simple'
        ydim, xdim = ('j', 'i') if shoc else ('y', 'x')
        latname, lonname = ('latitude', 'longitude') if shoc else ('lat', 'lon')
        missing = _mask_of(patches, ny, nx)
        cx4, cy4 = _corner_stack(X), _corner_stack(Y)
        cx, cy = _exact_div(cx4.sum(axis=-1), np.full((ny, nx), 4)), _exact_div(cy4.sum(axis=-1), np.full((ny, nx), 4))
        attrs = {'Conventions': 'CF-1.4'}
        if shoc:
            attrs['ems_version'] = 'v1.2.3'
        ds = xr.Dataset(attrs=attrs)
        if r['bounds'] == 'stored':
            lat_attrs['bounds'], lon_attrs['bounds'] = latname + '_bounds', lonname + '_bounds'
            px, py, has = cx4, cy4, ~missing
        else:
            (px, okx), (py, oky) = _derived_corners(cx, missing), _derived_corners(cy, missing)
            has = okx & oky
        ds = ds.assign_coords({latname: xr.DataArray(_f(cy, missing), dims=[ydim, xdim], attrs=lat_attrs),
                               lonname: xr.DataArray(_f(cx, missing), dims=[ydim, xdim], attrs=lon_attrs)})
        if r['bounds'] == 'stored':
            m4 = np.broadcast_to(missing[..., None], cx4.shape)
            ds[lonname + '_bounds'] = xr.DataArray(_f(cx4, m4), dims=[ydim, xdim, 'nv'])
            ds[latname + '_bounds'] = xr.DataArray(_f(cy4, m4), dims=[ydim, xdim, 'nv'])
        pts = np.stack([px, py], axis=-1).reshape(n, 4, 2)
        size = np.where(has.reshape(n), 4, 0)
        cen = np.stack([cx, cy], axis=-1).reshape(n, 2)
        has_cen = ~missing.reshape(n)
        dims, kinds = (ydim, xdim), {'face': n}
    elif conv == 'shoc_standard':
        gone = _mask_of(patches, ny + 1, nx + 1)           # grid corners without coordinates
        g4 = _corner_stack(gone).any(axis=-1)
        px, py = _corner_stack(X), _corner_stack(Y)
        cx, cy = _exact_div(px.sum(axis=-1), np.full((ny, nx), 4)), _exact_div(py.sum(axis=-1), np.full((ny, nx), 4))
        ds = xr.Dataset(attrs={'Conventions': 'CF-1.0', 'title': 'shoc standard'})
        gdims = {'face': ('j_centre', 'i_centre'), 'left': ('j_left', 'i_left'),
                 'back': ('j_back', 'i_back'), 'node': ('j_node', 'i_node')}
        grids = {
            'face': (cx, cy, g4),
            'left': ((X[:-1, :] + X[1:, :]) // 2, (Y[:-1, :] + Y[1:, :]) // 2, gone[:-1, :] | gone[1:, :]),
            'back': ((X[:, :-1] + X[:, 1:]) // 2, (Y[:, :-1] + Y[:, 1:]) // 2, gone[:, :-1] | gone[:, 1:]),
            'node': (X, Y, gone)}
        names = {'face': ('y_centre', 'x_centre'), 'left': ('y_left', 'x_left'),
                 'back': ('y_back', 'x_back'), 'node': ('y_grid', 'x_grid')}
        coords = {}
        for kind, (gx, gy, gm) in grids.items():
            yn, xn = names[kind]
            coords[xn] = xr.DataArray(_f(gx, gm), dims=gdims[kind], attrs={'units': 'degrees_east', 'coordinate_type': 'longitude'})
            coords[yn] = xr.DataArray(_f(gy, gm), dims=gdims[kind], attrs={'units': 'degrees_north', 'coordinate_type': 'latitude'})
        ds = ds.assign_coords(coords)
        pts = np.stack([px, py], axis=-1).reshape(n, 4, 2)
        size = np.where(g4.reshape(n), 0, 4)
        cen = np.stack([cx, cy], axis=-1).reshape(n, 2)
        has_cen = ~g4.reshape(n)
        dims = gdims['face']
        kinds = {'face': n, 'left': ny * (nx + 1), 'back': (ny + 1) * nx, 'node': (ny + 1) * (nx + 1)}
    elif conv == 'ugrid':
        tri = _mask_of(patches, ny, nx).reshape(n)          # these faces are triangles
        ids = np.arange((ny + 1) * (nx + 1), dtype='i8').reshape(ny + 1, nx + 1)
        table = _corner_stack(ids).reshape(n, 4)
        px, py = _corner_stack(X).reshape(n, 4), _corner_stack(Y).reshape(n, 4)
        size = np.where(tri, 3, 4)
        total_x = np.where(tri, px[:, :3].sum(axis=1), px.sum(axis=1))
        total_y = np.where(tri, py[:, :3].sum(axis=1), py.sum(axis=1))
        cen = np.stack([_exact_div(total_x, size), _exact_div(total_y, size)], axis=-1)
        has_cen = np.ones(n, dtype=bool)
        base = r.get('start_index', 0)
        if r.get('fill', 'nan') == 'nan':
            data = (table + base).astype('f8')
            data[tri, 3] = np.nan
            tattrs = {}
        else:
            data = (table + base).astype('i4')
            data[tri, 3] = 999999
            tattrs = {'_FillValue': np.int32(999999)}
        ds = xr.Dataset(attrs={'Conventions': 'UGRID-1.0'})
        ds['Mesh2_node_x'] = xr.DataArray(_f(X).reshape(-1), dims=['nMesh2_node'], attrs={'standard_name': 'longitude'})
        ds['Mesh2_node_y'] = xr.DataArray(_f(Y).reshape(-1), dims=['nMesh2_node'], attrs={'standard_name': 'latitude'})
        ds['Mesh2_face_nodes'] = xr.DataArray(data, dims=['nMesh2_face', 'nMaxMesh2_face_nodes'],
                                              attrs={'cf_role': 'face_node_connectivity', 'start_index': base, **tattrs})
        ds['Mesh2_face_x'] = xr.DataArray(_f(cen[:, 0]), dims=['nMesh2_face'])
        ds['Mesh2_face_y'] = xr.DataArray(_f(cen[:, 1]), dims=['nMesh2_face'])
        ds['Mesh2'] = xr.DataArray(np.int32(0), attrs={
            'cf_role': 'mesh_topology', 'topology_dimension': 2, 'node_coordinates': 'Mesh2_node_x Mesh2_node_y',
            'face_node_connectivity': 'Mesh2_face_nodes', 'face_dimension': 'nMesh2_face',
            'face_coordinates': 'Mesh2_face_x Mesh2_face_y'})
        pts = np.stack([px, py], axis=-1)
        ds['tag'] = _var(r, ('nMesh2_face',), (n,))
        return BigBuilt(r, ds, conv, ('nMesh2_face',), (n,), pts, size, cen, has_cen,
                        {'face': n, 'node': (ny + 1) * (nx + 1)})
    else:
        raise ValueError(conv)
    ds['tag'] = _var(r, dims, (ny, nx))
    return BigBuilt(r, ds, conv, dims, (ny, nx), pts, size, cen, has_cen, kinds)


def _axis_values(spec, n, start):
    steps = np.resize(np.asarray(spec['steps'], dtype='i8'), n - 1)
    vals = SCALE * (start + np.concatenate([[0], np.cumsum(steps)]))
    return vals[::-1].copy() if spec.get('descending') else vals


def _mid_bounds(vals):
    first, last = vals[1] - vals[0], vals[-1] - vals[-2]
    mids = np.concatenate([[vals[0] - first // 2], (vals[1:] + vals[:-1]) // 2, [vals[-1] + last // 2]])
    return mids[:-1], mids[1:]


def _build_big_cf1d(r: dict) -> BigBuilt:
    ny, nx = r['ny'], r['nx']
    n = ny * nx
    lat = _axis_values(r['lat'], ny, r['origin'][1])
    lon = _axis_values(r['lon'], nx, r['origin'][0])
    (y0, y1), (x0, x1) = _mid_bounds(lat), _mid_bounds(lon)
    lat_attrs = {'standard_name': 'latitude', 'units': 'degrees_north'}
    lon_attrs = {'standard_name': 'longitude', 'units': 'degrees_east'}
    stored = r.get('bounds', 'none') != 'none'
    if stored:
        lat_attrs['bounds'], lon_attrs['bounds'] = 'lat_bnds', 'lon_bnds'
    lat_da = xr.DataArray(_f(lat), dims=['lat'], attrs=lat_attrs)
    lon_da = xr.DataArray(_f(lon), dims=['lon'], attrs=lon_attrs)
    ds = xr.Dataset(attrs={'Conventions': 'CF-1.4'})
    ds = ds.assign_coords({'lon': lon_da}).assign_coords({'lat': lat_da}) if r.get('lon_first') else \
        ds.assign_coords({'lat': lat_da}).assign_coords({'lon': lon_da})
    if stored:
        ds['lat_bnds'] = xr.DataArray(_f(np.stack([y0, y1], axis=-1)), dims=['lat', 'nv'])
        ds['lon_bnds'] = xr.DataArray(_f(np.stack([x0, x1], axis=-1)), dims=['lon', 'nv'])
    # cell (j, i): (x0, y0), (x1, y0), (x1, y1), (x0, y1)
    XX0, YY0 = np.meshgrid(x0, y0)
    XX1, YY1 = np.meshgrid(x1, y1)
    px = np.stack([XX0, XX1, XX1, XX0], axis=-1)
    py = np.stack([YY0, YY0, YY1, YY1], axis=-1)
    pts = np.stack([px, py], axis=-1).reshape(n, 4, 2)
    CX, CY = np.meshgrid(lon, lat)
    cen = np.stack([CX, CY], axis=-1).reshape(n, 2)
    ds['tag'] = _var(r, ('lat', 'lon'), (ny, nx))
    return BigBuilt(r, ds, 'cf1d', ('lat', 'lon'), (ny, nx), pts, np.full(n, 4), cen, np.ones(n, dtype=bool), {'face': n})


# --------------------------------------------------------------------------
# 1. large grids: the property, on the real code

def _impl_vertices(polys: np.ndarray):
    """(n, 4, 2) float vertices (NaN beyond a polygon's own) and (n,) vertex counts of what emsarray returned;
    -1 where an entry is neither None nor a polygon with a single ring of at most 4 vertices"""
    n = len(polys)
    none = np.array([p is None for p in polys], dtype=bool)
    got = np.full((n, 4, 2), np.nan)
    size = np.zeros(n, dtype='i8')
    some = np.flatnonzero(~none)
    geoms = polys[some]
    ok = (shapely.get_type_id(geoms) == 3) & (shapely.get_num_interior_rings(geoms) == 0)
    cnt = shapely.get_num_coordinates(geoms) - 1        # a ring repeats its first vertex
    ok &= (cnt >= 1) & (cnt <= 4)
    size[some] = np.where(ok, cnt, -1)
    good = some[ok]
    coords = shapely.get_coordinates(polys[good])
    counts = cnt[ok]
    first = np.concatenate([[0], np.cumsum(counts + 1)])[:-1]
    for k in range(4):
        sel = counts > k
        got[good[sel], k] = coords[first[sel] + k]
    return got, size


def _ring_text(p) -> str:
    return 'nothing' if p is None else str(getattr(p, 'wkt', p))[:160]


def examine_big(ctx, recipe: dict) -> None:
    desc = {'recipe': recipe}
    rng = sub_rng(ctx.seed, 'c02-extra6-big-cells', recipe)
    bb = build_big(recipe)
    n = len(bb.size)
    ctx.count(f"big:{bb.conv}:{recipe.get('bounds', '-')}:{'>=2^20' if n >= 1 << 20 else '>=2^17' if n >= 1 << 17 else '>=2^16'}")
    c = bb.conv_class(bb.ds)
    c.bind()
    kind_objs = {getattr(k, 'value', k): k for k in c.grid_kinds}
    for kname, want in bb.kinds.items():
        try:
            got = int(c.grid_size[kind_objs[kname]])
        except Exception as e:
            ctx.oracle_fail('grid-size-wrong', {**desc, 'kind': kname},
                            f'grid_size of the {kname} grid: {type(e).__name__}: {e}; the dataset has {want} of them')
            continue
        if got != want:
            ctx.oracle_fail('grid-size-wrong', {**desc, 'kind': kname},
                            f'the {kname} grid has {got} positions, the dataset has {want} of them')
    exp = np.where((np.arange(4)[None, :] < bb.size[:, None])[..., None], bb.pts.astype('f8') * UNIT, np.nan)
    # shapely closes a ring unless it is closed already (util.expected_ring): a cell whose last vertex repeats its first
    # (derived bounds next to a patch can coincide) is stored as the ring of the vertices before it
    closed = np.flatnonzero((bb.size == 4) & np.all(exp[:, 3] == exp[:, 0], axis=1))
    if len(closed):
        ctx.count(f'big-closed-rings:{len(closed)}')
        bb.size = bb.size.copy()
        bb.size[closed] = 3
        exp[closed, 3] = np.nan
    # a cell whose own vertices do not make a valid polygon (GEOS validity, the trusted base of every polygon check)
    # is documented to have none: next to a patch, derived bounds can fold over
    for m in (3, 4):
        rows = np.flatnonzero(bb.size == m)
        if len(rows):
            folded = rows[~shapely.is_valid(shapely.polygons(exp[rows, :m]))]
            if len(folded):
                ctx.count(f'big-folded-cells:{len(folded)}')
                bb.size = bb.size.copy()
                bb.size[folded] = 0
                exp[folded] = np.nan
    # polygons, all of them, vertex by vertex
    try:
        polys = np.asarray(c.polygons)
    except Exception as e:
        polys = None
        ctx.oracle_fail('polygons-raise', desc, f'polygons of a well-formed dataset of {n} cells: {type(e).__name__}: {e}')
    if polys is not None and len(polys) != n:
        ctx.oracle_fail('polygon-count', desc, f'{len(polys)} polygons for {n} cells')
        polys = None
    if polys is not None:
        got, size = _impl_vertices(polys)
        bad = np.flatnonzero((size != bb.size) | ~np.all((got == exp) | (np.isnan(got) & np.isnan(exp)), axis=(1, 2)))
        ctx.evaluated(n)
        ctx.nontrivial(('big-polygons', json.dumps(recipe, sort_keys=True)))
        if len(bad):
            k = int(bad[0])
            want = 'nothing (the cell has no geometry)' if bb.size[k] == 0 else \
                ', '.join(f'({x}, {y})' for x, y in exp[k, :bb.size[k]].tolist())
            ctx.oracle_fail('polygon-not-of-its-cell', {**desc, 'cell': k},
                            f'polygon at linear index {k} of {n} (cell {tuple(int(v) for v in np.unravel_index(k, bb.shape))}) is '
                            f'{_ring_text(polys[k])}; that cell has {want}; {len(bad)} positions are wrong, the last one is {int(bad[-1])}')
    # centres
    try:
        fc = np.asarray(c.face_centres, dtype='f8')
    except Exception as e:
        fc = None
        ctx.oracle_fail('face-centres-raise', desc, f'{type(e).__name__}: {e}')
    if fc is not None:
        want = np.where(bb.has_cen[:, None], bb.cen.astype('f8') * UNIT, np.nan)
        if fc.shape != want.shape:
            ctx.oracle_fail('centre-count', desc, f'face centres of shape {fc.shape} for {n} cells')
        else:
            bad = np.flatnonzero(~np.all((fc == want) | (np.isnan(fc) & np.isnan(want)), axis=1))
            ctx.evaluated(n)
            if len(bad):
                k = int(bad[0])
                ctx.oracle_fail('centre-not-of-its-cell', {**desc, 'cell': k},
                                f'face centre {k} = {tuple(fc[k].tolist())}, cell {k} has centre {tuple(want[k].tolist())}; {len(bad)} positions are wrong')
    # the cells looked at one by one: scattered over the whole grid, the ends, and the cells next to a patch
    cells = set(rng.sample(range(n), 24)) | {0, n - 1}
    for j, i, h, w in recipe.get('patches', []):
        for jj, ii in ((j, i - 1), (j + h - 1, i + w), (j + h, i), (j - 1, i + w - 1)):
            if 0 <= jj < recipe['ny'] and 0 <= ii < recipe['nx']:
                cells.add(jj * recipe['nx'] + ii)
    cells = sorted(cells)
    rng.shuffle(cells)
    # spatial index positions
    try:
        tree = c.strtree
    except Exception as e:
        tree = None
        ctx.oracle_fail('strtree-raises', desc, f'spatial index of a well-formed dataset: {type(e).__name__}: {e}')
    if tree is not None:
        with warnings.catch_warnings():
            warnings.simplefilter('ignore')
            lo, hi = np.nanmin(exp, axis=1), np.nanmax(exp, axis=1)      # (all-NaN rows: cells without geometry)
        for k in cells:
            if bb.size[k] == 0:
                continue
            pt = shapely.Polygon(exp[k, :bb.size[k]]).representative_point()
            near = np.flatnonzero((lo[:, 0] <= pt.x) & (pt.x <= hi[:, 0]) & (lo[:, 1] <= pt.y) & (pt.y <= hi[:, 1]))
            brute = sorted(int(m) for m in near if shapely.Polygon(exp[m, :bb.size[m]]).intersects(pt))
            try:
                hits = sorted(int(h) for h in tree.query(pt, predicate='intersects'))
            except Exception as e:
                hits = [f'{type(e).__name__}: {e}']
            ctx.evaluated()
            if hits != brute or k not in hits:
                ctx.oracle_fail('strtree-position-not-linear-index', {**desc, 'cell': k, 'point': [pt.x, pt.y]},
                                f'STRtree hits {hits} for an interior point of cell {k} of {n}; brute force gives {brute}')
                break
    # data: the whole flattened variable against the tags, then cell by cell against selection
    da = bb.ds['tag']
    truth = expected_flat(bb)
    kind = kind_objs['face']
    try:
        flat = c.ravel(da, linear_dimension='index')
        a = np.asarray(flat.transpose('time', 'index').values, dtype='f8')
    except Exception as e:
        a = None
        ctx.oracle_fail('ravel-raises', {**desc, 'var': 'tag'}, f'ravel of tag {dict(da.sizes)}: {type(e).__name__}: {e}')
    if a is not None:
        ctx.evaluated(n)
        if a.shape != truth.shape or not np.array_equal(a, truth):
            k = int(np.flatnonzero((a != truth).any(axis=0))[0]) if a.shape == truth.shape else -1
            ctx.oracle_fail('ravel-not-of-its-cell', {**desc, 'var': 'tag', 'n': k},
                            f'ravel(tag) has shape {a.shape} for {truth.shape}' if k < 0 else
                            f'ravel(tag)[..., {k}] = {a[:, k].tolist()}, cell {k} holds {truth[:, k].tolist()}')
    # (selectors of all these cells are asked for first and used afterwards, as well as straight away)
    held = {}
    for k in cells[:12]:
        try:
            held[k] = c.selector_for_index(c.wind_index(k, grid_kind=kind))
        except Exception as e:
            ctx.oracle_fail('select-raises', {**desc, 'var': 'tag', 'n': k},
                            f'selector_for_index(wind_index({k})) on a grid of {n} cells: {type(e).__name__}: {e}')
    for k in cells[:12]:
        want = truth[:, k]
        try:
            now = np.asarray(c.select_index(c.wind_index(k, grid_kind=kind))['tag'].values, dtype='f8').reshape(-1)
            later = None if k not in held else np.asarray(bb.ds.isel(held[k])['tag'].values, dtype='f8').reshape(-1)
        except Exception as e:
            ctx.oracle_fail('select-raises', {**desc, 'var': 'tag', 'n': k},
                            f'select_index(wind_index({k})) on a grid of {n} cells: {type(e).__name__}: {e}')
            continue
        ctx.evaluated()
        if a is not None and a.shape == truth.shape and not np.array_equal(a[:, k], now):
            ctx.oracle_fail('ravel-differs-from-select', {**desc, 'var': 'tag', 'n': k},
                            f'ravel(tag)[..., {k}] = {a[:, k].tolist()} but select_index(wind_index({k})) gives {now.tolist()}')
        elif not np.array_equal(now, want):
            ctx.oracle_fail('select-not-of-its-cell', {**desc, 'var': 'tag', 'n': k},
                            f'select_index(wind_index({k}))[tag] = {now.tolist()}, cell {k} holds {want.tolist()}')
        if later is not None and not np.array_equal(later, want):
            ctx.oracle_fail('earlier-selector-not-of-its-cell', {**desc, 'var': 'tag', 'n': k},
                            f'the selector made for position {k} before those of {len(held) - 1} other cells selects {later.tolist()}, cell {k} holds {want.tolist()}')


# --------------------------------------------------------------------------
# 2. histories of held results

HOW = ['selector_for_index', 'selector_for_index', 'selector_for_indexes', 'select_index']


def expected_values(info) -> np.ndarray:
    """the stored array of a tagged variable as numbers (see `datasets._add_vars`): base + C-order position;
    NaN / NaT / the fill value at its missing positions"""
    n = int(np.prod(info.shape)) if info.shape else 1
    e = np.arange(n, dtype='f8') + info.base
    if info.nan:
        e[list(info.nan)] = G.INT_FILL[info.dtype] if info.dtype in G.INT_FILL else np.nan
    return e.reshape(info.shape)


def held_history(ctx, desc, built, c, items, arr_str) -> None:
    """selectors and point datasets of several positions are asked for first, all of them, and used afterwards"""
    rng = sub_rng(ctx.seed, 'c02-extra6-held', desc)
    kind_objs = {getattr(k, 'value', k): k for k in c.grid_kinds}
    by_kind: dict = {}
    for name, info in built.vars.items():
        if info.kind is not None:
            by_kind.setdefault(info.kind, []).append(name)
    if not by_kind:
        return
    # the requests: 3-7 positions, kinds mixed, a position may come twice; each made one of three ways
    requests = []
    for _ in range(rng.randint(3, 7)):
        kname = rng.choice(sorted(by_kind))
        gdims, gshape = built.grids[kname]
        size = int(np.prod(gshape))
        n = rng.choice([r['n'] for r in requests if r['kind'] == kname] or [0]) if (requests and rng.random() < 0.15) \
            else rng.randrange(size)
        requests.append({'kind': kname, 'n': n, 'how': rng.choice(HOW)})
    history = [[r['how'], r['kind'], r['n']] for r in requests]
    hdesc = {**desc, 'history': history}
    # phase 1: everything is asked for
    for r in requests:
        try:
            idx = c.wind_index(r['n'], grid_kind=kind_objs[r['kind']])
            if r['how'] == 'selector_for_index':
                r['held'] = c.selector_for_index(idx)
            elif r['how'] == 'selector_for_indexes':
                r['held'] = c.selector_for_indexes([idx]).squeeze()
            else:
                r['held'] = c.select_index(idx)
        except Exception as e:
            ctx.oracle_fail('select-raises', {**hdesc, 'n': r['n'], 'kind': r['kind']},
                            f"{r['how']}(wind_index({r['n']}, {r['kind']})): {type(e).__name__}: {e}")
    # phase 2: everything is used, in another order
    order = list(range(len(requests)))
    rng.shuffle(order)
    ctx.count(f'held:{len(requests)}')
    for at in order:
        r = requests[at]
        if 'held' not in r:
            continue
        gdims, gshape = built.grids[r['kind']]
        comps = [int(v) for v in np.unravel_index(r['n'], gshape)]
        try:
            point = r['held'] if r['how'] == 'select_index' else built.ds.isel(r['held'])
        except Exception as e:
            ctx.oracle_fail('select-raises', {**hdesc, 'n': r['n'], 'kind': r['kind']},
                            f"dataset.isel(selector) with the selector {r['how']} made for position {r['n']}: {type(e).__name__}: {e}")
            continue
        for name in by_kind[r['kind']]:
            info = built.vars[name]
            want = expected_values(info)[tuple(comps[gdims.index(d)] if d in gdims else slice(None) for d in info.dims)]
            odims = tuple(d for d in info.dims if d not in gdims)
            try:
                got_da = point[name]
                got = util.as_num(got_da.values)
                gdims_got = tuple(got_da.dims)
            except Exception as e:
                ctx.oracle_fail('select-raises', {**hdesc, 'var': name, 'n': r['n']},
                                f"[{name}] of what {r['how']} gave for position {r['n']}: {type(e).__name__}: {e}")
                continue
            ctx.evaluated()
            ctx.nontrivial(('held', json.dumps(desc, sort_keys=True, default=str), name, at))
            same = gdims_got == odims and got.shape == want.shape and np.array_equal(got, want, equal_nan=True)
            if not same:
                earlier = 'select_index' if r['how'] == 'select_index' else 'selector'
                ctx.oracle_fail(f'earlier-{earlier}-not-of-its-cell', {**hdesc, 'var': name, 'n': r['n'], 'request': at},
                                f"request {at + 1} of {len(requests)} ({r['how']} for position {r['n']} of the {r['kind']} grid = "
                                f"{dict(zip(gdims, comps))}), used after all {len(requests)} had been made, gives {name}{list(gdims_got)} = "
                                f"{got.tolist()}; that cell holds {name}{list(odims)} = {want.tolist()}")
            # the model's selection of that cell, against what the held result gives now
            a = arr_str(built.ds[name])
            sl = f"isel {a} " + ','.join(f'{d}={i}' for d, i in zip(gdims, comps))
            try:
                pout = arr_str(got_da)
            except Exception:
                pout = 'ERR'
            items.append((sl, pout, {**hdesc, 'op': sl, 'var': name, 'n': r['n']}))
