"""Extra clip geometries for C08: regions whose *envelope* says something else than the region itself.

Every geometry made here has a bounding box that reaches to, or past, the extent of the whole
grid on all four sides, while the geometry itself is not a rectangle: an L, a U, a frame (a
polygon with a hole), a triangle, pieces in opposite corners, a diagonal / V / cross of lines.
So "the envelope of the region covers the grid" holds and "the region covers the grid" does not:
cells inside the notch / hole / cut-off corner are not selected and must not keep their data.

Coordinates are the extent of the generator's ground-truth polygons (integers or half-integers)
moved by multiples of 1/8 of the width / height, hence exactly representable; the geometry travels
through a replay as WKT of such numbers (exact).
"""
from __future__ import annotations

import shapely
from shapely.geometry import LineString, MultiLineString, MultiPolygon, Polygon, box

KINDS = ['env-L', 'env-L', 'env-U', 'env-frame', 'env-triangle', 'env-corners', 'env-diagonal', 'env-V',
         'env-cross']

MARGINS = [0.0, 0.0, 0.5, 1.0, 3.0]
FRACS = [0.125, 0.25, 0.25, 0.375, 0.5]


def _extent(polys: list):
    xs = [float(p[0]) for q in polys if q is not None for p in q]
    ys = [float(p[1]) for q in polys if q is not None for p in q]
    return min(xs), min(ys), max(xs), max(ys)


def _one(rng, ext, kind: str):
    x0, y0, x1, y1 = ext
    # the outer rectangle: the extent, each side pushed out by its own margin (0 = exactly on the bounds)
    X0, Y0 = x0 - rng.choice(MARGINS), y0 - rng.choice(MARGINS)
    X1, Y1 = x1 + rng.choice(MARGINS), y1 + rng.choice(MARGINS)
    w, h = x1 - x0, y1 - y0
    # how far the arms reach into the grid
    ax, ay = x0 + rng.choice(FRACS) * w, y0 + rng.choice(FRACS) * h
    bx, by = x1 - rng.choice(FRACS) * w, y1 - rng.choice(FRACS) * h
    outer = box(X0, Y0, X1, Y1)
    corner = rng.randrange(4)
    if kind == 'env-L':
        # the outer rectangle without the block in one corner
        cut = [box(ax, ay, X1 + 1, Y1 + 1), box(X0 - 1, ay, bx, Y1 + 1),
               box(X0 - 1, Y0 - 1, bx, by), box(ax, Y0 - 1, X1 + 1, by)][corner]
        return outer.difference(cut)
    if kind == 'env-U':
        # a notch cut in from one side
        cut = [box(ax, ay, bx, Y1 + 1), box(ax, Y0 - 1, bx, by),
               box(ax, ay, X1 + 1, by), box(X0 - 1, ay, bx, by)][corner]
        return outer.difference(cut)
    if kind == 'env-frame':
        if not (ax < bx and ay < by):
            ax, bx, ay, by = x0 + w / 8, x1 - w / 8, y0 + h / 8, y1 - h / 8
        return Polygon([(X0, Y0), (X1, Y0), (X1, Y1), (X0, Y1)],
                       [[(ax, ay), (ax, by), (bx, by), (bx, ay)]])
    if kind == 'env-triangle':
        pts = [(X0, Y0), (X1, Y0), (X1, Y1), (X0, Y1)]
        del pts[corner]
        return Polygon(pts)
    if kind == 'env-corners':
        if corner % 2 == 0:
            return MultiPolygon([box(X0, Y0, ax, ay), box(bx, by, X1, Y1)])
        return MultiPolygon([box(X0, by, ax, Y1), box(bx, Y0, X1, ay)])
    if kind == 'env-diagonal':
        if corner % 2 == 0:
            return LineString([(X0, Y0), (X1, Y1)])
        return LineString([(X0, Y1), (X1, Y0)])
    if kind == 'env-V':
        mx, my = (ax + bx) / 2, (ay + by) / 2
        return [LineString([(X0, Y1), (mx, Y0), (X1, Y1)]), LineString([(X0, Y0), (mx, Y1), (X1, Y0)]),
                LineString([(X0, Y0), (X1, my), (X0, Y1)]), LineString([(X1, Y0), (X0, my), (X1, Y1)])][corner]
    # env-cross: one line across, one line up
    return MultiLineString([[(X0, ay), (X1, ay)], [(bx, Y0), (bx, Y1)]])


def envelope_geometry(rng, kept_polys: list):
    """(kind, geometry): a non-rectangular region whose bounding box encloses the extent of all cells.
    Prefers (a few retries) a region that meets some of the cells and misses some."""
    cells = [shapely.Polygon([(float(a), float(b)) for a, b in q]) for q in kept_polys if q is not None]
    ext = _extent(kept_polys)
    kind = rng.choice(KINDS)
    g = None
    for _ in range(6):
        g = _one(rng, ext, kind)
        if g.is_empty or not g.is_valid:
            continue
        hit = [c.intersects(g) for c in cells]
        if any(hit) and not all(hit):
            break
    if g is None or g.is_empty or not g.is_valid:
        x0, y0, x1, y1 = ext
        g = Polygon([(x0, y0), (x1, y0), (x0, y1)])
        kind = 'env-triangle'
    b = g.bounds
    assert b[0] <= ext[0] and b[1] <= ext[1] and b[2] >= ext[2] and b[3] >= ext[3], (b, ext)
    return kind, g
