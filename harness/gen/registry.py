"""
Generators for C11 (convention detection and binding).

A *raw recipe* is a declarative, JSON-serialisable description of exactly the parts of a
dataset that convention detection can see:

    {'attrs': {global attrs}, 'sizes': {dim: n},
     'vars': [{'name': str, 'dims': [...], 'attrs': {...}, 'coord': bool}, ...]}

`build_raw(raw)` makes the `xarray.Dataset` (zero data) with the variables inserted in that
order.  `to_raw(ds)` turns any dataset (e.g. one of the shared generators') into its raw
recipe; near-misses are *single mutations* of such a recipe.  `features(ds)` reads the
feature record the Lean model works on from the xarray object (attrs, variable order,
dims) - never through emsarray.

Attribute values that are not JSON types are tagged: `{'np': 'int64', 'v': 2}`.
"""
from __future__ import annotations

import copy
import random

import numpy as np
import xarray as xr

from harness.gen import datasets as G

BUILTINS = ['ArakawaC', 'CFGrid1D', 'CFGrid2D', 'ShocSimple', 'ShocStandard', 'UGrid']
FEATURE_KEYS = ('units', 'standard_name', 'axis', 'cf_role', 'topology_dimension')

SHOC_COORDS = ['y_centre', 'x_centre', 'y_left', 'x_left', 'y_back', 'x_back', 'y_grid', 'x_grid']
LAT_UNITS = ['degrees_north', 'degree_north', 'degree_N', 'degrees_N', 'degreeN', 'degreesN']
LON_UNITS = ['degrees_east', 'degree_east', 'degree_E', 'degrees_E', 'degreeE', 'degreesE']


# --------------------------------------------------------------------------
# encoding for the line protocol

def enc(s: str) -> str:
    out = []
    for ch in s:
        if ch.isascii() and (ch.isalnum() or ch == '_'):
            out.append(ch)
        elif ord(ch) < 256:
            out.append('%%%02X' % ord(ch))
        else:
            raise ValueError(f'cannot encode {s!r} for the line protocol')
    return ''.join(out)


def attr_token(attrs: dict, key: str) -> str:
    if key not in attrs:
        return '-'
    v = attrs[key]
    if isinstance(v, str):
        return 's:' + enc(v)
    if isinstance(v, list):
        return 'u'
    if isinstance(v, (bool, int, np.integer)):
        return f'i:{int(v)}'
    if isinstance(v, (float, np.floating)):
        return f'i:{int(v)}' if float(v).is_integer() else 'o'
    if v is None or isinstance(v, tuple):
        return 'o'
    raise ValueError(f'attribute value {v!r} ({type(v).__name__}) is outside the modelled kinds')


def features(ds: xr.Dataset) -> dict:
    """The feature record, read from the xarray object only."""
    coords = set(ds.coords)
    out_vars = []
    for name, var in ds.variables.items():
        if not isinstance(name, str):
            raise ValueError('non-string variable name')
        out_vars.append({
            'name': name, 'data': name not in coords, 'dims': [str(d) for d in var.dims],
            **{k: attr_token(var.attrs, k) for k in FEATURE_KEYS}})
    return {'conv': str(ds.attrs.get('Conventions', '')), 'ems': 'ems_version' in ds.attrs,
            'vars': out_vars}


def fline(feat: dict) -> str:
    vs = []
    for v in feat['vars']:
        dims = '.'.join(enc(d) for d in v['dims']) if v['dims'] else '-'
        vs.append(','.join([enc(v['name']), 'D' if v['data'] else 'C', dims]
                           + [v[k] for k in FEATURE_KEYS]))
    return f"{enc(feat['conv'])};{1 if feat['ems'] else 0};{'|'.join(vs) if vs else '-'}"


# --------------------------------------------------------------------------
# raw recipes

def _to_json(v):
    if isinstance(v, (str, bool, int, float)) or v is None:
        return v
    if isinstance(v, np.generic):
        return {'np': v.dtype.name, 'v': v.item()}
    if isinstance(v, np.ndarray):
        return {'nparray': v.dtype.name, 'v': v.tolist()}
    if isinstance(v, (list, tuple)):
        return {'tuple': [_to_json(x) for x in v]} if isinstance(v, tuple) else [_to_json(x) for x in v]
    raise ValueError(f'cannot record attribute value {v!r}')


def _from_json(v):
    if isinstance(v, dict):
        if 'np' in v:
            return np.dtype(v['np']).type(v['v'])
        if 'nparray' in v:
            return np.array(v['v'], dtype=v['nparray'])
        if 'tuple' in v:
            return tuple(_from_json(x) for x in v['tuple'])
    if isinstance(v, list):
        return [_from_json(x) for x in v]
    return v


def to_raw(ds: xr.Dataset) -> dict:
    coords = set(ds.coords)
    return {
        'attrs': {str(k): _to_json(v) for k, v in ds.attrs.items()},
        'sizes': {str(k): int(v) for k, v in ds.sizes.items()},
        'vars': [{'name': str(name), 'dims': [str(d) for d in var.dims],
                  'attrs': {str(k): _to_json(v) for k, v in var.attrs.items()},
                  'coord': name in coords}
                 for name, var in ds.variables.items()],
    }


def build_raw(raw: dict) -> xr.Dataset:
    ds = xr.Dataset(attrs={k: _from_json(v) for k, v in raw['attrs'].items()})
    sizes = raw.get('sizes', {})
    for v in raw['vars']:
        shape = tuple(int(sizes.get(d, 2)) for d in v['dims'])
        da = xr.DataArray(np.zeros(shape), dims=list(v['dims']),
                          attrs={k: _from_json(a) for k, a in v['attrs'].items()})
        if v.get('coord'):
            ds.coords[v['name']] = da
        else:
            ds[v['name']] = da
    return ds


def apply_mut(raw: dict, mut: list) -> dict:
    raw = copy.deepcopy(raw)
    op = mut[0]

    def var(name):
        for v in raw['vars']:
            if v['name'] == name:
                return v
        raise KeyError(name)
    if op == 'del_gattr':
        raw['attrs'].pop(mut[1], None)
    elif op == 'set_gattr':
        raw['attrs'][mut[1]] = mut[2]
    elif op == 'del_var':
        raw['vars'] = [v for v in raw['vars'] if v['name'] != mut[1]]
    elif op == 'del_vattr':
        var(mut[1])['attrs'].pop(mut[2], None)
    elif op == 'set_vattr':
        var(mut[1])['attrs'][mut[2]] = mut[3]
    elif op == 'rename_dim':
        for v in raw['vars']:
            v['dims'] = [mut[2] if d == mut[1] else d for d in v['dims']]
            if v['name'] == mut[1]:
                v['name'] = mut[2]
        if mut[1] in raw['sizes']:
            raw['sizes'][mut[2]] = raw['sizes'].pop(mut[1])
    elif op == 'rename_var':
        var(mut[1])['name'] = mut[2]
    elif op == 'set_coord':
        var(mut[1])['coord'] = bool(mut[2])
    elif op == 'set_dims':
        var(mut[1])['dims'] = list(mut[2])
    elif op == 'insert_var':
        raw['vars'].insert(mut[1] if mut[1] >= 0 else len(raw['vars']), copy.deepcopy(mut[2]))
    elif op == 'move_var':
        v = var(mut[1])
        raw['vars'].remove(v)
        raw['vars'].insert(mut[2] if mut[2] >= 0 else len(raw['vars']), v)
    else:
        raise ValueError(f'unknown mutation {mut!r}')
    return raw


def build(recipe: dict) -> xr.Dataset:
    """recipe: {'base': shared recipe} | {'raw': raw recipe}, optional 'muts': [mutation, ...].
    A base recipe without mutations is built by the shared generator itself (real data)."""
    muts = recipe.get('muts') or []
    if 'base' in recipe:
        ds = G.build(recipe['base']).ds
        if not muts:
            return ds
        raw = to_raw(ds)
    else:
        raw = recipe['raw']
    for m in muts:
        raw = apply_mut(raw, m)
    return build_raw(raw)


# --------------------------------------------------------------------------
# near-misses: every single mutation that removes / damages one distinguishing feature

NON_STRINGS = [5, 2.5, ['x'], None]


def near_misses(raw: dict, rng: random.Random, malformed: bool = True) -> list:
    """(label, [mutation]) for one raw recipe: one distinguishing attribute or variable
    removed / altered.  Includes the malformed stream (non-string values) when asked."""
    out = []
    at = raw['attrs']
    names = [v['name'] for v in raw['vars']]
    # global markers
    if 'Conventions' in at:
        out.append(('drop-Conventions', [['del_gattr', 'Conventions']]))
        for val in ['CF-1.6', 'ugrid-1.0', 'UGRI', 'UGRID', 'CF-1.6, UGRID-1.0', 'CF-1.6,UGRID-1.0', 'xUGRIDx', '']:
            if val != at['Conventions']:
                out.append((f'Conventions={val}', [['set_gattr', 'Conventions', val]]))
        if malformed:
            out.append(('Conventions=int', [['set_gattr', 'Conventions', 5]]))
            out.append(('Conventions=list', [['set_gattr', 'Conventions', ['UGRID-1.0']]]))
    else:
        out.append(('add-Conventions-UGRID', [['set_gattr', 'Conventions', 'UGRID-1.0']]))
    if 'ems_version' in at:
        out.append(('drop-ems_version', [['del_gattr', 'ems_version']]))
    else:
        out.append(('add-ems_version', [['set_gattr', 'ems_version', 'v1.0']]))
    # dimensions j / i of SHOC simple
    dims = set(raw['sizes'])
    for d in ('j', 'i'):
        if d in dims:
            out.append((f'rename-dim-{d}', [['rename_dim', d, d + d]]))
    # a SHOC standard dataset cut down to some of its four grids (both coordinates of the others removed,
    # as `ncks -v` on the cell-centred variables leaves it): every proper subset of the grids
    if set(SHOC_COORDS) <= set(names):
        kinds = ['centre', 'left', 'back', 'grid']
        for mask in range(1, 15):
            gone = [k for b, k in enumerate(kinds) if mask >> b & 1]
            out.append(('drop-grids=' + '+'.join(gone),
                        [['del_var', f'{a}_{k}'] for k in gone for a in ('y', 'x')]))
    # variables
    for v in raw['vars']:
        n, va = v['name'], v['attrs']
        if n in SHOC_COORDS:
            out.append((f'drop-{n}', [['del_var', n]]))
            out.append((f'rename-{n}', [['rename_var', n, n + '_']]))
        if va.get('cf_role') == 'mesh_topology':
            out.append(('drop-mesh-var', [['del_var', n]]))
            out.append(('drop-cf_role', [['del_vattr', n, 'cf_role']]))
            out.append(('cf_role-other', [['set_vattr', n, 'cf_role', 'mesh_topology_']]))
            out.append(('mesh-as-coord', [['set_coord', n, True]]))
            out.append(('drop-topology_dimension', [['del_vattr', n, 'topology_dimension']]))
            for td in [1, 3, 0]:
                out.append((f'topology_dimension={td}', [['set_vattr', n, 'topology_dimension', td]]))
            if malformed:
                for td in ['2', 2.0, 2.5, True, [2], {'np': 'int64', 'v': 2}, {'np': 'float32', 'v': 2.0},
                           {'np': 'int8', 'v': 1}]:
                    out.append((f'topology_dimension={td!r}', [['set_vattr', n, 'topology_dimension', td]]))
                out.append(('cf_role=list', [['set_vattr', n, 'cf_role', ['mesh_topology']]]))
            # a second, different mesh in front of the real one
            decoy = {'name': 'Mesh1', 'dims': [], 'coord': False,
                     'attrs': {'cf_role': 'mesh_topology', 'topology_dimension': 1}}
            out.append(('1d-mesh-first', [['insert_var', 0, decoy]]))
            out.append(('1d-mesh-last', [['insert_var', -1, decoy]]))
        is_latlon = (va.get('units') in LAT_UNITS + LON_UNITS
                     or va.get('standard_name') in ('latitude', 'longitude') or va.get('axis') in ('X', 'Y'))
        if is_latlon:
            for k in ('units', 'standard_name', 'axis'):
                if k in va:
                    out.append((f'drop-{k}:{n}', [['del_vattr', n, k]]))
            present = [k for k in ('units', 'standard_name', 'axis') if k in va]
            if len(present) > 1:
                out.append((f'drop-all-latlon-attrs:{n}', [['del_vattr', n, k] for k in present]))
            lat = va.get('units') in LAT_UNITS or va.get('standard_name') == 'latitude' or va.get('axis') == 'Y'
            pool = LAT_UNITS if lat else LON_UNITS
            out.append((f'units-spelling:{n}', [['set_vattr', n, 'units', rng.choice(pool)]]))
            out.append((f'units-unrecognised:{n}', [['set_vattr', n, 'units', 'degrees']] + [
                ['del_vattr', n, k] for k in ('standard_name', 'axis') if k in va]))
            out.append((f'only-axis:{n}', [['set_vattr', n, 'axis', 'Y' if lat else 'X']] + [
                ['del_vattr', n, k] for k in ('standard_name', 'units') if k in va]))
            out.append((f'axis-lowercase:{n}', [['set_vattr', n, 'axis', 'y' if lat else 'x']] + [
                ['del_vattr', n, k] for k in ('standard_name', 'units') if k in va]))
            # 1-D <-> 2-D
            if len(v['dims']) == 1 and n != v['dims'][0]:
                out.append((f'make-2d:{n}', [['set_dims', n, [v['dims'][0], 'extra_dim']]]))
            elif len(v['dims']) == 1:
                out.append((f'make-2d:{n}', [['rename_var', n, n + '2'], ['set_dims', n + '2', [v['dims'][0], 'extra_dim']]]))
            if len(v['dims']) == 2:
                out.append((f'make-1d:{n}', [['set_dims', n, [v['dims'][0]]]]))
                out.append((f'make-3d:{n}', [['set_dims', n, list(v['dims']) + ['extra_dim']]]))
            if len(v['dims']) >= 1:
                out.append((f'make-0d:{n}', [['set_dims', n, []]]))
            out.append((f'drop-var:{n}', [['del_var', n]]))
            if malformed:
                out.append((f'units=list:{n}', [['set_vattr', n, 'units', ['degrees_north']]]))
                out.append((f'units=int:{n}', [['set_vattr', n, 'units', 5]]))
                out.append((f'standard_name=list:{n}', [['set_vattr', n, 'standard_name', ['latitude']]]))
                out.append((f'standard_name=int:{n}', [['set_vattr', n, 'standard_name', 7]]))
    # decoys in front: first-match semantics of the latitude / longitude search
    for nd, label in [(0, '0d'), (1, '1d'), (2, '2d'), (3, '3d')]:
        ddims = ['dd0', 'dd1', 'dd2'][:nd]
        for key, val in [('axis', 'Y'), ('axis', 'X'), ('standard_name', 'latitude'), ('units', 'degrees_east')]:
            if rng.random() < 0.35:
                decoy = {'name': f'decoy_{label}', 'dims': ddims, 'coord': rng.random() < 0.5, 'attrs': {key: val}}
                pos = rng.choice([0, -1])
                out.append((f'decoy-{label}-{key}={val}@{pos}', [['insert_var', pos, decoy]]))
    if malformed:
        bad = {'name': 'bad_units', 'dims': [], 'coord': False, 'attrs': {'units': ['m']}}
        out.append(('unhashable-units-first', [['insert_var', 0, bad]]))
        out.append(('unhashable-units-last', [['insert_var', -1, bad]]))
    # hybrids: features of another convention added
    if 'j' not in dims or 'i' not in dims:
        hy = {'name': 'shoc_like', 'dims': ['j', 'i'], 'coord': False, 'attrs': {}}
        out.append(('hybrid+shoc-simple', [['set_gattr', 'ems_version', 'v1'], ['insert_var', -1, hy]]))
    if not set(SHOC_COORDS) <= set(names):
        muts = [['insert_var', -1, {'name': c, 'dims': ['sj', 'si'], 'coord': False, 'attrs': {}}]
                for c in SHOC_COORDS if c not in names]
        out.append(('hybrid+shoc-standard', muts))
    if not any(v['attrs'].get('cf_role') == 'mesh_topology' for v in raw['vars']):
        mesh = {'name': 'MeshX', 'dims': [], 'coord': False,
                'attrs': {'cf_role': 'mesh_topology', 'topology_dimension': 2}}
        out.append(('hybrid+ugrid', [['set_gattr', 'Conventions', 'UGRID-1.0'], ['insert_var', -1, mesh]]))
        out.append(('hybrid+mesh-no-marker', [['insert_var', -1, mesh]]))
    return out


# --------------------------------------------------------------------------
# spellings of the `Conventions` global attribute
#
# The attribute is a *list* of convention names.  CF separates the names by blanks or by commas (with or
# without a blank after the comma), some writers use semicolons or line breaks, netCDF-4 files may hold a
# string array.  Every spelling of the same list declares the same conventions, and a dataset that
# follows several conventions lists the others too (CF, ACDD, a vendor profile) in any order.

OTHER_CONVENTION_NAMES = ['CF-1.8', 'CF-1.6', 'ACDD-1.3', 'Deltares-0.10', 'COARDS', 'SGRID-0.3']
NAME_SEPARATORS = [' ', ', ', ',', ';', '  ', '\n', ' , ', '; ']
LIST_FORMS = ['list', 'list-of-one-string']


def split_conventions(value) -> list:
    """the names a (string or string-list) Conventions value lists"""
    import re
    parts = [value] if isinstance(value, str) else [x for x in (value or []) if isinstance(x, str)]
    return [n for p in parts for n in re.split(r'[\s,;]+', p) if n]


def respell_conventions(names: list, rng: random.Random, form: str) -> object:
    """The same convention names (order kept) with 0-2 unrelated names put in between, written with the
    separator `form` (one of NAME_SEPARATORS) or as a string list (LIST_FORMS)."""
    names = list(names)
    for extra in rng.sample(OTHER_CONVENTION_NAMES, rng.choice([0, 1, 1, 2, 2])):
        if extra not in names:
            names.insert(rng.randint(0, len(names)) if rng.random() < 0.5 else 0, extra)
    if form == 'list':
        return names
    if form == 'list-of-one-string':
        return [rng.choice(NAME_SEPARATORS).join(names)]
    return form.join(names)


def conventions_spellings(value, rng: random.Random) -> list:
    """(label, new value) - one respelling of `value` per separator / list form"""
    names = split_conventions(value)
    out = []
    for form in NAME_SEPARATORS + LIST_FORMS:
        new = respell_conventions(names, rng, form)
        if new != value and new not in ('', []):
            out.append((f'Conventions-spelling:{form!r}', new))
    return out


# --------------------------------------------------------------------------
# random raw recipes (fuzz around the predicates, incl. the malformed stream)

def random_raw(rng: random.Random, malformed: bool = False) -> dict:
    def pick(pool, p_absent=0.5):
        return None if rng.random() < p_absent else rng.choice(pool)
    attrs = {}
    conv_pool = ['CF-1.4', 'UGRID-1.0', 'CF-1.6, UGRID-1.0', 'CF-1.8,UGRID-1.0', 'ugrid', 'UGRI', 'UGRID', '']
    if malformed:
        conv_pool += [5, ['UGRID'], 2.5]
    c = pick(conv_pool, 0.3)
    if c is not None:
        attrs['Conventions'] = c
    if rng.random() < 0.4:
        attrs['ems_version'] = 'v1.2'
    dim_pool = ['j', 'i', 'x', 'y', 'k', 'n', 'two']
    sizes = {d: rng.randint(1, 3) for d in dim_pool}
    name_pool = ['lat', 'lon', 'latitude', 'longitude', 'Mesh2', 'temp', 'eta', 'x', 'y', 'j', 'i', 'botz'] + SHOC_COORDS
    units_pool = LAT_UNITS[:2] + LON_UNITS[:2] + ['m', 'degrees', 'degree_n']
    std_pool = ['latitude', 'longitude', 'depth', 'Latitude']
    axis_pool = ['X', 'Y', 'Z', 'x', 'y']
    role_pool = ['mesh_topology', 'face_node_connectivity', 'Mesh_topology']
    td_pool = [2, 2, 1, 3]
    if malformed:
        units_pool += [5, ['degrees_north'], 2.5, None]
        std_pool += [5, ['latitude'], None]
        axis_pool += [1, ['Y']]
        role_pool += [['mesh_topology'], 3]
        td_pool += ['2', 2.0, 2.5, True, [2], {'np': 'int64', 'v': 2}, None, {'tuple': [2]}]
    if rng.random() < 0.25:
        chosen = list(SHOC_COORDS)
        if rng.random() < 0.5:
            chosen.remove(rng.choice(chosen))
        chosen += rng.sample([n for n in name_pool if n not in SHOC_COORDS], rng.randint(0, 3))
    else:
        chosen = rng.sample(name_pool, rng.randint(0, 6))
    rng.shuffle(chosen)
    vars_ = []
    for n in chosen:
        if n in dim_pool and rng.random() < 0.7:
            dims = [n]
        else:
            dims = rng.sample(dim_pool, rng.choice([0, 1, 1, 2, 2, 3]))
        va = {}
        for key, pool, p in [('units', units_pool, 0.5), ('standard_name', std_pool, 0.6),
                             ('axis', axis_pool, 0.7), ('cf_role', role_pool, 0.75),
                             ('topology_dimension', td_pool, 0.7)]:
            if rng.random() >= p:
                va[key] = rng.choice(pool)
        vars_.append({'name': n, 'dims': dims, 'attrs': va, 'coord': rng.random() < 0.4})
    if rng.random() < 0.3:
        # a mesh topology variable (or two), somewhere in the order
        for nm in ['MeshA', 'MeshB'][:rng.choice([1, 1, 2])]:
            mv = {'name': nm, 'dims': [], 'coord': rng.random() < 0.15,
                  'attrs': {'cf_role': rng.choice(role_pool[:1] * 4 + role_pool),
                            'topology_dimension': rng.choice(td_pool)}}
            if rng.random() < 0.15:
                del mv['attrs']['topology_dimension']
            vars_.insert(rng.randint(0, len(vars_)), mv)
        if rng.random() < 0.7:
            attrs['Conventions'] = rng.choice(['UGRID-1.0', 'CF-1.6, UGRID-1.0', 'UGRID', 'CF-1.8,UGRID-1.0',
                                                'ACDD-1.3;UGRID-1.0', ['CF-1.8', 'UGRID-1.0']])
    return {'attrs': attrs, 'sizes': sizes, 'vars': vars_}


# --------------------------------------------------------------------------
# synthetic Convention subclasses

def synth_token(spec) -> str:
    """spec: ['c', n|None] | ['l', builtin, n] | ['r']"""
    if spec[0] == 'c':
        return 'c-' if spec[1] is None else f'c{spec[1]}'
    if spec[0] == 'l':
        return f'l{spec[1]}@{spec[2]}'
    return 'r'


def syn_line(syn: dict) -> str:
    if not syn:
        return 'syn=-'
    return 'syn=' + ','.join(f'{int(i)}:{synth_token(s)}' for i, s in sorted(syn.items(), key=lambda kv: int(kv[0])))


def reg_line(reg: list) -> str:
    return 'reg=' + (','.join(reg) if reg else '-')


def builtin_classes() -> dict:
    from emsarray.conventions import arakawa_c, grid, shoc, ugrid
    return {'ArakawaC': arakawa_c.ArakawaC, 'CFGrid1D': grid.CFGrid1D, 'CFGrid2D': grid.CFGrid2D,
            'ShocSimple': shoc.ShocSimple, 'ShocStandard': shoc.ShocStandard, 'UGrid': ugrid.UGrid}


def make_synth(i: int, spec) -> type:
    """A user-defined Convention subclass `S<i>` whose check_dataset behaves as `spec` says.
    It extends a concrete shipped class so that it can be instantiated."""
    from emsarray.conventions import grid
    classes = builtin_classes()
    kind = spec[0]

    # a spec with a third element 'arakawa' extends the generic ArakawaC constructed with explicit
    # coordinate_names (its check is still the constant the spec says): the constructor path of the
    # generic class is then part of the binding histories
    base = _arakawa_with_names() if (len(spec) > 2 and spec[2] == 'arakawa') else grid.CFGrid1D

    class Synth(base):
        @classmethod
        def check_dataset(cls, dataset):
            if kind == 'c':
                return spec[1]
            if kind == 'l':
                r = classes[spec[1]].check_dataset(dataset)
                return None if r is None else spec[2]
            raise KeyError('synthetic check_dataset raises')
    Synth.__name__ = Synth.__qualname__ = f'S{i}'
    return Synth


def _arakawa_with_names() -> type:
    """The generic ArakawaC can only be constructed with explicit `coordinate_names=`; histories
    construct it through this thin subclass (same detection behaviour: it defines no class-level
    coordinate_names), so that the constructor path of the generic class is exercised too."""
    from emsarray.conventions import arakawa_c, shoc

    class ArakawaC(arakawa_c.ArakawaC):   # noqa: N801 - same name on purpose
        def __init__(self, dataset):
            super().__init__(dataset, coordinate_names={
                k.value: v for k, v in shoc.ShocStandard.coordinate_names.items()})
    return ArakawaC


def class_table(syn: dict) -> dict:
    """token -> class, for the shipped classes and the synthetic ones of this case"""
    tbl = dict(builtin_classes())
    for i, spec in syn.items():
        tbl[f'S{int(i)}'] = make_synth(int(i), spec)
    return tbl


SPEC_POOL = [['c', None, 'arakawa'], ['c', None], ['c', 10, 'arakawa'], ['c', 10], ['c', 20], ['c', 30], ['c', 40], ['c', 5], ['c', 30], ['c', 10],
             ['l', 'CFGrid2D', 20], ['l', 'CFGrid1D', 10], ['l', 'UGrid', 30], ['l', 'ShocSimple', 35],
             ['l', 'ShocStandard', 30], ['l', 'CFGrid2D', 30]]
