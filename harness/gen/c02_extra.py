"""
One dataset that holds several horizontal grids, used through several convention objects.

Model output in the wild keeps more than one grid in a file (ROMS: rho / u / v / psi points; SHOC standard: centres,
left and back edges, corners; a regular grid next to a curvilinear one).  `dataset.ems` describes one of them; the
others are used the documented way, by naming their coordinates:
`CFGrid2D(dataset, latitude='lat_u', longitude='lon_u')`, `ArakawaC(dataset, coordinate_names=...)`.  Every such
convention object is part of the API, and position n must denote one cell throughout each of them, whatever other
conventions exist on the same dataset and whichever was used first.

A *multi recipe* is `{'conv': 'multi', 'parts': [recipe, ...], 'views': [view, ...]}`:

* every part is an ordinary recipe of `harness.gen.datasets` (CF 1-D, CF 2-D, SHOC standard) with its own dimension,
  coordinate and variable names; the parts are built one by one and merged into ONE dataset (the extra dimensions
  `time` / `k` / `spare` are shared);
* a view is `{'part': k, 'as': 'own' | 'cf2d:<kind>', 'how': 'bound' | 'made', 'cls': ...}`: a convention object
  over the merged dataset.  `own` is the part's own convention with its coordinate names passed explicitly;
  `cf2d:<kind>` looks at one grid (face / left / back / node) of a SHOC standard part as a CF 2-D grid through the
  coordinates of that grid (what `tests/test_binding.py` does with `y_centre` / `x_centre`).  `bound` conventions are
  bound to the dataset (`dataset.ems`), at most one per recipe; `made` ones are only constructed.

`build_multi(recipe)` returns the views in the order in which they are to be used.  Each carries a `Built` with the
generator's ground truth *of that view's grid* (nothing is read back from emsarray) and `make()`, which constructs
the convention object.
"""
from __future__ import annotations

import random
from dataclasses import dataclass
from typing import Any, Callable

import xarray as xr

from harness.gen import datasets as G

TAGS = ['rho', 'u', 'v', 'psi']
ARAKAWA_NAMES = {'face': ('y_centre', 'x_centre'), 'left': ('y_left', 'x_left'),
                 'back': ('y_back', 'x_back'), 'node': ('y_grid', 'x_grid')}
ARAKAWA_TRUTH = {'face': 'face', 'left': 'left', 'back': 'back', 'node': 'nodes'}


@dataclass
class View:
    spec: dict
    built: G.Built
    make: Callable[[], Any]
    label: str


# --------------------------------------------------------------------------
# recipes

def _name_part(rng: random.Random, r: dict, tag: str) -> None:
    """give a part its own dimension and coordinate names (keys the shared builders already read)"""
    if r['conv'] == 'cf1d':
        if rng.random() < 0.5:      # dimension coordinates
            r.update(ydim=f'lat_{tag}', xdim=f'lon_{tag}', latname=f'lat_{tag}', lonname=f'lon_{tag}')
        else:
            r.update(ydim=f'y_{tag}', xdim=f'x_{tag}', latname=f'lat_{tag}', lonname=f'lon_{tag}')
    elif r['conv'] == 'cf2d':
        r.update(ydim=f'eta_{tag}', xdim=f'xi_{tag}', latname=f'lat_{tag}', lonname=f'lon_{tag}')


def random_multi(rng: random.Random, tier: str = 'quick') -> dict:
    n_parts = 2 if rng.random() < 0.75 else 3
    # (at most one SHOC standard part: its coordinate names are fixed)
    convs = [rng.choice(['cf2d', 'cf2d', 'cf1d', 'shoc_standard'])]
    while len(convs) < n_parts:
        c = rng.choice(['cf2d', 'cf2d', 'cf1d', 'shoc_standard'])
        if c == 'shoc_standard' and 'shoc_standard' in convs:
            continue
        convs.append(c)
    if n_parts == 2 and rng.random() < 0.25:
        # a single SHOC standard file: four grids in one part
        convs = ['shoc_standard']
    parts = []
    sizes_extra = None
    for k, conv in enumerate(convs):
        r = G.random_recipe(rng, conv, tier, max_n=4)
        if conv == 'shoc_standard':
            r['scale'] = 12          # centres of every grid, and the bounds derived from them, stay exact
        _name_part(rng, r, TAGS[k])
        r = G.attach_vars(rng, r, n_vars=2, max_extra=2, with_nan=True)
        for vr in r['vars']:
            vr['name'] = f"{vr['name']}_{TAGS[k]}"
        if k == 0:
            sizes_extra = r['sizes_extra']
        else:
            r['sizes_extra'] = sizes_extra
            r['vars'] = [vr for vr in r['vars'] if vr['kind'] is not None]
        parts.append(r)
    # the views: every part through its own convention, SHOC standard grids also as CF 2-D grids; then used in a
    # random order, some of them twice (a second object for the same grid)
    views = []
    for k, r in enumerate(parts):
        if r['conv'] == 'shoc_standard':
            views.append({'part': k, 'as': 'own', 'cls': rng.choice(['ShocStandard', 'ArakawaC'])})
            kinds = rng.sample(['face', 'left', 'back', 'node'], rng.randint(1, 2) if len(parts) > 1 else 2)
            for kind in kinds:
                views.append({'part': k, 'as': f'cf2d:{kind}'})
            r.pop('x_transposed', None)     # (a CF 2-D grid wants both coordinates stored the same way round)
        else:
            views.append({'part': k, 'as': 'own'})
    rng.shuffle(views)
    if rng.random() < 0.3:
        views.append(dict(rng.choice(views)))
    views = views[:4]
    bound = rng.choice([None] + list(range(len(views))) * 2)
    for n, v in enumerate(views):
        v['how'] = 'bound' if n == bound else 'made'
    return {'conv': 'multi', 'parts': parts, 'views': views}


# --------------------------------------------------------------------------
# building

def _merged(parts: list) -> tuple[xr.Dataset, list]:
    builts = [G.build(r) for r in parts]
    pieces = []
    for k, b in enumerate(builts):
        ds = b.ds
        if 'nv' in ds.dims:
            ds = ds.rename_dims({'nv': f'nv_{TAGS[k]}'})
        pieces.append(ds)
    ds = xr.merge(pieces, combine_attrs='override', join='exact', compat='identical')
    return ds, builts


def _cf2d_view_of(b: G.Built, kind: str) -> G.Built:
    """ground truth of one grid of a SHOC standard part looked at as a CF 2-D grid without stored bounds"""
    pts = b.extra[ARAKAWA_TRUTH[kind]]
    dims, (ny, nx) = b.grids[kind]
    cx = [[None if p is None else p[0] for p in row] for row in pts]
    cy = [[None if p is None else p[1] for p in row] for row in pts]
    dx = G._derived_2d_bounds(cx, ny, nx)
    dy = G._derived_2d_bounds(cy, ny, nx)
    polys = []
    for j in range(ny):
        for i in range(nx):
            polys.append(None if dx[j][i] is None or dy[j][i] is None else list(zip(dx[j][i], dy[j][i])))
    centres = [None if cx[j][i] is None else (cx[j][i], cy[j][i]) for j in range(ny) for i in range(nx)]
    yname, xname = ARAKAWA_NAMES[kind]
    pseudo = {'conv': 'cf2d', 'ny': ny, 'nx': nx, 'bounds': 'none'}
    v = G.Built(pseudo, b.ds, 'cf2d', {'face': (dims, (ny, nx))}, 'face', polys, centres)
    v.extra = {'holes': [], 'geom_names': [xname, yname], 'cx': cx, 'cy': cy, 'corners': None,
               'names': {'lat': yname, 'lon': xname, 'ydim': dims[0], 'xdim': dims[1]}}
    v.vars = {name: G.VarInfo(name, 'face', i.dims, i.shape, i.base, i.dtype, i.nan)
              for name, i in b.vars.items() if i.kind == kind}
    return v


def build_multi(recipe: dict) -> list:
    import emsarray.conventions as C
    from emsarray.conventions.arakawa_c import ArakawaC, ArakawaCGridKind
    ds, builts = _merged(recipe['parts'])
    for b in builts:
        b.ds = ds
    views = []
    for spec in recipe['views']:
        b = builts[spec['part']]
        if spec['as'] == 'own':
            vb = b
            if b.conv == 'shoc_standard':
                if spec.get('cls') == 'ArakawaC':
                    names = {ArakawaCGridKind(k): v for k, v in ARAKAWA_NAMES.items()}

                    def make(names=names):
                        return ArakawaC(ds, coordinate_names=names)
                else:
                    def make():
                        return C.shoc.ShocStandard(ds)
                label = f"{spec.get('cls', 'ShocStandard')}(dataset)"
            else:
                cls = b.conv_class
                n = b.extra['names']

                def make(cls=cls, n=n):
                    return cls(ds, latitude=n['lat'], longitude=n['lon'])
                label = f"{cls.__name__}(dataset, latitude={n['lat']!r}, longitude={n['lon']!r})"
        else:
            kind = spec['as'].split(':')[1]
            vb = _cf2d_view_of(b, kind)
            n = vb.extra['names']

            def make(n=n):
                return C.grid.CFGrid2D(ds, latitude=n['lat'], longitude=n['lon'])
            label = f"CFGrid2D(dataset, latitude={n['lat']!r}, longitude={n['lon']!r})"
        if spec.get('how') == 'bound':
            def make(inner=make):
                c = inner()
                c.bind()
                return c
            label += '.bind()'
        views.append(View(spec, vb, make, label))
    return views
