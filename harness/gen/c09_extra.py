"""Selection-shaped clip geometries (C09).

The clip geometries of `clipgen.random_geometry` are boxes, lines, points, single cells: what they select is
(nearly always) one connected, convex patch of cells.  A clip in the wild follows a coast line or a set of
stations: the selected cells are concave, have holes, or come in several pieces.  The geometries made here
are built *from a chosen set of cells* (the generator's ground-truth polygons, never emsarray's): one point
strictly inside every chosen cell, so with buffer 0 the selection is that set.

Coordinates are dyadic rationals (vertex combinations over 4), so GEOS evaluates exactly representable input.
"""
from __future__ import annotations

import shapely

SEL_CLASSES = ['subset', 'subset', 'all-but-blob', 'all-but-blob', 'two-cells', 'every-other']


def interior_point(q):
    """a point strictly inside the cell polygon `q` (list of exact (x, y)), dyadic where possible"""
    poly = shapely.Polygon([(float(x), float(y)) for x, y in q])
    n = len(q)
    for i in range(n):
        for j in range(i + 1, n):
            for k in range(n):
                if k in (i, j):
                    continue
                x = (q[i][0] + q[j][0] + 2 * q[k][0]) / 4
                y = (q[i][1] + q[j][1] + 2 * q[k][1]) / 4
                pt = shapely.Point(float(x), float(y))
                if poly.contains(pt):
                    return (float(x), float(y))
    rp = poly.representative_point()
    return (rp.x, rp.y)


def neighbours(kept: list) -> dict:
    """cells sharing a side (two consecutive vertices), from the ground-truth polygons"""
    sides: dict = {}
    for n, q in enumerate(kept):
        if q is None:
            continue
        for a, b in zip(q, q[1:] + q[:1]):
            sides.setdefault(frozenset((tuple(a), tuple(b))), []).append(n)
    nb: dict = {n: set() for n, q in enumerate(kept) if q is not None}
    for cells in sides.values():
        for a in cells:
            for b in cells:
                if a != b:
                    nb[a].add(b)
    return nb


def choose_cells(rng, kept: list, cls: str) -> list:
    cells = [n for n, q in enumerate(kept) if q is not None]
    if len(cells) <= 1:
        return list(cells)
    if cls == 'subset':
        p = rng.choice([0.3, 0.5, 0.7])
        chosen = [n for n in cells if rng.random() < p]
    elif cls == 'all-but-blob':
        # everything but a small connected blob: a ring around a hole, a "U", an "L"
        nb = neighbours(kept)
        blob = {rng.choice(cells)}
        for _ in range(rng.choice([0, 1, 1, 2])):
            grow = sorted({m for n in blob for m in nb[n]} - blob)
            if not grow:
                break
            blob.add(rng.choice(grow))
        chosen = [n for n in cells if n not in blob]
    elif cls == 'two-cells':
        chosen = sorted(rng.sample(cells, 2))
    else:   # every-other
        off = rng.randrange(2)
        chosen = [n for k, n in enumerate(cells) if k % 2 == off]
    if not chosen:
        chosen = [rng.choice(cells)]
    return chosen


def selection_geometry(rng, kept: list):
    """(class name, geometry): one interior point per chosen cell"""
    cls = rng.choice(SEL_CLASSES)
    chosen = choose_cells(rng, kept, cls)
    pts = [interior_point(kept[n]) for n in chosen]
    return 'sel-' + cls, shapely.MultiPoint(pts)


# --------------------------------------------------------------------------------------------------------------------
# closed meshes, and connectivity tables without a `_FillValue`
#
# A mesh that covers the whole globe (or any closed surface) has no boundary: every edge has two faces, every face a
# neighbour across every side.  Its edge_face / face_face tables have no missing entry and are stored as plain integer
# variables that declare no `_FillValue` — like the edge_node table of any mesh.  Clipping such a mesh *creates* the
# boundary: the result has missing entries where the input had none.
#
# The meshes are rings of `w` nodes stacked between two caps (each cap one node — a pole — or one face), or a torus
# (rings closed both ways), with integer lon / lat like coordinates: bipyramids (octahedron), tetrahedron, prisms, cube,
# banded globes; band cells quads, triangle pairs or a mixture.  The faces that close the surface "the long way round"
# overlap the others in the plane, as the cells of a global mesh do in lon / lat.

def closed_mesh(rng) -> dict:
    """{'nodes', 'faces'} of a closed surface: every edge is a side of exactly two faces (asserted)"""
    pts: list = []

    def node(x, y):
        pts.append((x, y))
        return len(pts) - 1
    faces: list = []
    split = rng.choice([0.0, 0.0, 0.5, 1.0])       # share of the band cells cut into two triangles

    def band_cell(a, b, c, d):
        if rng.random() < split:
            if rng.random() < 0.5:
                faces.extend([[a, b, c], [a, c, d]])
            else:
                faces.extend([[a, b, d], [b, c, d]])
        else:
            faces.append([a, b, c, d])
    if rng.random() < 0.25:
        w, h = rng.choice([3, 3, 4]), rng.choice([3, 3, 4])
        ring = [[node(2 * i, 2 * j) for i in range(w)] for j in range(h)]
        for j in range(h):
            for i in range(w):
                band_cell(ring[j][i], ring[j][(i + 1) % w], ring[(j + 1) % h][(i + 1) % w], ring[(j + 1) % h][i])
    else:
        w = rng.choice([3, 3, 4, 4, 5])
        nring = rng.choice([1, 1, 2, 2, 3])
        top, bottom = rng.choice(['pole', 'face']), rng.choice(['pole', 'face'])
        if nring == 1 and top == 'face' and bottom == 'face':
            top = 'pole'
        ring = []
        for r in range(nring):
            row = []
            for i in range(w):
                bump = 1 if 0 < i < w - 1 else 0          # a cap face must not be a flat line
                dy = (bump if (r == nring - 1 and top == 'face') else 0) - (bump if (r == 0 and bottom == 'face') else 0)
                row.append(node(2 * i, 3 * r + dy))
            ring.append(row)
        for r in range(nring - 1):
            for i in range(w):
                band_cell(ring[r][i], ring[r][(i + 1) % w], ring[r + 1][(i + 1) % w], ring[r + 1][i])
        for cap, row, y in ((bottom, ring[0], -3), (top, ring[-1], 3 * nring)):
            if cap == 'face':
                faces.append(list(row))
            else:
                p = node(w - 1, y)
                for i in range(w):
                    faces.append([p, row[i], row[(i + 1) % w]])
    # either winding, any start vertex, shuffled numbering of faces and nodes, axes possibly swapped
    for k, f in enumerate(faces):
        if rng.random() < 0.4:
            f = f[::-1]
        s = rng.randrange(len(f))
        faces[k] = f[s:] + f[:s]
    rng.shuffle(faces)
    perm = list(range(len(pts)))
    rng.shuffle(perm)
    swap = rng.random() < 0.3
    nodes = [None] * len(pts)
    for old, new in enumerate(perm):
        x, y = pts[old]
        nodes[new] = [y, x] if swap else [x, y]
    faces = [[perm[n] for n in f] for f in faces]
    sides: dict = {}
    for f in faces:
        for a, b in zip(f, f[1:] + f[:1]):
            sides[frozenset((a, b))] = sides.get(frozenset((a, b)), 0) + 1
    assert all(len(s) == 2 for s in sides) and set(sides.values()) == {2}, 'generator: the mesh is not closed'
    assert all(shapely.Polygon([nodes[n] for n in f]).is_valid for f in faces), 'generator: degenerate face'
    return {'nodes': nodes, 'faces': faces}


TABLE_VARS = ('Mesh2_face_nodes', 'Mesh2_edge_nodes', 'Mesh2_face_edges', 'Mesh2_edge_faces', 'Mesh2_face_links')
INT_DTYPES = {'i4big': 'i4', 'low': 'i4', 'neg': 'i4', 'u4max': 'u4', 'i8max': 'i8', 'i2': 'i2'}
# the sets of optional tables of the closed meshes, walked in turn: mostly those with edge_face / face_face
CLOSED_TABLES = [['edge_face'], ['edge_face', 'face_face'], ['edge_node', 'face_edge', 'edge_face', 'face_face'], ['face_face'],
                 ['edge_node', 'edge_face'], ['face_edge', 'edge_face'], ['edge_node', 'face_edge'], ['face_edge', 'face_face']]


def build(recipe: dict):
    """`datasets.build`, plus the recipe key `enc.plain_complete_tables` (absent: exactly `datasets.build`): every
    connectivity table in which no entry is missing is held as files hold such a table — a plain integer variable
    (of the recipe's integer type) that declares no `_FillValue`, neither as attribute nor in its encoding."""
    import numpy as np
    import xarray as xr

    from harness.gen import datasets as G
    if recipe.get('conv') != 'ugrid' or not recipe.get('enc', {}).get('plain_complete_tables'):
        return G.build(recipe)
    built = G.build({k: v for k, v in recipe.items() if k != 'vary'})
    built.recipe = recipe
    ds = built.ds
    dtype = INT_DTYPES[recipe['enc'].get('fill_spec', 'i4big')]
    for name in TABLE_VARS:
        if name not in ds.variables:
            continue
        da = ds[name]
        vals = np.asarray(da.values)
        fv = da.attrs.get('_FillValue')
        missing = np.isnan(vals) if vals.dtype.kind == 'f' else (vals == fv if fv is not None else np.zeros(vals.shape, bool))
        if missing.any():
            continue
        attrs = {k: v for k, v in da.attrs.items() if k != '_FillValue'}
        was_coord = name in ds.coords
        ds[name] = xr.DataArray(vals.astype(dtype), dims=da.dims, attrs=attrs)
        if was_coord:
            ds = ds.set_coords(name)
    built.ds = ds
    if recipe.get('vary'):
        G.apply_vary(built, recipe['vary'])
    return built


def closed_recipe(rng, tier: str, k: int) -> dict:
    """a UGRID recipe of a closed mesh: representation (index base, integer type, dimension order, …) as
    `datasets.random_ugrid` draws it, optional tables `CLOSED_TABLES[k]`, complete tables without `_FillValue`"""
    from harness.gen import datasets as G
    recipe = G.random_recipe(rng, 'ugrid', tier, max_w=1, max_h=1, coords_as='vars', tables=list(CLOSED_TABLES[k % len(CLOSED_TABLES)]))
    mesh = closed_mesh(rng)
    recipe['nodes'], recipe['faces'] = mesh['nodes'], mesh['faces']
    recipe['enc']['plain_complete_tables'] = True
    recipe['vary'] = rng.choice([{}, {}, {'via_file': True}, {'chunk': 2}])
    return recipe
