"""Selection-shaped clip geometries (C09).

The clip geometries of `clipgen.random_geometry` are boxes, lines, points, single cells: what they select is
(nearly always) one connected, convex patch of cells.  A clip in the wild follows a coast line or a set of
stations: the selected cells are concave, have holes, or come in several pieces.  The geometries made here
are built *from a chosen set of cells* (the generator's ground-truth polygons, never emsarray's): one point
strictly inside every chosen cell, so with buffer 0 the selection is that set.

Coordinates are dyadic rationals (vertex combinations over 4), so GEOS evaluates exactly representable input.
"""
from __future__ import annotations

import shapely

SEL_CLASSES = ['subset', 'subset', 'all-but-blob', 'all-but-blob', 'two-cells', 'every-other']


def interior_point(q):
    """a point strictly inside the cell polygon `q` (list of exact (x, y)), dyadic where possible"""
    poly = shapely.Polygon([(float(x), float(y)) for x, y in q])
    n = len(q)
    for i in range(n):
        for j in range(i + 1, n):
            for k in range(n):
                if k in (i, j):
                    continue
                x = (q[i][0] + q[j][0] + 2 * q[k][0]) / 4
                y = (q[i][1] + q[j][1] + 2 * q[k][1]) / 4
                pt = shapely.Point(float(x), float(y))
                if poly.contains(pt):
                    return (float(x), float(y))
    rp = poly.representative_point()
    return (rp.x, rp.y)


def neighbours(kept: list) -> dict:
    """cells sharing a side (two consecutive vertices), from the ground-truth polygons"""
    sides: dict = {}
    for n, q in enumerate(kept):
        if q is None:
            continue
        for a, b in zip(q, q[1:] + q[:1]):
            sides.setdefault(frozenset((tuple(a), tuple(b))), []).append(n)
    nb: dict = {n: set() for n, q in enumerate(kept) if q is not None}
    for cells in sides.values():
        for a in cells:
            for b in cells:
                if a != b:
                    nb[a].add(b)
    return nb


def choose_cells(rng, kept: list, cls: str) -> list:
    cells = [n for n, q in enumerate(kept) if q is not None]
    if len(cells) <= 1:
        return list(cells)
    if cls == 'subset':
        p = rng.choice([0.3, 0.5, 0.7])
        chosen = [n for n in cells if rng.random() < p]
    elif cls == 'all-but-blob':
        # everything but a small connected blob: a ring around a hole, a "U", an "L"
        nb = neighbours(kept)
        blob = {rng.choice(cells)}
        for _ in range(rng.choice([0, 1, 1, 2])):
            grow = sorted({m for n in blob for m in nb[n]} - blob)
            if not grow:
                break
            blob.add(rng.choice(grow))
        chosen = [n for n in cells if n not in blob]
    elif cls == 'two-cells':
        chosen = sorted(rng.sample(cells, 2))
    else:   # every-other
        off = rng.randrange(2)
        chosen = [n for k, n in enumerate(cells) if k % 2 == off]
    if not chosen:
        chosen = [rng.choice(cells)]
    return chosen


def selection_geometry(rng, kept: list):
    """(class name, geometry): one interior point per chosen cell"""
    cls = rng.choice(SEL_CLASSES)
    chosen = choose_cells(rng, kept, cls)
    pts = [interior_point(kept[n]) for n in chosen]
    return 'sel-' + cls, shapely.MultiPoint(pts)
