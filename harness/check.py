"""
Entry point of every check:  check.py Cnn [--tier quick|thorough] [--replay file]

Decision procedure (DESIGN.md section 3):
  A  regenerate Gen/Tables.lean from the live code
  B  build the property's theorem module, audit axioms, grep for forbidden tokens
  C  correspondence: real emsarray vs the Lean model on generated inputs,
     plus the direct property oracle on the real outputs
  D  known findings
  E  verdict, evidence, exit status
"""
from __future__ import annotations

import argparse
import hashlib
import importlib
import json
import os
import pathlib
import random
import sys
import time
import traceback
import warnings

warnings.simplefilter('ignore')
try:
    # the repository's own test-suite does the same: netCDF4/HDF5 is not thread safe under dask
    import dask
    dask.config.set(scheduler='synchronous')
except Exception:  # noqa: BLE001
    pass

VERIF = pathlib.Path(__file__).resolve().parent.parent
sys.path.insert(0, str(VERIF))

from harness import lean  # noqa: E402

EVIDENCE = VERIF / 'evidence'
REPLAYS = EVIDENCE / 'replays'
KNOWN_FILE = VERIF / 'known_findings.json'

TRUSTED_BASE = [
    'Lean 4.33.0 kernel; axioms admitted: propext, Quot.sound, Classical.choice (audited by #print axioms on every run)',
    'hand-written Lean model of the emsarray functions named in DESIGN.md section 6; tied to /repo by the correspondence run (public-API outputs compared on generated inputs)',
    'harness: generators, canonicalisers, line protocol and its parser in lean/Drivers',
    'numpy / xarray / shapely (GEOS) / netCDF4 / cftime behaviour: modelled as parameters, cross-checked on every generated input, not proved',
]


def _emsarray_frame(exc: BaseException):
    """`file:line function` of the innermost frame of the traceback that lies in the emsarray source under test,
    or None when the exception did not pass through emsarray at all (then it is the harness's own trouble)."""
    try:
        import emsarray
        root = str(pathlib.Path(emsarray.__file__).resolve().parent)
    except Exception:
        return None
    hit = None
    tb = exc.__traceback__
    while tb is not None:
        fn = tb.tb_frame.f_code.co_filename
        if fn.startswith(root):
            hit = f'{fn[len(root) + 1:]}:{tb.tb_lineno} {tb.tb_frame.f_code.co_name}'
        tb = tb.tb_next
    return hit


class Ctx:
    def __init__(self, prop: str, tier: str, seed: int, searching: bool = False, mult: int = 1):
        self.prop = prop
        self.tier = tier
        self.seed = seed
        self.searching = searching
        self.mult = mult
        sub = int(hashlib.sha256(f'{prop}:{seed}:{int(searching)}'.encode()).hexdigest()[:12], 16)
        self.rng = random.Random(sub)
        self.evaluations = 0
        self.nontrivial_keys: set = set()
        self.samples: list = []
        self.distribution: dict = {}
        self.disagreements: list = []
        self.oracle_failures: list = []
        self.known_hits: dict = {}
        self.traces = 0
        self.driver = None
        self.known = load_known().get('known', [])
        self.exhaustive = False
        self.deadline = None
        self.notes: list = []

    # -- budgets ------------------------------------------------------------
    def budget(self, quick: int, thorough: int | None = None) -> int:
        n = quick if self.tier == 'quick' else (thorough if thorough is not None else quick * 10)
        return n * self.mult

    @property
    def thorough(self) -> bool:
        return self.tier == 'thorough'

    # -- model access -------------------------------------------------------
    def model(self, lines: list[str]) -> list[str]:
        if self.driver is None:
            raise RuntimeError('property module did not declare a driver')
        return self.driver.run(lines)

    def check_batch(self, items: list) -> None:
        """items: (line, impl_output, description-dict). Runs the model on every line
        and records a disagreement wherever the canonical outputs differ."""
        if not items:
            return
        outs = self.model([it[0] for it in items])
        for (line, impl_out, desc), model_out in zip(items, outs):
            self.evaluations += 1
            self.traces += 1
            if model_out != impl_out:
                self.disagree(line, impl_out, model_out, desc)
            elif len(self.samples) < 6 and self.rng.random() < 0.02:
                self.samples.append({'op': line[:400], 'impl': impl_out[:400], 'model': model_out[:400]})
        if len(self.samples) < 2:
            for (line, impl_out, desc), model_out in list(zip(items, outs))[:2]:
                self.samples.append({'op': line[:400], 'impl': impl_out[:400], 'model': model_out[:400]})

    def disagree(self, line: str, impl_out: str, model_out: str, desc: dict | None = None) -> None:
        if len(self.disagreements) < 200:
            self.disagreements.append({'op': line, 'impl': impl_out, 'model': model_out, 'input': desc})

    def guarded(self, fn, desc: dict) -> None:
        """Run one case; an exception while handling what the implementation returned means
        the implementation no longer behaves as the model expects: a broken correspondence
        (never an infrastructure error, never silently skipped)."""
        try:
            fn()
        except lean.LeanError:
            raise
        except Exception as e:  # noqa: BLE001
            tb = traceback.format_exc(limit=4)
            self.evaluations += 1
            self.disagree('harness-case', f'EXC {type(e).__name__}: {e}', 'case handled without exception', {**desc, 'traceback': tb})
            # An exception that was raised *inside emsarray* (or in a library it called) while the harness was
            # exercising an input of the property's quantifier - the check modules catch and canonicalise every
            # error they expect, so on the unchanged tree nothing arrives here - is a concrete input on which the
            # property's positive statement fails: report it as such, not only as a broken correspondence.
            where = _emsarray_frame(e)
            if where:
                self.oracle_fail('implementation-raised', {**desc, 'raised_in': where},
                                 f'{type(e).__name__}: {str(e)[:300]} (raised in {where})')

    # -- direct property oracle --------------------------------------------
    def oracle_fail(self, signature: str, desc: dict, message: str) -> None:
        """The property itself fails on the real code for this input."""
        for k in self.known:
            if k['property'] == self.prop and k['signature'] == signature:
                self.known_hits.setdefault(signature, {'what': k['what'], 'count': 0, 'example': desc})
                self.known_hits[signature]['count'] += 1
                return
        if len(self.oracle_failures) < 200:
            self.oracle_failures.append({'signature': signature, 'input': desc, 'message': message})

    # -- bookkeeping -------------------------------------------------------
    def nontrivial(self, key) -> None:
        self.nontrivial_keys.add(key if isinstance(key, (str, int, tuple)) else json.dumps(key, sort_keys=True, default=str))

    def count(self, bucket: str, n: int = 1) -> None:
        self.distribution[bucket] = self.distribution.get(bucket, 0) + n

    def sample(self, obj) -> None:
        if len(self.samples) < 8:
            self.samples.append(obj)

    def evaluated(self, n: int = 1) -> None:
        self.evaluations += n


def load_known() -> dict:
    if KNOWN_FILE.exists():
        return json.loads(KNOWN_FILE.read_text())
    return {'known': [], 'fixed': []}


def jsonable(o):
    from fractions import Fraction
    import numpy as np
    if isinstance(o, dict):
        return {str(k): jsonable(v) for k, v in o.items()}
    if isinstance(o, (list, tuple, set, frozenset)):
        return [jsonable(v) for v in o]
    if isinstance(o, Fraction):
        return str(o)
    if isinstance(o, np.generic):
        return o.item()
    if isinstance(o, (str, int, float, bool)) or o is None:
        return o
    return repr(o)


def relpath(p: pathlib.Path) -> str:
    try:
        return str(p.relative_to(VERIF))
    except ValueError:
        return str(p)


def write_replay(prop: str, payload: dict) -> pathlib.Path:
    REPLAYS.mkdir(parents=True, exist_ok=True)
    blob = json.dumps(jsonable(payload), sort_keys=True, indent=1)
    digest = hashlib.sha256(blob.encode()).hexdigest()[:12]
    path = REPLAYS / f'{prop}-{digest}.json'
    path.write_text(blob)
    return path


def main(argv=None) -> int:
    ap = argparse.ArgumentParser()
    ap.add_argument('prop')
    ap.add_argument('--tier', default=os.environ.get('VERIF_TIER', 'quick'), choices=['quick', 'thorough'])
    ap.add_argument('--replay', default=None)
    ap.add_argument('--no-lean', action='store_true', help=argparse.SUPPRESS)
    args = ap.parse_args(argv)
    prop = args.prop.upper()
    seed = int(os.environ.get('VERIF_SEED', '0') or 0)
    t0 = time.time()

    # Development aid only (never used by the registered commands): run the same check
    # against a scratch copy of the repository, e.g. a worktree carrying a seeded change.
    dev_src = os.environ.get('EMSARRAY_VERIF_SRC')
    expect = '/repo/src/'
    if dev_src:
        sys.path.insert(0, dev_src)
        expect = str(pathlib.Path(dev_src).resolve()) + '/'
        print(f'DEV MODE: emsarray taken from {dev_src}, not from /repo/src', file=sys.stderr)
        global EVIDENCE, REPLAYS
        EVIDENCE = pathlib.Path('/tmp/verif-dev-evidence')   # never mix with real evidence
        REPLAYS = EVIDENCE / 'replays'
    try:
        import emsarray
        src = pathlib.Path(emsarray.__file__).resolve()
        if not str(src).startswith(expect):
            print(f'INFRA: emsarray imported from {src}, not from /repo/src', file=sys.stderr)
            return 2
        mod = importlib.import_module(f'harness.props.{prop.lower()}')
    except Exception:
        traceback.print_exc()
        return 2

    if args.replay:
        ctx = Ctx(prop, args.tier, seed)
        ctx.driver = lean.Driver(mod.DRIVER) if getattr(mod, 'DRIVER', None) else None
        data = json.loads(pathlib.Path(args.replay).read_text())
        return mod.replay(ctx, data)

    # ---- A: tables ---------------------------------------------------------
    try:
        from harness import tables
        tables.regenerate()
        # the numpy pipelines of the polygon constructors, translated from the source text of the working tree
        from harness import pipelines
        pipelines.regenerate()
        # further per-topic source translators (harness/trans_*.py -> Gen/<Topic>.lean)
        from harness import translators
        translators.regenerate()
    except Exception:
        traceback.print_exc()
        return 2

    # ---- B: proof obligations ---------------------------------------------
    module = mod.MODULE
    proof_problems: list[str] = []
    theorems = []
    axioms = {}
    build_log = ''
    checker_cmd = (f'cd lean && lake build {module} ' + ' '.join(getattr(mod, 'EXTRA_MODULES', [])) +
                   f' && lake env lean <#print axioms of every theorem in these modules>')
    try:
        # EXTRA_MODULES: further theorem files of the property (e.g. Props/CnnGen.lean, the theorems about the terms
        # a source translator generates); every theorem in them is an obligation like those of MODULE
        extra = list(getattr(mod, 'EXTRA_MODULES', []))
        targets = [module] + extra + (lean.driver_imports(mod.DRIVER) if getattr(mod, 'DRIVER', None) else [])
        ok, build_log = lean.build(targets, clean=(args.tier == 'thorough'))
        if not ok:
            proof_problems.append(f'lake build {" ".join([module] + extra)} failed')
        else:
            theorems = lean.theorems_in(module)
            per_module = {module: list(theorems)}
            for em in extra:
                per_module[em] = lean.theorems_in(em)
                theorems += per_module[em]
            missing = [t for t in getattr(mod, 'REQUIRED', []) if t not in theorems]
            for t in missing:
                proof_problems.append(f'required theorem {t} is not stated in {" / ".join([module] + extra)}')
            axioms = {}
            for m_, ths in per_module.items():
                ax_, _raw = lean.audit(m_, ths)
                axioms.update(ax_)
            for t, ax in axioms.items():
                if ax is None:
                    proof_problems.append(f'theorem {t} did not check')
                else:
                    bad = [a for a in ax if a not in lean.ALLOWED_AXIOMS]
                    if bad:
                        proof_problems.append(f'theorem {t} depends on axioms {bad}')
            files = lean.module_closure(module)
            for em in extra:
                for f in lean.module_closure(em):
                    if f not in files:
                        files.append(f)
            for hit in lean.grep_forbidden(files):
                proof_problems.append(f'forbidden token: {hit}')
            if args.tier == 'thorough':
                mods = [str(f.relative_to(lean.LEAN_DIR)).removesuffix('.lean').replace('/', '.') for f in files]
                okc, logc = lean.leanchecker(mods)
                checker_cmd += f' && lake env leanchecker {" ".join(mods)}'
                if not okc:
                    proof_problems.append('leanchecker rejected the compiled modules: ' + logc[-500:])
    except Exception as e:
        traceback.print_exc()
        print(f'INFRA: lean step failed: {e}', file=sys.stderr)
        return 2

    # ---- C: correspondence + oracle ---------------------------------------
    # anchored source changed since the model was last validated against it: not a verdict, but look harder
    from harness import anchors
    repo_root = pathlib.Path(expect).parent
    changed_files = anchors.changed(prop, repo_root)
    if changed_files:
        print(f'NOTE: anchored source differs from harness/anchors.lock.json ({", ".join(changed_files)}): '
              f'correspondence and oracle run with 3x budget', file=sys.stderr)
    ctx = Ctx(prop, args.tier, seed, mult=3 if changed_files else 1)
    if changed_files:
        ctx.notes.append('anchored source files changed since the model was validated: ' + ', '.join(changed_files)
                         + ' (3x budget used)')
        # which *modelled* functions changed (harness/modelmap.py): the model definitions named here are the
        # ones whose correspondence with the code is in question on this run
        try:
            changed_fns = anchors.changed_functions(prop, repo_root)
        except Exception as e:  # the map is a reporting aid; never let it decide a verdict
            changed_fns = [f'<modelmap unavailable: {e}>']
        if changed_fns:
            print('NOTE: modelled functions whose code changed: ' + '; '.join(changed_fns), file=sys.stderr)
            ctx.notes.append('modelled functions whose code changed since the model was validated: '
                             + '; '.join(changed_fns))
        else:
            ctx.notes.append('no modelled function of this property changed (docstrings, comments and layout apart); '
                             'the change lies in code the model takes as a parameter or does not cover')
    try:
        if getattr(mod, 'DRIVER', None):
            ctx.driver = lean.Driver(mod.DRIVER)
        mod.run(ctx)
    except lean.LeanError as e:
        # the driver itself no longer runs: a broken model, not a verdict on the code
        proof_problems.append(f'model driver failed: {str(e)[:500]}')
    except Exception:
        traceback.print_exc()
        print('INFRA: correspondence run crashed', file=sys.stderr)
        return 2

    # ---- E: verdict ---------------------------------------------------------
    broken = list(proof_problems)
    if ctx.disagreements:
        broken.append(f'correspondence: {len(ctx.disagreements)} disagreement(s) between emsarray and the model')
    failures = list(ctx.oracle_failures)
    search_ctx = None
    if broken and not failures:
        # failing-input search on the real code: direct oracle, 4x budget, fresh seed stream
        search_ctx = Ctx(prop, args.tier, seed, searching=True, mult=4)
        try:
            if getattr(mod, 'DRIVER', None) and not any('driver failed' in b or 'build' in b for b in proof_problems):
                search_ctx.driver = ctx.driver
            mod.run(search_ctx)
        except Exception:
            traceback.print_exc()
        failures = list(search_ctx.oracle_failures)
        for sig, hit in search_ctx.known_hits.items():
            ctx.known_hits.setdefault(sig, hit)

    for sig, hit in sorted(ctx.known_hits.items()):
        print(f"KNOWN-FINDING: property={prop} {hit['what']} [{sig}; {hit['count']} input(s) this run]")

    violations = 0
    status = 0
    if failures:
        violations = len(failures)
        first = failures[0]
        path = write_replay(prop, {
            'property': prop, 'kind': 'failing-input', 'tier': args.tier, 'seed': seed,
            'signature': first['signature'], 'input': first['input'], 'message': first['message'],
            'other_failures': failures[1:10], 'broken': broken,
            'disagreements': ctx.disagreements[:5],
        })
        print(f'VIOLATION property={prop} replay={relpath(path)}')
        status = 1
    elif broken:
        violations = 1
        path = write_replay(prop, {
            'property': prop, 'kind': 'no-failing-input-found', 'tier': args.tier, 'seed': seed,
            'broken': broken, 'disagreements': ctx.disagreements[:10],
            'build_log_tail': build_log[-3000:] if proof_problems else '',
            'searched': (search_ctx.evaluations if search_ctx else 0),
        })
        print(f'VIOLATION property={prop} replay={relpath(path)} no-failing-input-found')
        status = 1

    # ---- evidence -------------------------------------------------------------
    discharged = sum(1 for t in theorems if axioms.get(t) is not None
                     and all(a in lean.ALLOWED_AXIOMS for a in axioms[t]))
    coverage = {
        'obligations': len(theorems) if theorems else len(getattr(mod, 'REQUIRED', [])) or 1,
        'discharged': discharged,
        'checker_cmd': checker_cmd,
        'trusted_base': TRUSTED_BASE + list(getattr(mod, 'TRUSTED', [])),
        'theorems': {t: axioms.get(t) for t in theorems},
        'evaluations': ctx.evaluations,
        'distinct_nontrivial': len(ctx.nontrivial_keys),
        'rule': getattr(mod, 'RULE', ''),
        'samples': jsonable(ctx.samples[:8]) or [{'note': 'no sample recorded'}],
        'traces_validated_against_impl': ctx.traces,
        'distribution': ctx.distribution,
        'exhaustive': bool(ctx.exhaustive),
        'model_lines': ctx.driver.lines_sent if ctx.driver else 0,
        'proof_problems': proof_problems,
        'disagreements': len(ctx.disagreements),
        'known_findings_hit': {k: v['count'] for k, v in ctx.known_hits.items()},
        'notes': ctx.notes,
    }
    evidence = {
        'property_id': prop, 'tier': args.tier, 'seed': seed, 'level': 'proof',
        'coverage': coverage,
        'assumptions': list(getattr(mod, 'ASSUMPTIONS', [])),
        'wall_s': round(time.time() - t0, 2),
        'violations': violations,
    }
    EVIDENCE.mkdir(exist_ok=True)
    (EVIDENCE / f'{prop}.json').write_text(json.dumps(jsonable(evidence), indent=1, sort_keys=True))
    print(f'{prop} {args.tier}: theorems {discharged}/{len(theorems)} discharged, '
          f'{ctx.evaluations} evaluations, {len(ctx.nontrivial_keys)} distinct non-trivial, '
          f'{len(ctx.disagreements)} disagreements, {len(ctx.oracle_failures)} oracle failures, '
          f'{len(ctx.known_hits)} known findings, {evidence["wall_s"]}s')
    return status


if __name__ == '__main__':
    sys.exit(main())
