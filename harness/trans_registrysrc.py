"""
T — convention detection's registry code, translated from its source text on every run.

  ConventionRegistry.conventions        chain(registered, entry points), duplicates dropped keeping the first
  ConventionRegistry.match_conventions  one check per class in that order, (class, specificity) kept when not None,
                                        `sorted(matches, key=lambda m: m[1], reverse=True)`
  ConventionRegistry.guess_convention   `matches[0][0]` or `None`

are read with `inspect.getsource` and written as the data of `Ems.RegSrc` (lean/EmsModel/Core/RegistrySrc.lean) into
lean/EmsModel/Gen/RegistrySrc.lean. `Props/C11Src.lean` proves that, evaluated, they are `Reg.conventions`,
`Reg.matchConventions`, `Reg.guess`. What is not recognised becomes `unsupported` / `false` / `none`, which no theorem
accepts. Trusted: that Python's `sorted` is stable, also with `reverse=True` (equal keys keep their original order) —
compared with the implementation on every tie-breaking case of the C11 correspondence.
"""
from __future__ import annotations

import ast
import inspect
import pathlib
import textwrap

VERIF = pathlib.Path(__file__).resolve().parent.parent
OUT = VERIF / 'lean' / 'EmsModel' / 'Gen' / 'RegistrySrc.lean'
TARGET = 'EmsModel.Gen.RegistrySrc'


def lean_str(s: str) -> str:
    return '"' + s.replace('\\', '\\\\').replace('"', '\\"').replace('\n', '\\n') + '"'


def _uns(node) -> str:
    try:
        text = ast.unparse(node)
    except Exception:  # noqa: BLE001
        text = repr(node)
    return f'(.unsupported {lean_str(text[:200])})'


def _fn(cls, name):
    f = getattr(cls, name)
    f = getattr(f, 'func', None) or getattr(f, 'fget', None) or f
    node = ast.parse(textwrap.dedent(inspect.getsource(f))).body[0]
    assert isinstance(node, ast.FunctionDef)
    return [s for s in node.body
            if not (isinstance(s, ast.Expr) and isinstance(s.value, ast.Constant) and isinstance(s.value.value, str))]


def lexpr(node) -> str:
    u = ast.unparse(node)
    if u == 'self.registered_conventions':
        return '.registered'
    if u == 'self.entry_point_conventions':
        return '.entryPoints'
    if u == 'self.conventions':
        return '.selfConventions'
    if isinstance(node, ast.Call) and not node.keywords and len(node.args) == 2 \
            and ast.unparse(node.func) in ('chain', 'itertools.chain'):
        return f'(.chain {lexpr(node.args[0])} {lexpr(node.args[1])})'
    return _uns(node)


def conventions_term(cls) -> str:
    body = _fn(cls, 'conventions')
    # out = []; seen = set(); for x in ITER: if x not in seen: out.append(x); seen.add(x); return out
    try:
        assigns = [s for s in body if isinstance(s, ast.Assign)]
        loops = [s for s in body if isinstance(s, ast.For)]
        rets = [s for s in body if isinstance(s, ast.Return)]
        if len(body) != 4 or len(assigns) != 2 or len(loops) != 1 or len(rets) != 1 or body[-1] is not rets[0]:
            return _uns(ast.Module(body=body, type_ignores=[]))
        names = {ast.unparse(a.targets[0]): ast.unparse(a.value) for a in assigns}
        out_name = next(k for k, v in names.items() if v == '[]')
        seen_name = next(k for k, v in names.items() if v == 'set()')
        loop = loops[0]
        x = ast.unparse(loop.target)
        if loop.orelse or len(loop.body) != 1 or not isinstance(loop.body[0], ast.If):
            return _uns(loop)
        cond = loop.body[0]
        if ast.unparse(cond.test) != f'{x} not in {seen_name}' or cond.orelse:
            return _uns(loop)
        acts = sorted(ast.unparse(s) for s in cond.body)
        if acts != sorted([f'{out_name}.append({x})', f'{seen_name}.add({x})']):
            return _uns(loop)
        if ast.unparse(rets[0].value) != out_name:
            return _uns(rets[0])
        return f'(.dedupLoop {lexpr(loop.iter)})'
    except Exception as e:  # noqa: BLE001
        return f'(.unsupported {lean_str(type(e).__name__ + ": " + str(e)[:120])})'


def match_term(cls) -> str:
    body = _fn(cls, 'match_conventions')
    it = '(.unsupported "loop not found")'
    appends = 'false'
    sort = 'none'
    try:
        loops = [s for s in body if isinstance(s, ast.For)]
        inits = [s for s in body if isinstance(s, (ast.Assign, ast.AnnAssign))]
        rets = [s for s in body if isinstance(s, ast.Return)]
        if len(loops) == 1 and len(inits) == 1 and len(rets) == 1 and len(body) == 3 and body[-1] is rets[0]:
            init = inits[0]
            m_name = ast.unparse(init.target if isinstance(init, ast.AnnAssign) else init.targets[0])
            loop = loops[0]
            it = lexpr(loop.iter)
            x = ast.unparse(loop.target)
            if ast.unparse(init.value) == '[]' and not loop.orelse and len(loop.body) == 2 \
                    and isinstance(loop.body[0], ast.Assign) and isinstance(loop.body[1], ast.If):
                r = ast.unparse(loop.body[0].targets[0])
                cond = loop.body[1]
                if ast.unparse(loop.body[0].value) == f'{x}.check_dataset(dataset)' \
                        and ast.unparse(cond.test) == f'{r} is not None' and not cond.orelse \
                        and [ast.unparse(s) for s in cond.body] == [f'{m_name}.append(({x}, {r}))']:
                    appends = 'true'
            rv = rets[0].value
            if isinstance(rv, ast.Call) and ast.unparse(rv.func) == 'sorted' and len(rv.args) == 1 \
                    and ast.unparse(rv.args[0]) == m_name:
                kw = {k.arg: k.value for k in rv.keywords}
                if set(kw) <= {'key', 'reverse'} and 'key' in kw:
                    key = kw['key']
                    rev = kw.get('reverse')
                    rev_ok = rev is None or (isinstance(rev, ast.Constant) and isinstance(rev.value, bool))
                    if isinstance(key, ast.Lambda) and len(key.args.args) == 1 and isinstance(key.body, ast.Subscript) \
                            and ast.unparse(key.body.value) == key.args.args[0].arg \
                            and isinstance(key.body.slice, ast.Constant) and isinstance(key.body.slice.value, int) \
                            and key.body.slice.value >= 0 and rev_ok:
                        reverse = 'true' if (rev is not None and rev.value) else 'false'
                        sort = f'(some {{ keyIndex := {key.body.slice.value}, reverse := {reverse} }})'
    except Exception:  # noqa: BLE001
        pass
    return f'{{ iter := {it}, appendsPairWhenNotNone := {appends}, sort := {sort} }}'


def guess_term(cls) -> str:
    body = _fn(cls, 'guess_convention')
    calls, empty_none, outer, inner = 'false', 'false', '(-99)', '(-99)'
    try:
        if len(body) == 2 and isinstance(body[0], ast.Assign) and isinstance(body[1], ast.If):
            m = ast.unparse(body[0].targets[0])
            if ast.unparse(body[0].value) == 'self.match_conventions(dataset)':
                calls = 'true'
            cond = body[1]
            pos, neg = cond.body, cond.orelse
            test = ast.unparse(cond.test)
            if test in (f'not {m}', f'len({m}) == 0'):
                pos, neg = neg, pos
                test = m
            if test == m and len(pos) == 1 and len(neg) == 1 and isinstance(pos[0], ast.Return) \
                    and isinstance(neg[0], ast.Return) and ast.unparse(neg[0].value) == 'None':
                empty_none = 'true'
                v = pos[0].value
                if isinstance(v, ast.Subscript) and isinstance(v.value, ast.Subscript) \
                        and ast.unparse(v.value.value) == m:
                    def lit(n):
                        if isinstance(n, ast.Constant) and isinstance(n.value, int):
                            return n.value
                        if isinstance(n, ast.UnaryOp) and isinstance(n.op, ast.USub) and isinstance(n.operand, ast.Constant):
                            return -n.operand.value
                        return None
                    o, i = lit(v.value.slice), lit(v.slice)
                    if o is not None and i is not None:
                        outer, inner = f'({o})', f'({i})'
    except Exception:  # noqa: BLE001
        pass
    return f'{{ callsMatch := {calls}, emptyGivesNone := {empty_none}, outer := {outer}, inner := {inner} }}'


def render() -> str:
    try:
        from emsarray.conventions._registry import ConventionRegistry as R
        conv, mat, gue = conventions_term(R), match_term(R), guess_term(R)
    except Exception as e:  # noqa: BLE001
        msg = lean_str(type(e).__name__ + ': ' + str(e)[:120])
        conv = f'(.unsupported {msg})'
        mat = f'{{ iter := (.unsupported {msg}), appendsPairWhenNotNone := false, sort := none }}'
        gue = '{ callsMatch := false, emptyGivesNone := false, outer := (-99), inner := (-99) }'
    return '\n'.join([
        'import EmsModel.Core.RegistrySrc', '/-',
        'GENERATED by harness/trans_registrysrc.py from the source text of the working tree under check. Do not edit.',
        '-/', 'namespace Ems.Gen.RegistrySrc', 'open Ems.RegSrc', '',
        '/-- `ConventionRegistry.conventions` -/', f'def conventionsSrc : L :=\n  {conv}', '',
        '/-- `ConventionRegistry.match_conventions` -/', f'def matchSrc : MatchSrc :=\n  {mat}', '',
        '/-- `ConventionRegistry.guess_convention` -/', f'def guessSrc : GuessSrc :=\n  {gue}', '',
        'end Ems.Gen.RegistrySrc', ''])


if __name__ == '__main__':
    import sys
    sys.path.insert(0, str(VERIF))
    print(render())
