"""
P — translator for the numpy array pipelines.

The functions that turn coordinate arrays into cell polygons are short straight-line numpy programs
(`numpy.stack`, `expand_dims`, `broadcast_to`, `transpose`, subscripts, `reshape`, `concatenate`,
`+ - /`; for the derived 2-D bounds and the Arakawa C masks also `isnan`, `pad`, `& |`, assignment through a
boolean mask, `nanmean`, `.any(axis)`, static comprehensions over `itertools.product` of literal lists,
`functools.reduce(operator.or_, …)`, calls of module-level helpers with literal arguments, which are inlined;
for `masking.blur_mask` the `nditer` / `fromiter` idiom — a generator of one value per multi-index of an array,
`arr[index] or numpy.any(padded[tuple(slice(i, i + extent) for i in index)])` — which becomes `NpExpr.windowAny`).  On every run this module takes their SOURCE TEXT from the working tree (the classes are
imported from it, `inspect.getsource`), parses it with `ast`, executes the body symbolically
(local assignments are inlined) and re-emits each as one term of the expression language of
`lean/EmsModel/Core/NpExpr.lean`, in `lean/EmsModel/Gen/Pipelines.lean`.  The theorems
`Ems.C06.*_pipeline_spec` are stated about these generated terms, so they are re-checked against what
the code says now; the C06 correspondence additionally evaluates the generated terms in the driver and
compares them with the running code (that catches mistakes of this translator).

Whatever the translator does not understand becomes `NpExpr.unsupported "<python text>"` (which
evaluates to `none`), never a guess and never a crash: an edit of the source always yields a file
that builds, and a theorem that names what is wrong.

The file is rewritten only when its content changes (same idiom and lock as `tables.py`).
"""
from __future__ import annotations

import ast
import fcntl
import inspect
import os
import pathlib
import sys
import textwrap
import warnings

warnings.simplefilter('ignore')

VERIF = pathlib.Path(__file__).resolve().parent.parent
OUT = VERIF / 'lean' / 'EmsModel' / 'Gen' / 'Pipelines.lean'

# --------------------------------------------------------------------------------------------------
# what is translated: (lean name, module, class, function, kind)
#   kind 'polygons' : the result is `utils.make_polygons_with_holes(points)`; the term is `points`
#   kind 'dataarray': the result is `xarray.DataArray(array, dims=…)`;        the term is `array`
#   kind 'array'    : the result is an array (possibly inside `cast(numpy.ndarray, …)`)
#   kind 'dataset:<name>': the result is `xarray.Dataset(data_vars={… '<name>': xarray.DataArray(array, …) …})`
# a class of `None` is a module-level function; the optional sixth entry overrides the input table
TARGETS = [
    ('cf1dPolygonPoints', 'emsarray.conventions.grid', 'CFGrid1D', '_make_polygons', 'polygons'),
    ('cf2dPolygonPoints', 'emsarray.conventions.grid', 'CFGrid2D', '_make_polygons', 'polygons'),
    ('arakawaPolygonPoints', 'emsarray.conventions.arakawa_c', 'ArakawaC', '_make_polygons', 'polygons'),
    ('cf1dMidBounds', 'emsarray.conventions.grid', 'CFGrid1DTopology', '_get_or_make_bounds', 'dataarray'),
    ('cf1dFaceCentres', 'emsarray.conventions.grid', 'CFGrid1D', 'face_centres', 'array'),
    ('cf2dDerivedBounds', 'emsarray.conventions.grid', 'CFGrid2DTopology', '_get_or_make_bounds', 'dataarray',
     {'arrays': {('coordinate', 'values'): ('values', 2, None, 'float')},
      'tuples': {('self', 'shape'): ('y_size', 'x_size')}}),
    ('cMaskLeft', 'emsarray.conventions.arakawa_c', None, 'c_mask_from_centres', 'dataset:left_mask',
     {'arrays': {('face_mask',): ('face_mask', 2, None, 'bool')}}),
    ('cMaskBack', 'emsarray.conventions.arakawa_c', None, 'c_mask_from_centres', 'dataset:back_mask',
     {'arrays': {('face_mask',): ('face_mask', 2, None, 'bool')}}),
    ('cMaskNode', 'emsarray.conventions.arakawa_c', None, 'c_mask_from_centres', 'dataset:node_mask',
     {'arrays': {('face_mask',): ('face_mask', 2, None, 'bool')}}),
    ('blurMask', 'emsarray.masking', None, 'blur_mask', 'array',
     {'arrays': {('arr',): ('arr', 2, None, 'bool')}, 'scalars': {('size',): 'size'}}),
]

# attribute chains that are INPUTS of the pipelines: name of the model variable, and its rank.
# (`dims` names the symbolic sizes of a 1-D input where `numpy.meshgrid` needs them.)
INPUT_ARRAYS = {
    ('self', 'topology', 'longitude_bounds', 'values'): ('lon_bounds', None, None),
    ('self', 'topology', 'latitude_bounds', 'values'): ('lat_bounds', None, None),
    ('self', 'topology', 'longitude', 'values'): ('longitude', 1, ('x_size',)),
    ('self', 'topology', 'latitude', 'values'): ('latitude', 1, ('y_size',)),
    ('self', 'node', 'longitude', 'values'): ('node_longitude', None, None),
    ('self', 'node', 'latitude', 'values'): ('node_latitude', None, None),
    ('coordinate', 'values'): ('values', 1, None),
}
# `self.topology.shape` is `(y_size, x_size)`: the symbols are named by POSITION, not by the local names
INPUT_TUPLES = {
    ('self', 'topology', 'shape'): ('y_size', 'x_size'),
}
# module-level helpers whose calls are inlined (the arguments are bound to the parameters, the body is run):
# attribute chain of the callee -> (module, function)
INLINE_FUNCTIONS = {
    ('masking', 'smear_mask'): ('emsarray.masking', 'smear_mask'),
}


# --------------------------------------------------------------------------------------------------
# symbolic values

_OIDS = iter(range(1, 10 ** 9))


class Arr:
    """an NpExpr term (rendered Lean text, as a nested tuple) with the rank when it is known"""
    def __init__(self, term, rank=None, dims=None, dtype=None, oid=None):
        self.term = term          # ('var', name) | ('stack', [terms], axis) | …
        self.rank = rank
        self.dims = dims          # symbolic sizes of a 1-D input, for meshgrid
        self.dtype = dtype        # 'bool' | 'float' | None (not tracked)
        # identity of the numpy object the value lives in: views (subscripts, reshape, transpose, …) share the
        # identity of their operand, everything else is a new object.  Needed for `x[mask] = v` only.
        self.oid = next(_OIDS) if oid is None else oid


class Tup:
    def __init__(self, items):
        self.items = list(items)


class Sym:
    def __init__(self, name):
        self.name = name


class Int:
    def __init__(self, n):
        self.n = n


class Num:
    """a numeric literal that is not an int"""
    def __init__(self, text):
        self.text = text


class Bool:
    def __init__(self, b):
        self.b = b


class Nan:
    """`numpy.nan`"""


class Dict:
    def __init__(self, items):
        self.items = dict(items)


class Scal:
    """a non-negative integer expression over the integer parameters: ('lit', n) | ('sym', name) | ('add', a, b) | ('mul', a, b)"""
    def __init__(self, term):
        self.term = term


# the pieces of the idiom `numpy.fromiter((f(index) for index in <C-order multi-indexes of arr>), count=arr.size, …)`
class NdIter:
    """`numpy.nditer(arr, ['multi_index'])`"""
    def __init__(self, arr):
        self.arr = arr


class MultiIndexOf:
    """`it.multi_index`"""
    def __init__(self, it):
        self.it = it


class IndexStream:
    """`(it.multi_index for _ in it)`: the multi-indexes of `arr`, in C order"""
    def __init__(self, arr):
        self.arr = arr


class IndexVar:
    """the loop variable of a generator over an IndexStream: one multi-index of `arr`"""
    def __init__(self, arr):
        self.arr = arr


class IndexComp:
    """the loop variable of a generator over an IndexVar: one component of the multi-index"""
    def __init__(self, iv):
        self.iv = iv


class IdxPlus:
    def __init__(self, comp, scal):
        self.comp, self.scal = comp, scal


class WindowSlice:
    """`slice(i, i + extent)`"""
    def __init__(self, comp, scal):
        self.comp, self.scal = comp, scal


class WindowTuple:
    """`tuple(slice(i, i + extent) for i in index)`"""
    def __init__(self, iv, scal):
        self.iv, self.scal = iv, scal


class Elem:
    """a scalar computed from the loop index: ('at', arr) | ('window', padded, scal) | ('anywin', padded, scal) |
    ('windowAny', arr, padded, scal)"""
    def __init__(self, iv, what):
        self.iv, self.what = iv, what


class ValueStream:
    """`(elem for index in indexes)`: one value per multi-index of `arr`, in C order; `term` is the array of them"""
    def __init__(self, arr, term):
        self.arr, self.term = arr, term


class SizeOf:
    def __init__(self, arr):
        self.arr = arr


class DtypeOf:
    def __init__(self, arr):
        self.arr = arr


class Chain:
    """an attribute chain rooted in a free name: `self.topology`, `numpy.stack`, …"""
    def __init__(self, parts):
        self.parts = tuple(parts)


class Wrapped:
    """`utils.make_polygons_with_holes(x)` / `xarray.DataArray(x, …)`"""
    def __init__(self, kind, inner):
        self.kind = kind
        self.inner = inner


class ShapeOf:
    def __init__(self, arr):
        self.arr = arr


class Bad:
    """something outside the fragment; carries the Python text"""
    def __init__(self, text):
        self.text = text


def snippet(node) -> str:
    try:
        s = ast.unparse(node)
    except Exception:
        s = repr(node)
    return ' '.join(s.split())


class Translator:
    def __init__(self, fn_name: str, inputs: dict | None = None):
        self.fn_name = fn_name
        inputs = inputs or {}
        self.input_arrays = {**INPUT_ARRAYS, **inputs.get('arrays', {})}
        self.input_tuples = {**INPUT_TUPLES, **inputs.get('tuples', {})}
        self.input_scalars = dict(inputs.get('scalars', {}))
        self.depth = 0
        self.env: dict = {}
        self.complaints: list[str] = []
        self.asserts: list = []       # (Arr | Bad, dims list | None)
        self.notes: list[str] = []

    # ---- helpers -------------------------------------------------------------------------------
    def bad(self, node_or_text, why: str = '') -> Arr:
        text = node_or_text if isinstance(node_or_text, str) else snippet(node_or_text)
        if why:
            text = f'{text}  -- {why}'
        self.complaints.append(text)
        return Arr(('unsupported', text))

    def as_arr(self, v, node) -> Arr:
        if isinstance(v, Arr):
            return v
        if isinstance(v, Bad):
            return self.bad(v.text)
        if isinstance(v, Tup):
            # a Python list display of arrays where an array is expected: numpy.asarray = stack along axis 0
            items = [self.as_arr(i, node) for i in v.items]
            if not items:
                return self.bad(node, 'empty list where an array is expected')
            rank = items[0].rank
            return Arr(('stack', [i.term for i in items], ('pos', 0)), None if rank is None else rank + 1)
        if isinstance(v, Chain):
            return self.bad(node, 'not a known input of the pipeline')
        return self.bad(node, 'not an array')

    def int_of(self, node):
        """a literal int, allowing unary +/-; None otherwise"""
        if isinstance(node, ast.Constant) and type(node.value) is int:
            return node.value
        if isinstance(node, ast.UnaryOp) and isinstance(node.op, (ast.USub, ast.UAdd)):
            v = self.int_of(node.operand)
            if v is None:
                return None
            return -v if isinstance(node.op, ast.USub) else v
        if isinstance(node, ast.Name) and isinstance(self.env.get(node.id), Int):
            return self.env[node.id].n
        return None

    def axis_of(self, node):
        v = self.int_of(node)
        if v is None:
            return None
        return ('pos', v) if v >= 0 else ('neg', -v)

    def dims_of(self, node):
        """a shape argument: tuple / list of literals, symbolic sizes and at most syntactic -1"""
        v = self.expr(node)
        items = v.items if isinstance(v, Tup) else [v]
        out = []
        for it in items:
            if isinstance(it, Int):
                if it.n == -1:
                    out.append(('infer',))
                elif it.n >= 0:
                    out.append(('lit', it.n))
                else:
                    return None
            elif isinstance(it, Sym):
                out.append(('sym', it.name))
            else:
                return None
        return out

    # ---- expressions -----------------------------------------------------------------------------
    def expr(self, node):
        m = getattr(self, 'e_' + type(node).__name__, None)
        if m is None:
            return Bad(snippet(node))
        return m(node)

    def e_Constant(self, node):
        if type(node.value) is bool:
            return Bool(node.value)
        if type(node.value) is int:
            return Int(node.value)
        if type(node.value) is float:
            return Num(repr(node.value))
        return Bad(snippet(node))

    def e_UnaryOp(self, node):
        v = self.int_of(node)
        return Int(v) if v is not None else Bad(snippet(node))

    def e_Name(self, node):
        if node.id in self.env:
            return self.env[node.id]
        return self.chain((node.id,), node)

    def chain(self, parts, node):
        parts = tuple(parts)
        if parts in self.input_arrays:
            name, rank, dims, *rest = self.input_arrays[parts]
            return Arr(('var', name), rank, dims, dtype=rest[0] if rest else None, oid='input:' + name)
        if parts in self.input_tuples:
            return Tup([Sym(n) for n in self.input_tuples[parts]])
        if parts in self.input_scalars:
            return Scal(('sym', self.input_scalars[parts]))
        if parts in (('numpy', 'nan'), ('np', 'nan'), ('numpy', 'NaN'), ('numpy', 'NAN')):
            return Nan()
        return Chain(parts)

    def e_Attribute(self, node):
        base = self.expr(node.value)
        if isinstance(base, Chain):
            return self.chain(base.parts + (node.attr,), node)
        if isinstance(base, Arr) and node.attr == 'shape':
            return ShapeOf(base)
        if isinstance(base, Arr) and node.attr == 'size':
            return SizeOf(base)
        if isinstance(base, Arr) and node.attr == 'dtype':
            return DtypeOf(base)
        if isinstance(base, NdIter) and node.attr == 'multi_index':
            return MultiIndexOf(base)
        return Bad(snippet(node))

    def e_Tuple(self, node):
        return Tup([self.expr(e) for e in node.elts])

    e_List = e_Tuple

    def e_BinOp(self, node):
        left, right = self.expr(node.left), self.expr(node.right)
        if isinstance(node.op, (ast.Add, ast.Sub)) and isinstance(left, Arr) and isinstance(right, Arr):
            rank = left.rank if left.rank == right.rank else None
            return Arr(('add' if isinstance(node.op, ast.Add) else 'sub', left.term, right.term), rank)
        if isinstance(node.op, ast.Div) and isinstance(left, Arr) and isinstance(right, Int) and right.n != 0:
            return Arr(('divConst', left.term, right.n), left.rank)
        if isinstance(node.op, (ast.Add, ast.Mult)) and (isinstance(left, Scal) or isinstance(right, Scal)):
            a, b = self.scal_of(left), self.scal_of(right)
            if a is not None and b is not None:
                return Scal(('add' if isinstance(node.op, ast.Add) else 'mul', a.term, b.term))
        if isinstance(node.op, ast.Add) and isinstance(left, IndexComp) and self.scal_of(right) is not None:
            return IdxPlus(left, self.scal_of(right))
        if isinstance(node.op, ast.Add) and isinstance(left, IdxPlus) and self.scal_of(right) is not None:
            return IdxPlus(left.comp, Scal(('add', left.scal.term, self.scal_of(right).term)))
        if isinstance(node.op, (ast.BitAnd, ast.BitOr)) and isinstance(left, Arr) and isinstance(right, Arr):
            return self.bool_op('band' if isinstance(node.op, ast.BitAnd) else 'bor', left, right, node)
        return Bad(snippet(node))

    def scal_of(self, v):
        if isinstance(v, Scal):
            return v
        if isinstance(v, Int) and v.n >= 0:
            return Scal(('lit', v.n))
        return None

    def e_BoolOp(self, node):
        # `arr[index] or numpy.any(padded[window around index])`, for the loop index of a generator over the
        # multi-indexes of `arr` (either order: `or` of two booleans)
        if isinstance(node.op, ast.Or) and len(node.values) == 2:
            a, b = (self.expr(v) for v in node.values)
            if isinstance(a, Elem) and isinstance(b, Elem) and a.iv is b.iv:
                if a.what[0] == 'anywin':
                    a, b = b, a
                if a.what[0] == 'at' and b.what[0] == 'anywin' and a.what[1].oid == a.iv.arr.oid:
                    return Elem(a.iv, ('windowAny', a.what[1], b.what[1], b.what[2]))
        return Bad(snippet(node))

    def bool_op(self, op: str, left: Arr, right: Arr, node):
        # `&` / `|` are logical only on boolean operands (on integers they are bitwise, on floats a TypeError)
        if left.dtype != 'bool' or right.dtype != 'bool':
            return Bad(snippet(node) + '  -- operands of & / | not known to be boolean arrays')
        rank = left.rank if left.rank == right.rank else None
        return Arr((op, left.term, right.term), rank, dtype='bool')

    def e_IfExp(self, node):
        test = self.expr(node.test)
        if isinstance(test, Bool):
            return self.expr(node.body if test.b else node.orelse)
        return Bad(snippet(node))

    def e_Dict(self, node):
        items = {}
        for k, v in zip(node.keys, node.values):
            if not (isinstance(k, ast.Constant) and isinstance(k.value, str)):
                return Bad(snippet(node))
            items[k.value] = self.expr(v)
        return Dict(items)

    def static_items(self, v):
        """the items of a statically known sequence, or None"""
        return list(v.items) if isinstance(v, Tup) else None

    def comprehension(self, node):
        """`[elt for target in iterable]` / the generator form, over a statically known iterable: unrolled"""
        if len(node.generators) != 1:
            return Bad(snippet(node))
        gen = node.generators[0]
        if gen.ifs or gen.is_async:
            return Bad(snippet(node))
        it = self.expr(gen.iter)
        if isinstance(it, (NdIter, IndexStream, IndexVar)):
            return self.stream_comprehension(it, gen, node)
        items = self.static_items(it)
        if items is None:
            return Bad(snippet(node) + '  -- the iterable is not statically known')
        saved = dict(self.env)
        out = []
        try:
            for it in items:
                if not self.bind(gen.target, it, node):
                    return Bad(snippet(node))
                out.append(self.expr(node.elt))
        finally:
            self.env = saved
        return Tup(out)

    e_ListComp = comprehension
    e_GeneratorExp = comprehension

    def stream_comprehension(self, it, gen, node):
        """the generator expressions of the `nditer` / `fromiter` idiom: a value per multi-index of an array"""
        if not isinstance(node, ast.GeneratorExp) or not isinstance(gen.target, ast.Name):
            return Bad(snippet(node))
        saved = dict(self.env)
        try:
            if isinstance(it, NdIter):
                # (it.multi_index for _ in it): the multi-indexes of the array, in the order nditer visits them
                self.env[gen.target.id] = Bad('the nditer loop variable')
                v = self.expr(node.elt)
                if isinstance(v, MultiIndexOf) and v.it is it:
                    return IndexStream(it.arr)
                return Bad(snippet(node))
            if isinstance(it, IndexStream):
                iv = IndexVar(it.arr)
                self.env[gen.target.id] = iv
                v = self.expr(node.elt)
                if isinstance(v, Elem) and v.iv is iv and v.what[0] == 'windowAny':
                    _, a, p, scal = v.what
                    return ValueStream(it.arr, ('windowAny', a.term, p.term, scal.term))
                return Bad(snippet(node) + '  -- value per index not understood')
            comp = IndexComp(it)
            self.env[gen.target.id] = comp
            v = self.expr(node.elt)
            if isinstance(v, WindowSlice) and v.comp is comp:
                return WindowTuple(it, v.scal)
            return Bad(snippet(node))
        finally:
            self.env = saved

    def e_Subscript(self, node):
        base = self.expr(node.value)
        if isinstance(base, Tup):
            i = self.int_of(node.slice)
            if i is not None and -len(base.items) <= i < len(base.items):
                return base.items[i]
            return Bad(snippet(node))
        if not isinstance(base, Arr):
            return Bad(snippet(node))
        if isinstance(node.slice, (ast.Name, ast.Call)):
            ix = self.expr(node.slice)
            if isinstance(ix, IndexVar):
                return Elem(ix, ('at', base))
            if isinstance(ix, WindowTuple):
                return Elem(ix.iv, ('window', base, ix.scal))
        elts = node.slice.elts if isinstance(node.slice, ast.Tuple) else [node.slice]
        terms = []
        dropped = 0
        for e in elts:
            if isinstance(e, ast.Slice):
                if e.step is not None and self.int_of(e.step) != 1:
                    return Bad(snippet(node))
                ends = []
                for end in (e.lower, e.upper):
                    if end is None:
                        ends.append(('none',))
                    else:
                        v = self.int_of(end)
                        if v is None:
                            return Bad(snippet(node))
                        ends.append(('pos', v) if v >= 0 else ('neg', -v))
                terms.append(('range', ends[0], ends[1]))
            else:
                v = self.int_of(e)
                if v is None:
                    return Bad(snippet(node))       # Ellipsis, None, arrays, names …
                terms.append(('idx', v) if v >= 0 else ('idxEnd', -v))
                dropped += 1
        rank = None if base.rank is None else base.rank - dropped
        return Arr(('slice', base.term, terms), rank, dtype=base.dtype, oid=base.oid)

    def kwargs(self, node, names):
        """positional + keyword arguments by name; None if something unexpected is passed"""
        out = {}
        if len(node.args) > len(names):
            return None
        for n, a in zip(names, node.args):
            if isinstance(a, ast.Starred):
                return None
            out[n] = a
        for k in node.keywords:
            if k.arg is None or k.arg not in names or k.arg in out:
                return None
            out[k.arg] = k.value
        return out

    def e_Call(self, node):
        f = node.func
        # method calls on arrays
        if isinstance(f, ast.Attribute):
            base = self.expr(f.value)
            if isinstance(base, Arr):
                return self.method(base, f.attr, node)
            if isinstance(base, Chain):
                return self.function(base.parts + (f.attr,), node)
            return Bad(snippet(node))
        if isinstance(f, ast.Name):
            if f.id in self.env:
                return Bad(snippet(node))
            return self.function((f.id,), node)
        return Bad(snippet(node))

    def method(self, base: Arr, name: str, node):
        if name == 'reshape' and not node.keywords and len(node.args) == 1 and getattr(base, 'unflat', None):
            # numpy.fromiter(<a value per C-order multi-index of arr>, count=arr.size).reshape(arr.shape)
            whole, arr = base.unflat
            shape = self.expr(node.args[0])
            if isinstance(shape, ShapeOf) and shape.arr.oid == arr.oid:
                return whole
            return Bad(snippet(node))
        if name == 'reshape' and not node.keywords and node.args:
            if len(node.args) == 1:
                dims = self.dims_of(node.args[0])
            else:
                dims = self.dims_of(ast.Tuple(elts=list(node.args), ctx=ast.Load()))
            if dims is None or sum(1 for d in dims if d == ('infer',)) > 1:
                return Bad(snippet(node))
            return Arr(('reshape', base.term, dims), len(dims), dtype=base.dtype, oid=base.oid)
        if name in ('flatten', 'ravel') and not node.args and not node.keywords:
            return Arr(('reshape', base.term, [('infer',)]), 1, dtype=base.dtype,
                       oid=base.oid if name == 'ravel' else None)
        if name == 'copy' and not node.args and not node.keywords:
            return Arr(base.term, base.rank, base.dims, dtype=base.dtype)      # the same value in a new object
        if name == 'any':
            kw = self.kwargs(node, ['axis'])
            if kw is None or 'axis' not in kw:
                return Bad(snippet(node))       # a reduction over all axes is not modelled
            axis = self.axis_of(kw['axis'])
            if axis is None:
                return Bad(snippet(node))
            return Arr(('anyAxis', base.term, axis), None if base.rank is None else base.rank - 1, dtype='bool')
        return Bad(snippet(node))

    def pad_widths(self, v, rank):
        """`((b, a), …)`, one pair per axis (the other forms numpy accepts are not modelled)"""
        if not isinstance(v, Tup) or not v.items:
            return None
        out = []
        for it in v.items:
            if not (isinstance(it, Tup) and len(it.items) == 2 and all(isinstance(x, Int) and x.n >= 0 for x in it.items)):
                return None
            out.append((it.items[0].n, it.items[1].n))
        if rank is not None and len(out) != rank:
            return None
        return out

    def fill_of(self, v, dtype):
        """a scalar stored into an array of `dtype`: ('some', n) | ('none',) | None when not modelled"""
        if isinstance(v, Bool):
            return ('some', 1 if v.b else 0)
        if isinstance(v, Int) and (dtype != 'bool' or v.n in (0, 1)):
            return ('some', v.n)
        if isinstance(v, Nan) and dtype == 'float':
            return ('none',)
        return None

    def function(self, parts, node):
        name = '.'.join(parts)
        if name in ('numpy.stack', 'np.stack'):
            kw = self.kwargs(node, ['arrays', 'axis'])
            if kw is None or 'arrays' not in kw or not isinstance(kw['arrays'], (ast.List, ast.Tuple)):
                return Bad(snippet(node))
            axis = ('pos', 0) if 'axis' not in kw else self.axis_of(kw['axis'])
            if axis is None or not kw['arrays'].elts:
                return Bad(snippet(node))
            items = [self.as_arr(self.expr(e), e) for e in kw['arrays'].elts]
            rank = items[0].rank
            dtype = items[0].dtype if all(i.dtype == items[0].dtype for i in items) else None
            return Arr(('stack', [i.term for i in items], axis), None if rank is None else rank + 1, dtype=dtype)
        if name in ('numpy.expand_dims', 'np.expand_dims'):
            kw = self.kwargs(node, ['a', 'axis'])
            if kw is None or 'a' not in kw or 'axis' not in kw:
                return Bad(snippet(node))
            axis = self.axis_of(kw['axis'])
            if axis is None:
                return Bad(snippet(node))
            x = self.as_arr(self.expr(kw['a']), kw['a'])
            return Arr(('expandDims', x.term, axis), None if x.rank is None else x.rank + 1, dtype=x.dtype, oid=x.oid)
        if name in ('numpy.broadcast_to', 'np.broadcast_to'):
            kw = self.kwargs(node, ['array', 'shape'])
            if kw is None or 'array' not in kw or 'shape' not in kw:
                return Bad(snippet(node))
            dims = self.dims_of(kw['shape'])
            if dims is None or ('infer',) in dims:
                return Bad(snippet(node))
            x = self.as_arr(self.expr(kw['array']), kw['array'])
            return Arr(('broadcastTo', x.term, dims), len(dims), dtype=x.dtype, oid=x.oid)
        if name in ('numpy.transpose', 'np.transpose'):
            kw = self.kwargs(node, ['a', 'axes'])
            if kw is None or 'a' not in kw or 'axes' not in kw or not isinstance(kw['axes'], (ast.List, ast.Tuple)):
                return Bad(snippet(node))      # the default (reversed axes) needs the rank: not modelled
            perm = [self.int_of(e) for e in kw['axes'].elts]
            if any(p is None or p < 0 for p in perm):
                return Bad(snippet(node))
            x = self.as_arr(self.expr(kw['a']), kw['a'])
            return Arr(('transpose', x.term, perm), len(perm), dtype=x.dtype, oid=x.oid)
        if name in ('numpy.concatenate', 'np.concatenate'):
            kw = self.kwargs(node, ['arrays', 'axis'])
            if kw is None or 'arrays' not in kw or not isinstance(kw['arrays'], (ast.List, ast.Tuple)):
                return Bad(snippet(node))
            if 'axis' in kw and self.int_of(kw['axis']) != 0:
                return Bad(snippet(node))
            if not kw['arrays'].elts:
                return Bad(snippet(node))
            items = [self.as_arr(self.expr(e), e) for e in kw['arrays'].elts]
            return Arr(('concat', [i.term for i in items]), items[0].rank)
        if name in ('numpy.reshape', 'np.reshape'):
            kw = self.kwargs(node, ['a', 'shape'])
            if kw is None or 'a' not in kw or 'shape' not in kw:
                return Bad(snippet(node))
            dims = self.dims_of(kw['shape'])
            if dims is None or sum(1 for d in dims if d == ('infer',)) > 1:
                return Bad(snippet(node))
            x = self.as_arr(self.expr(kw['a']), kw['a'])
            return Arr(('reshape', x.term, dims), len(dims), dtype=x.dtype, oid=x.oid)
        if name in ('numpy.meshgrid', 'np.meshgrid'):
            # default indexing='xy': for 1-D x (nx) and y (ny) both results have shape (ny, nx),
            # xx[j, i] = x[i], yy[j, i] = y[j]
            if node.keywords or len(node.args) != 2:
                return Bad(snippet(node))
            x, y = (self.expr(a) for a in node.args)
            if not (isinstance(x, Arr) and isinstance(y, Arr) and x.rank == 1 and y.rank == 1 and x.dims and y.dims):
                return Bad(snippet(node))
            shape = [('sym', y.dims[0]), ('sym', x.dims[0])]
            xx = Arr(('broadcastTo', ('expandDims', x.term, ('pos', 0)), shape), 2)
            yy = Arr(('broadcastTo', ('expandDims', y.term, ('pos', 1)), shape), 2)
            return Tup([xx, yy])
        if name in ('numpy.column_stack', 'np.column_stack'):
            if node.keywords or len(node.args) != 1 or not isinstance(node.args[0], (ast.List, ast.Tuple)):
                return Bad(snippet(node))
            items = [self.expr(e) for e in node.args[0].elts]
            # for 1-D operands column_stack is stack(axis=1); other ranks are not modelled
            if not items or not all(isinstance(i, Arr) and i.rank == 1 for i in items):
                return Bad(snippet(node))
            return Arr(('stack', [i.term for i in items], ('pos', 1)), 2)
        if name in ('numpy.isnan', 'np.isnan'):
            if node.keywords or len(node.args) != 1:
                return Bad(snippet(node))
            x = self.as_arr(self.expr(node.args[0]), node.args[0])
            return Arr(('isnan', x.term), x.rank, dtype='bool')
        if name in ('numpy.pad', 'np.pad'):
            kw = self.kwargs(node, ['array', 'pad_width', 'mode', 'constant_values'])
            if kw is None or 'array' not in kw or 'pad_width' not in kw:
                return Bad(snippet(node))
            if 'mode' in kw and not (isinstance(kw['mode'], ast.Constant) and kw['mode'].value == 'constant'):
                return Bad(snippet(node))
            x = self.as_arr(self.expr(kw['array']), kw['array'])
            width = self.scal_of(self.expr(kw['pad_width']))
            if width is not None:
                # one integer: that many elements before and after every axis
                fill = self.fill_of(self.expr(kw['constant_values']), x.dtype) if 'constant_values' in kw else ('some', 0)
                if fill is None or x.dtype is None:
                    return Bad(snippet(node) + '  -- fill value / element type not understood')
                return Arr(('padAll', x.term, width.term, fill), x.rank, dtype=x.dtype)
            widths = self.pad_widths(self.expr(kw['pad_width']), x.rank)
            fill = self.fill_of(self.expr(kw['constant_values']), x.dtype) if 'constant_values' in kw else ('some', 0)
            if widths is None or fill is None or x.dtype is None:
                return Bad(snippet(node) + '  -- pad widths / fill value / element type not understood')
            return Arr(('pad', x.term, widths, fill), len(widths), dtype=x.dtype)
        if name in ('numpy.nanmean', 'np.nanmean'):
            kw = self.kwargs(node, ['a', 'axis'])
            if kw is None or 'a' not in kw or 'axis' not in kw:
                return Bad(snippet(node))       # the mean over all axes is not modelled
            axis = self.axis_of(kw['axis'])
            if axis is None:
                return Bad(snippet(node))
            x = self.as_arr(self.expr(kw['a']), kw['a'])
            return Arr(('nanmeanAxis', x.term, axis), None if x.rank is None else x.rank - 1, dtype='float')
        if name in ('numpy.nditer', 'np.nditer'):
            if node.keywords or len(node.args) != 2 or snippet(node.args[1]) not in ("['multi_index']", "('multi_index',)"):
                return Bad(snippet(node))
            x = self.expr(node.args[0])
            return NdIter(x) if isinstance(x, Arr) else Bad(snippet(node))
        if name in ('numpy.any', 'np.any'):
            if node.keywords or len(node.args) != 1:
                return Bad(snippet(node))
            v = self.expr(node.args[0])
            if isinstance(v, Elem) and v.what[0] == 'window':
                return Elem(v.iv, ('anywin', v.what[1], v.what[2]))
            return Bad(snippet(node))
        if name == 'slice':
            if node.keywords or len(node.args) != 2:
                return Bad(snippet(node))
            a, b = (self.expr(x) for x in node.args)
            if isinstance(a, IndexComp) and isinstance(b, IdxPlus) and b.comp is a:
                return WindowSlice(a, b.scal)
            return Bad(snippet(node))
        if name == 'tuple':
            if node.keywords or len(node.args) != 1:
                return Bad(snippet(node))
            v = self.expr(node.args[0])
            return v if isinstance(v, WindowTuple) else Bad(snippet(node))
        if name in ('numpy.fromiter', 'np.fromiter'):
            kw = self.kwargs(node, ['iter', 'dtype', 'count'])
            if kw is None or set(kw) != {'iter', 'dtype', 'count'}:
                return Bad(snippet(node))
            vs, dt, cnt = self.expr(kw['iter']), self.expr(kw['dtype']), self.expr(kw['count'])
            if isinstance(vs, ValueStream) and isinstance(cnt, SizeOf) and cnt.arr.oid == vs.arr.oid \
                    and isinstance(dt, DtypeOf) and dt.arr.oid == vs.arr.oid and vs.arr.dtype == 'bool':
                whole = Arr(vs.term, vs.arr.rank, dtype='bool')
                flat = Arr(('reshape', vs.term, [('infer',)]), 1, dtype='bool')
                flat.unflat = (whole, vs.arr)
                return flat
            return Bad(snippet(node))
        if name == 'itertools.product':
            # the product of statically known sequences, as a static sequence of tuples
            if node.keywords:
                return Bad(snippet(node))
            seqs = []
            for a in node.args:
                if isinstance(a, ast.Starred):
                    inner = self.static_items(self.expr(a.value))
                    if inner is None:
                        return Bad(snippet(node))
                    seqs.extend(inner)
                else:
                    seqs.append(self.expr(a))
            lists = [self.static_items(q) for q in seqs]
            if any(q is None for q in lists):
                return Bad(snippet(node) + '  -- not a product of statically known sequences')
            import itertools
            return Tup([Tup(list(c)) for c in itertools.product(*lists)])
        if name == 'functools.reduce':
            # reduce(operator.or_ / operator.and_, <static sequence of boolean arrays>)
            if node.keywords or len(node.args) != 2:
                return Bad(snippet(node))
            f = self.expr(node.args[0])
            ops = {('operator', 'or_'): 'bor', ('operator', 'and_'): 'band'}
            items = self.static_items(self.expr(node.args[1]))
            if not isinstance(f, Chain) or f.parts not in ops or not items:
                return Bad(snippet(node))
            acc = self.as_arr(items[0], node)
            for it in items[1:]:
                acc = self.bool_op(ops[f.parts], acc, self.as_arr(it, node), node)
                if not isinstance(acc, Arr):
                    return acc
            return acc
        if parts in INLINE_FUNCTIONS:
            return self.inline(parts, node)
        if name == 'xarray.Dataset':
            kw = self.kwargs(node, ['data_vars', 'coords', 'attrs'])
            if kw is None or 'data_vars' not in kw:
                return Bad(snippet(node))
            d = self.expr(kw['data_vars'])
            return Wrapped('dataset', d) if isinstance(d, Dict) else Bad(snippet(node))
        if name == 'cast' or name == 'typing.cast':
            if node.keywords or len(node.args) != 2:
                return Bad(snippet(node))
            return self.expr(node.args[1])
        if name == 'utils.make_polygons_with_holes':
            if node.keywords or len(node.args) != 1:
                return Bad(snippet(node))       # an `out=` array is not modelled
            return Wrapped('polygons', self.expr(node.args[0]))
        if name == 'xarray.DataArray':
            if not node.args:
                return Bad(snippet(node))
            return Wrapped('dataarray', self.expr(node.args[0]))
        return Bad(snippet(node))

    # ---- statements ------------------------------------------------------------------------------
    def bind(self, target, value, node) -> bool:
        if isinstance(target, ast.Name):
            self.env[target.id] = value
            return True
        if isinstance(target, (ast.Tuple, ast.List)) and isinstance(value, Tup) \
                and len(target.elts) == len(value.items) and all(isinstance(t, ast.Name) for t in target.elts):
            for t, v in zip(target.elts, value.items):
                self.env[t.id] = v
            return True
        return False

    def translate_assert(self, node):
        t = node.test
        if isinstance(t, ast.Compare) and all(isinstance(o, ast.Eq) for o in t.ops):
            vals = [self.expr(t.left)] + [self.expr(c) for c in t.comparators]
            shapes = [v for v in vals if isinstance(v, ShapeOf)]
            tuples = [v for v in vals if isinstance(v, Tup)]
            if len(shapes) + len(tuples) == len(vals) and len(tuples) == 1 and shapes:
                dims = []
                for it in tuples[0].items:
                    if isinstance(it, Int) and it.n >= 0:
                        dims.append(('lit', it.n))
                    elif isinstance(it, Sym):
                        dims.append(('sym', it.name))
                    else:
                        dims = None
                        break
                if dims is not None:
                    for s in shapes:
                        self.asserts.append((s.arr.term, dims))
                    return
        text = snippet(node)
        self.complaints.append(text + '  -- assert not understood')
        self.asserts.append((('unsupported', text), []))

    def assign_masked(self, target: ast.Subscript, value, node) -> bool:
        """`x[mask] = scalar` for a local `x` and a boolean array `mask`: the local is rebound to the updated value.
        Sound only when the object is not visible under another name: `x` must be a new object (not an input,
        not a view of one) that no other local shares."""
        if not isinstance(target.value, ast.Name) or not isinstance(self.env.get(target.value.id), Arr):
            return False
        name = target.value.id
        x = self.env[name]
        mask = self.expr(target.slice)
        if not isinstance(mask, Arr) or mask.dtype != 'bool':
            return False
        fill = self.fill_of(value, x.dtype)
        if fill is None:
            return False
        if isinstance(x.oid, str):
            self.bad(node, f'writes into the input array {x.oid[len("input:"):]} (no copy was taken)')
            return True
        if any(k != name and isinstance(v, Arr) and v.oid == x.oid for k, v in self.env.items()):
            self.bad(node, 'the assigned array is visible under another name')
            return True
        self.env[name] = Arr(('whereSet', x.term, mask.term, fill), x.rank, x.dims, dtype=x.dtype, oid=x.oid)
        return True

    def block(self, body: list, kind: str):
        """straight-line symbolic execution of a statement list.  Returns ('return', value) when a `return` was
        reached, ('bad', term) when a statement is outside the fragment, None when the block ran to its end."""
        for st in body:
            if isinstance(st, ast.Expr) and isinstance(st.value, ast.Constant) and isinstance(st.value.value, str):
                continue                                     # docstring
            if isinstance(st, ast.With) and kind == 'dataarray' and len(st.items) == 1 \
                    and snippet(st.items[0].context_expr) == 'suppress(KeyError)':
                # `with suppress(KeyError): … return bounds`: the stored-bounds branch; the statements after it
                # are the derived-bounds branch, which is what is translated
                self.notes.append('skipped the stored-bounds branch `with suppress(KeyError): …`')
                continue
            if isinstance(st, ast.With) and len(st.items) == 1 and st.items[0].optional_vars is None \
                    and snippet(st.items[0].context_expr) == 'warnings.catch_warnings()':
                r = self.block(st.body, kind)                # warnings do not change values
                if r is not None:
                    return r
                continue
            if isinstance(st, ast.Expr) and isinstance(st.value, ast.Call) \
                    and snippet(st.value.func) in ('warnings.filterwarnings', 'warnings.simplefilter'):
                continue
            if isinstance(st, ast.Assign) and len(st.targets) == 1:
                if isinstance(st.targets[0], ast.Subscript):
                    if self.assign_masked(st.targets[0], self.expr(st.value), st):
                        continue
                    return ('bad', self.bad(st, 'assignment through a subscript not understood').term)
                if self.bind(st.targets[0], self.expr(st.value), st):
                    continue
                return ('bad', self.bad(st, 'assignment target not understood').term)
            if isinstance(st, ast.AnnAssign) and st.value is not None and isinstance(st.target, ast.Name):
                self.env[st.target.id] = self.expr(st.value)
                continue
            if isinstance(st, ast.Assert):
                self.translate_assert(st)
                continue
            if isinstance(st, ast.Return) and st.value is not None:
                return ('return', self.expr(st.value))
            return ('bad', self.bad(st, 'statement outside the straight-line fragment').term)
        return None

    def inline(self, parts, node):
        """a call of a module-level helper: bind the arguments to its parameters, run its body, take what it returns"""
        import importlib
        module, fn_name = INLINE_FUNCTIONS[parts]
        if self.depth >= 4:
            return Bad(snippet(node) + '  -- inlining too deep')
        try:
            fn = find_module_function(importlib.import_module(module), fn_name)
        except Exception as e:
            return Bad(snippet(node) + f'  -- {type(e).__name__}: {e}')
        if fn is None:
            return Bad(snippet(node) + f'  -- no function {fn_name} in the source of {module}')
        a = fn.args
        if a.vararg or a.kwarg or a.kwonlyargs or a.posonlyargs or a.defaults:
            return Bad(snippet(node) + '  -- signature of the inlined function not understood')
        kw = self.kwargs(node, [p.arg for p in a.args])
        if kw is None or len(kw) != len(a.args):
            return Bad(snippet(node))
        values = {k: self.expr(v) for k, v in kw.items()}
        saved = self.env
        self.env = values
        self.depth += 1
        try:
            r = self.block(fn.body, 'array')
        finally:
            self.env = saved
            self.depth -= 1
        if r is None:
            return Bad(snippet(node) + f'  -- {fn_name}: no return statement reached')
        if r[0] == 'bad':
            return Arr(r[1])
        return r[1]

    def run(self, fn: ast.FunctionDef, kind: str):
        """straight-line symbolic execution; returns the term of the result"""
        r = self.block(list(fn.body), kind)
        if r is None:
            return self.bad(f'{self.fn_name}: no return statement reached').term
        if r[0] == 'bad':
            return r[1]
        result = r[1]
        if kind == 'polygons':
            if isinstance(result, Wrapped) and result.kind == 'polygons':
                return self.as_arr(result.inner, fn).term
            return self.bad(f'{self.fn_name}: the result is not utils.make_polygons_with_holes(points)').term
        if kind == 'dataarray':
            if isinstance(result, Wrapped) and result.kind == 'dataarray':
                return self.as_arr(result.inner, fn).term
            return self.bad(f'{self.fn_name}: the result is not xarray.DataArray(array, …)').term
        if kind.startswith('dataset:'):
            key = kind[len('dataset:'):]
            if isinstance(result, Wrapped) and result.kind == 'dataset' and key in result.inner.items:
                v = result.inner.items[key]
                if isinstance(v, Wrapped) and v.kind == 'dataarray':
                    return self.as_arr(v.inner, fn).term
            return self.bad(f'{self.fn_name}: the result is not xarray.Dataset(data_vars={{{key!r}: xarray.DataArray(array, …), …}})').term
        if isinstance(result, Wrapped):
            return self.bad(f'{self.fn_name}: the result is not a plain array').term
        return self.as_arr(result, fn).term


# --------------------------------------------------------------------------------------------------
# rendering

def lean_str(s: str) -> str:
    return '"' + s.replace('\\', '\\\\').replace('"', '\\"').replace('\n', '\\n') + '"'


def r_axis(a) -> str:
    return f'(.{a[0]} {a[1]})'


def r_dim(d) -> str:
    if d[0] == 'lit':
        return f'.lit {d[1]}'
    if d[0] == 'sym':
        return f'.sym {lean_str(d[1])}'
    return '.infer'


def r_bound(b) -> str:
    return '.none' if b[0] == 'none' else f'(.{b[0]} {b[1]})'


def r_slice(t) -> str:
    if t[0] in ('idx', 'idxEnd'):
        return f'.{t[0]} {t[1]}'
    return f'.range {r_bound(t[1])} {r_bound(t[2])}'


def r_list(items, ind: int) -> str:
    pad = ' ' * ind
    if not items:
        return '[]'
    return '[\n' + ',\n'.join(pad + '  ' + i for i in items) + ']'


def render_term(t, ind: int = 2) -> str:
    k = t[0]
    pad = ' ' * ind
    sub = lambda x: render_term(x, ind + 2)   # noqa: E731
    if k == 'var':
        return f'(.var {lean_str(t[1])})'
    if k == 'unsupported':
        return f'(.unsupported {lean_str(t[1])})'
    if k == 'stack':
        return f'(.stack {r_list([sub(x) for x in t[1]], ind)} {r_axis(t[2])})'
    if k == 'concat':
        return f'(.concat {r_list([sub(x) for x in t[1]], ind)})'
    if k == 'expandDims':
        return f'(.expandDims {sub(t[1])} {r_axis(t[2])})'
    if k == 'broadcastTo':
        return f"(.broadcastTo {sub(t[1])} [{', '.join(r_dim(d) for d in t[2])}])"
    if k == 'reshape':
        return f"(.reshape {sub(t[1])} [{', '.join(r_dim(d) for d in t[2])}])"
    if k == 'transpose':
        return f"(.transpose {sub(t[1])} [{', '.join(str(p) for p in t[2])}])"
    if k == 'slice':
        return f"(.slice {sub(t[1])} [{', '.join(r_slice(s) for s in t[2])}])"
    if k in ('add', 'sub'):
        return f'(.{k} {sub(t[1])} {sub(t[2])})'
    if k == 'divConst':
        return f'(.divConst {sub(t[1])} {t[2]})'
    if k == 'pad':
        return f"(.pad {sub(t[1])} [{', '.join(f'({b}, {a})' for b, a in t[2])}] {r_fill(t[3])})"
    if k == 'isnan':
        return f'(.isnan {sub(t[1])})'
    if k in ('band', 'bor'):
        return f'(.{k} {sub(t[1])} {sub(t[2])})'
    if k == 'whereSet':
        return f'(.whereSet {sub(t[1])} {sub(t[2])} {r_fill(t[3])})'
    if k == 'padAll':
        return f'(.padAll {sub(t[1])} {r_scal(t[2])} {r_fill(t[3])})'
    if k == 'windowAny':
        return f'(.windowAny {sub(t[1])} {sub(t[2])} {r_scal(t[3])})'
    if k in ('nanmeanAxis', 'anyAxis'):
        return f'(.{k} {sub(t[1])} {r_axis(t[2])})'
    raise ValueError(k)


def r_scal(t) -> str:
    if t[0] == 'lit':
        return f'(.lit {t[1]})'
    if t[0] == 'sym':
        return f'(.sym {lean_str(t[1])})'
    return f'(.{t[0]} {r_scal(t[1])} {r_scal(t[2])})'


def r_fill(f) -> str:
    if f[0] == 'none':
        return 'none'
    return f'(some {f[1]})' if f[1] >= 0 else f'(some ({f[1]}))'


def find_function(cls, fn_name: str):
    """the FunctionDef of `fn_name` in the source text of class `cls` (decorators do not matter)"""
    src = textwrap.dedent(inspect.getsource(cls))
    tree = ast.parse(src)
    for node in ast.walk(tree):
        if isinstance(node, ast.ClassDef) and node.name == cls.__name__:
            for st in node.body:
                if isinstance(st, ast.FunctionDef) and st.name == fn_name:
                    return st
    return None


def find_module_function(module, fn_name: str):
    """the FunctionDef of the module-level function `fn_name` in the source text of `module`"""
    tree = ast.parse(inspect.getsource(module))
    for st in tree.body:
        if isinstance(st, ast.FunctionDef) and st.name == fn_name:
            return st
    return None


def ensure_source_tree():
    """honour the EMSARRAY_VERIF_SRC development override exactly as check.py does"""
    dev_src = os.environ.get('EMSARRAY_VERIF_SRC')
    expect = '/repo/src/'
    if dev_src:
        if dev_src not in sys.path and 'emsarray' not in sys.modules:
            sys.path.insert(0, dev_src)
        expect = str(pathlib.Path(dev_src).resolve()) + '/'
    import emsarray
    src = str(pathlib.Path(emsarray.__file__).resolve())
    if not src.startswith(expect):
        raise RuntimeError(f'emsarray imported from {src}, expected it under {expect}')
    return src


def collect() -> list[dict]:
    import importlib
    ensure_source_tree()
    out = []
    for lean_name, module, cls_name, fn_name, kind, *opts in TARGETS:
        where = f'{cls_name}.{fn_name}' if cls_name else fn_name
        tr = Translator(where, opts[0] if opts else None)
        try:
            if cls_name:
                fn = find_function(getattr(importlib.import_module(module), cls_name), fn_name)
            else:
                fn = find_module_function(importlib.import_module(module), fn_name)
            if fn is None:
                term = tr.bad(f'{where}: no such function in the source of {module}').term
            else:
                term = tr.run(fn, kind)
        except Exception as e:   # never crash: a file that builds and a precise complaint
            term = tr.bad(f'{where}: {type(e).__name__}: {e}').term
        out.append({'name': lean_name, 'where': f'{module}.{where}', 'term': term,
                    'asserts': tr.asserts, 'complaints': tr.complaints, 'notes': tr.notes})
    return out


def render(items: list[dict]) -> str:
    lines = [
        'import EmsModel.Core.NpExpr',
        '/- GENERATED by harness/pipelines.py from the source text of the working tree. Do not edit. -/',
        'namespace Ems.Gen',
        'open Ems',
        '',
    ]
    for it in items:
        lines.append(f"/-- `{it['where']}`" + ''.join(f' ({n})' for n in it['notes']) + ' -/')
        lines.append(f"def {it['name']} : NpExpr :=")
        lines.append('  ' + render_term(it['term'], 2))
        lines.append('')
        lines.append(f"/-- the `assert … .shape == …` statements of `{it['where']}` -/")
        lines.append(f"def {it['name']}Asserts : List (NpExpr × List DimTerm) := " + r_list(
            [f"({render_term(t, 6)}, [{', '.join(r_dim(d) for d in dims)}])" for t, dims in it['asserts']], 2))
        lines.append('')
    complaints = [(it['name'], c) for it in items for c in it['complaints']]
    lines.append('/-- what the translator could not render (function, Python text); empty when everything was understood -/')
    lines.append('def pipelineComplaints : List (String × String) := '
                 + r_list([f'({lean_str(a)}, {lean_str(b)})' for a, b in complaints], 2))
    lines += ['', 'end Ems.Gen', '']
    return '\n'.join(lines)


def complaints() -> list[tuple[str, str]]:
    return [(it['name'], c) for it in collect() for c in it['complaints']]


def regenerate() -> bool:
    """Rewrite Gen/Pipelines.lean if the translated source changed. Returns True if rewritten."""
    text = render(collect())
    OUT.parent.mkdir(parents=True, exist_ok=True)
    with open(VERIF / 'lean' / '.lock', 'w') as lock:
        fcntl.flock(lock, fcntl.LOCK_EX)
        try:
            if OUT.exists() and OUT.read_text() == text:
                return False
            tmp = OUT.with_suffix('.lean.tmp')
            tmp.write_text(text)
            tmp.replace(OUT)
            return True
        finally:
            fcntl.flock(lock, fcntl.LOCK_UN)


if __name__ == '__main__':
    sys.path.insert(0, str(VERIF))
    print('rewritten' if regenerate() else 'unchanged')
    for name, c in complaints():
        print(f'unsupported in {name}: {c}')
