"""Regenerate /verif/MANIFEST.json from the property modules that exist."""
from __future__ import annotations

import importlib
import json
import pathlib
import sys
import warnings

warnings.simplefilter('ignore')
VERIF = pathlib.Path(__file__).resolve().parent.parent
sys.path.insert(0, str(VERIF))

BASELINE = 'cd /repo && /venv/bin/python -m pytest -ra -q -p no:cacheprovider --timeout=900 --continue-on-collection-errors'


def main() -> None:
    props = [json.loads(l) for l in (VERIF / 'properties.jsonl').read_text().splitlines() if l.strip()]
    checks, na = [], []
    for p in props:
        pid = p['id']
        path = VERIF / 'harness' / 'props' / f'{pid.lower()}.py'
        ready = set((VERIF / 'harness' / 'ready.txt').read_text().split())
        if not path.exists() or pid not in ready:
            na.append({'property_id': pid, 'reason': 'check not built yet in this session (model and theorems pending); not a statement that proof cannot apply'})
            continue
        mod = importlib.import_module(f'harness.props.{pid.lower()}')
        checks.append({
            'property_id': pid,
            'quick_cmd': f'./check {pid} --tier quick',
            'thorough_cmd': f'./check {pid} --tier thorough',
            'evidence_file': f'evidence/{pid}.json',
            'replay_cmd_template': f'./check {pid} --replay {{path}}',
            'engine': 'lean4-model+correspondence',
            'level_claimed': {
                'category': 'proof',
                'text': getattr(mod, 'LEVEL_TEXT', (
                    'Lean 4 theorems about a hand-written model of the code, for every input the property quantifies over; '
                    'the model is tied to /repo on every run by a correspondence run through the public API and by tables regenerated from live objects.')),
                'design_ref': f'DESIGN.md section 6, {pid}',
            },
            'level_note': getattr(mod, 'LEVEL_NOTE', 'Trusted: Lean kernel (axioms propext, Quot.sound, Classical.choice), the hand-written model, the harness (generators, canonicalisers, driver parser), numpy/xarray/shapely behaviour taken as parameters.'),
            'technique': getattr(mod, 'TECHNIQUE', 'Lean 4 proof over a hand-written model + differential correspondence with the implementation'),
        })
    manifest = {
        'version': 1,
        'setup_cmd': './check --setup',
        'hooks': {
            'guard': 'EMSARRAY_VERIF',
            'enable': 'no source hooks: all observation goes through the public API of the editable install (/repo/src); the harness only installs a stand-in `cfunits` module in sys.modules for emsarray.transect',
            'baseline_off_cmd': BASELINE,
            'source_commits': [],
            'add_only': True,
        },
        'engines': [{
            'name': 'lean4-model+correspondence',
            'path': 'lean/ (lake library EmsModel, Drivers/*.lean) + harness/ (check.py, props/*.py)',
            'serves_properties': [c['property_id'] for c in checks],
            'kind_free_text': 'Lean 4.33 theorems over hand-written executable models; correspondence = differential run of model driver vs emsarray through the public API; tables regenerated from live objects',
        }],
        'checks': checks,
        'not_applicable': na,
        'notes': 'See DESIGN.md. Exit 0 = held; exit 1 + VIOLATION line = violation; exit 2 = infrastructure failure (no verdict).',
    }
    (VERIF / 'MANIFEST.json').write_text(json.dumps(manifest, indent=1) + '\n')
    print(f'{len(checks)} checks, {len(na)} not yet claimed')


if __name__ == '__main__':
    main()
