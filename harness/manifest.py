"""Regenerate /verif/MANIFEST.json from the property modules that exist."""
from __future__ import annotations

import importlib
import json
import pathlib
import sys
import warnings

warnings.simplefilter('ignore')
VERIF = pathlib.Path(__file__).resolve().parent.parent
sys.path.insert(0, str(VERIF))

NOTES = {
 'C01': 'numpy.ravel_multi_index / unravel_index taken as C-order with range errors (modelled by Ems.ravel / Ems.unravel); grid shapes given to the model come from the generator.',
 'C02': 'STRtree.query positions = array positions is an assumption checked on every case; UGRID centroids (no stored face coordinates) are only checked for membership in their cell.',
 'C03': 'numpy reshape / transpose on C-ordered data and xarray.DataArray.transpose are modelled by the named-array theory (Core/NDArray.lean); the model refuses colliding dimension names.',
 'C04': 'theorems hold for every intersects predicate and every hit order; the driver uses an exact rational point-in-polygon test that is compared with GEOS on every point.',
 'C05': 'xarray vectorised isel, Dataset.merge and pandas to_xarray are modelled as parameters with stated behaviour; only data variables are compared.',
 'C06': 'GEOS is_valid enters as a truth table (and is compared with an exact ring-validity test); unary_union / equals are GEOS on both sides of the geometry oracle; bounds are compared where every stored bound / node belongs to a kept polygon.',
 'C08': 'Partial: the per-variable netCDF files and open_mfdataset are exercised (results loaded fully), not modelled; the clip mask is taken as given (C07 proves it).',
 'C09': 'Partial: "can be saved and reopened as such" is runtime behaviour checked by the correspondence only; polygon preservation, reference ranges and the mutual agreement of the clipped tables are theorems (tables_agree_after_clip, reference_followed), also checked by an oracle on every clipped mesh.',
 'C15': 'Partial: byte formats are the libraries\' business; files are read back with independent readers and compared with the model\'s feature list; shapefile rings are compared up to rotation / direction.',
 'C18': 'Partial: metric lengths (PROJ) and GEOS constructive geometry are outside the model; coverage is proved in path-parameter space and validated with an exact rational clipper on lattice-aligned paths. One known finding (edge-running stretches reported twice).',
 'C19': 'Partial: rendering is matplotlib\'s; only the content of the PolyCollection / Quiver artists is compared.',
}

BASELINE = 'cd /repo && /venv/bin/python -m pytest -ra -q -p no:cacheprovider --timeout=900 --continue-on-collection-errors'


def translated_by_property() -> dict:
    """property id -> names of the emsarray functions whose model is regenerated from the source on every run
    (harness/modelmap.py: TRANSLATED; the property is read off the theorem that ties the generated term to the hand model)"""
    import re
    from harness import modelmap
    out: dict = {}
    for _f, qual, _mod, _gens, thms in modelmap.TRANSLATED:
        for t in thms:
            m = re.match(r'Ems\.(C\d\d)', t)
            if m and qual not in out.setdefault(m.group(1), []):
                out[m.group(1)].append(qual)
    # the statement-order translators of harness/tables.py (fifth phase)
    out.setdefault('C16', []).extend(['Convention.hash_geometry', 'make_cache_key', 'hash_string', 'hash_attributes', 'hash_int'])
    out.setdefault('C20', []).extend(['clip / extract-points / export-geometry Command.handle', 'Command.guess_format'])
    return out


def main() -> None:
    tr = translated_by_property()
    props = [json.loads(l) for l in (VERIF / 'properties.jsonl').read_text().splitlines() if l.strip()]
    checks, na = [], []
    for p in props:
        pid = p['id']
        path = VERIF / 'harness' / 'props' / f'{pid.lower()}.py'
        ready = set((VERIF / 'harness' / 'ready.txt').read_text().split())
        if not path.exists() or pid not in ready:
            na.append({'property_id': pid, 'reason': 'check not built yet in this session (model and theorems pending); not a statement that proof cannot apply'})
            continue
        mod = importlib.import_module(f'harness.props.{pid.lower()}')
        checks.append({
            'property_id': pid,
            'quick_cmd': f'./check {pid} --tier quick',
            'thorough_cmd': f'./check {pid} --tier thorough',
            'evidence_file': f'evidence/{pid}.json',
            'replay_cmd_template': f'./check {pid} --replay {{path}}',
            'engine': 'lean4-model+correspondence',
            'level_claimed': {
                'category': 'proof',
                'text': getattr(mod, 'LEVEL_TEXT', (
                    'Lean 4 theorems about a formal model of the code, for every input the property quantifies over; '
                    'the model is tied to /repo on every run in two checked ways: '
                    + (('(T) the model of ' + ', '.join(tr[pid]) + ' is REGENERATED FROM THE SOURCE TEXT by a translator and proved, for all inputs, '
                        'to compute the hand-written model functions the property theorems are about; ') if tr.get(pid) else
                       '(T) tables and constants are regenerated from the live objects; ')
                    + '(C) a correspondence run compares the model\'s executable definitions with the implementation through the public API '
                      'on generated inputs and histories, and a direct property oracle searches for a failing input.')),
                'design_ref': f'DESIGN.md section 6, {pid}',
            },
            'level_note': getattr(mod, 'LEVEL_NOTE', NOTES.get(pid, '') + ' Trusted: Lean kernel (axioms propext, Quot.sound, Classical.choice), the hand-written model, the harness (generators, canonicalisers, driver parser), numpy/xarray/shapely behaviour taken as parameters.'),
            'technique': getattr(mod, 'TECHNIQUE', (
                'Lean 4 machine-checked proof (kernel-accepted theorems, axioms propext / Quot.sound / Classical.choice only) over a model '
                + ('partly regenerated from the source text on every run (translator) and partly hand-written'
                   if tr.get(pid) else 'written by hand')
                + ', tied to the implementation by a differential correspondence check')),
        })
    manifest = {
        'version': 1,
        'setup_cmd': './check --setup',
        'hooks': {
            'guard': 'EMSARRAY_VERIF',
            'enable': 'no source hooks: all observation goes through the public API of the editable install (/repo/src); the harness only installs a stand-in `cfunits` module in sys.modules for emsarray.transect',
            'baseline_off_cmd': BASELINE,
            'source_commits': [],
            'add_only': True,
        },
        'engines': [{
            'name': 'lean4-model+correspondence',
            'path': 'lean/ (lake library EmsModel, Drivers/*.lean) + harness/ (check.py, props/*.py)',
            'serves_properties': [c['property_id'] for c in checks],
            'kind_free_text': 'Lean 4.33 theorems over executable models (hand-written, and for the functions listed in harness/modelmap.py: TRANSLATED regenerated from the source text on every run); correspondence = differential run of model driver vs emsarray through the public API; tables regenerated from live objects',
        }],
        'checks': checks,
        'not_applicable': na,
        'notes': 'See DESIGN.md. Exit 0 = held; exit 1 + VIOLATION line = violation; exit 2 = infrastructure failure (no verdict).',
    }
    (VERIF / 'MANIFEST.json').write_text(json.dumps(manifest, indent=1) + '\n')
    print(f'{len(checks)} checks, {len(na)} not yet claimed')


if __name__ == '__main__':
    main()
