"""
T — translator for the BOOKKEEPING of `emsarray.operations.triangulate.triangulate_dataset`.

`triangulate_dataset` decides which polygons are triangulated as a fan and which by ear clipping, records the cell
index of every block of triangles it writes, counts the rows it pre-allocates, builds the vertex table and joins the
triangles' coordinates against it.  On every run this module takes the SOURCE TEXT of the function from the working
tree (`inspect.getsource` of the imported module), walks its statements in order with the locals inlined (so renaming a
local is invisible; the parameter is recognised by position, loop variables by nesting position) and emits, in
`lean/EmsModel/Gen/TriDatasetSrc.lean`, terms of the small language of `lean/EmsModel/Core/TriDatasetSrc.lean`:

* `triDatasetLoops`  : every `_add_triangles(face, triangles)` call with the loops / `if x == 0: continue` guards around
                       it, the iterated arrays and the two arguments as `TdExpr` terms over `dataset.ems.polygons`
                       (`shapely.get_num_coordinates`, `shapely.convex_hull`, `!=`, `==`, `numpy.flatnonzero`,
                       `numpy.unique`, `a[idx]`, `a[idx] = 0` as a functional update, `int`, the two triangulators);
* `triDatasetTotal`  : the number of rows pre-allocated (`total_triangles`);
* `triDatasetAddBody`: the pre-allocation statements and the body of the local helper `_add_triangles`, canonical text
                       with parameters `P0 P1`, locals `L0 …` and the enclosing function's variables `F0 F1 …` renamed by
                       first occurrence;
* `triDatasetTable`  : the wiring of the vertex table and of the index join, read off the `return` statement with all
                       locals inlined: how `vertex_index` / `vertex_series` / the returned vertices are made (canonical
                       text), which `triangle_coords[:, corner, coord]` every data-frame column holds, which columns every
                       `.join(vertex_series.rename(v), on=[…])` looks up, which columns are returned.

`Ems.C14.dataset_*_generated` state that these are the programs declared in `Core/TriDatasetSrc.lean`, about which
`dataset_loops_spec`, `dataset_total_spec`, `dataset_table_wellformed` are proved.

Whatever is not understood becomes an `unknown "<python text>"` term and an entry of `Gen.triDatasetComplaints`; nothing
here raises: `render()` always returns a file that builds.
"""
from __future__ import annotations

import ast
import copy
import pathlib
import warnings

warnings.simplefilter('ignore')

VERIF = pathlib.Path(__file__).resolve().parent.parent
OUT = VERIF / 'lean' / 'EmsModel' / 'Gen' / 'TriDatasetSrc.lean'
TARGET = 'EmsModel.Gen.TriDatasetSrc'

MODULE = 'emsarray.operations.triangulate'
FUNCTION = 'triangulate_dataset'
HELPER = '_add_triangles'

LOG_ROOTS = ('logger', 'logging', 'log')


def snippet(node) -> str:
    try:
        s = ast.unparse(node)
    except Exception:
        s = repr(node)
    return ' '.join(s.split())


def lean_str(s: str) -> str:
    return '"' + s.replace('\\', '\\\\').replace('"', '\\"').replace('\n', '\\n') + '"'


def dotted(node):
    """`a.b.c` as a tuple of names, or None"""
    parts = []
    while isinstance(node, ast.Attribute):
        parts.append(node.attr)
        node = node.value
    if isinstance(node, ast.Name):
        parts.append(node.id)
        return tuple(reversed(parts))
    return None


def int_lit(node):
    if isinstance(node, ast.Constant) and type(node.value) is int:
        return node.value
    return None


class Val:
    """a local: its `TdExpr` term (or None), its defining expression with the locals inlined (or None), and the
    identity of the object it holds"""
    _ids = iter(range(1, 10 ** 9))

    def __init__(self, term=None, py=None, oid=None, keep_name=False):
        self.term = term
        self.py = py
        self.oid = next(Val._ids) if oid is None else oid
        self.keep_name = keep_name      # a pre-allocated array that is filled in place: never inlined
        self.mutated = False


class Walker:
    def __init__(self, fn: ast.FunctionDef):
        self.fn = fn
        self.param0 = fn.args.args[0].arg if fn.args.args else None
        self.env: dict[str, Val] = {}
        self.complaints: list[str] = []
        self.loops: list = []            # (binders, face term, tris term)
        self.nvars = 0                   # loop variables bound so far (levels)
        self.helper: ast.FunctionDef | None = None
        self.ret: ast.Return | None = None
        self.total = None
        self.outer: list[set] = []       # names of the enclosing scopes of the loops being walked

    # ---- TdExpr ---------------------------------------------------------------------------------
    def bad(self, node, why=''):
        text = node if isinstance(node, str) else snippet(node)
        if why:
            text = f'{text}  -- {why}'
        self.complaints.append(text)
        return ('unknown', text)

    def tx(self, node):
        """an expression as a TdExpr term"""
        if isinstance(node, ast.Name):
            v = self.env.get(node.id)
            if v is not None and v.term is not None:
                return v.term
            return self.bad(node, 'not a value of the bookkeeping fragment')
        d = dotted(node)
        if d is not None and self.param0 is not None and d == (self.param0, 'ems', 'polygons'):
            return ('polygons',)
        if isinstance(node, ast.Call) and not node.keywords and not any(isinstance(a, ast.Starred) for a in node.args):
            f = dotted(node.func)
            one = {('shapely', 'get_num_coordinates'): 'numCoords', ('shapely', 'convex_hull'): 'convexHull',
                   ('numpy', 'flatnonzero'): 'flatnonzero', ('np', 'flatnonzero'): 'flatnonzero',
                   ('numpy', 'nonzero'): 'nonzero', ('np', 'nonzero'): 'nonzero',
                   ('numpy', 'unique'): 'unique', ('np', 'unique'): 'unique',
                   ('numpy', 'sum'): 'sum', ('np', 'sum'): 'sum', ('int',): 'toInt',
                   ('_triangulate_polygons_by_length',): 'fanBatch', ('_triangulate_concave_polygon',): 'earOne'}
            if f in one and len(node.args) == 1 and (len(f) > 1 or f[0] not in self.env):
                return (one[f], self.tx(node.args[0]))
            return self.bad(node)
        if isinstance(node, ast.Compare) and len(node.ops) == 1 and isinstance(node.ops[0], (ast.Eq, ast.NotEq)):
            return ('eq' if isinstance(node.ops[0], ast.Eq) else 'ne', self.tx(node.left), self.tx(node.comparators[0]))
        if isinstance(node, ast.Subscript) and isinstance(node.ctx, ast.Load) \
                and not isinstance(node.slice, (ast.Slice, ast.Tuple)):
            return ('take', self.tx(node.value), self.tx(node.slice))
        if isinstance(node, ast.BinOp) and isinstance(node.op, ast.Sub) and int_lit(node.right) is not None \
                and int_lit(node.right) >= 0:
            return ('subLit', self.tx(node.left), int_lit(node.right))
        return self.bad(node)

    def quiet_tx(self, node):
        """tx without recording complaints (for locals that may never reach the bookkeeping)"""
        saved = list(self.complaints)
        t = self.tx(node)
        bad = len(self.complaints) != len(saved)
        self.complaints = saved
        return None if bad else t

    # ---- Python text with the locals inlined ----------------------------------------------------
    def inline(self, node):
        walker = self

        class Inl(ast.NodeTransformer):
            def visit_Attribute(self, n):
                d = dotted(n)
                if d is not None and walker.param0 is not None and d == (walker.param0, 'ems', 'polygons'):
                    return ast.Name(id='POLYGONS', ctx=ast.Load())
                return self.generic_visit(n)

            def visit_Name(self, n):
                v = walker.env.get(n.id)
                if v is None or not isinstance(n.ctx, ast.Load):
                    return n
                if v.mutated and not v.keep_name:
                    return ast.Name(id=f'MUTATED_{n.id}', ctx=ast.Load())
                if v.keep_name or v.py is None:
                    return n
                return copy.deepcopy(v.py)

        return Inl().visit(copy.deepcopy(node))

    # ---- statements -----------------------------------------------------------------------------
    def is_log(self, st) -> bool:
        if isinstance(st, ast.Expr) and isinstance(st.value, ast.Call):
            if any(isinstance(n, (ast.NamedExpr, ast.Await, ast.Yield, ast.YieldFrom)) for n in ast.walk(st.value)):
                return False
            d = dotted(st.value.func)
            return d is not None and (d == ('print',) or d == ('warnings', 'warn') or d[0] in LOG_ROOTS)
        return False

    def assign(self, name: str, value_node):
        if isinstance(value_node, ast.Name) and value_node.id in self.env:
            src = self.env[value_node.id]           # an alias: the same object under another name
            v = Val(src.term, src.py, oid=src.oid, keep_name=False)
            v.py = self.inline(value_node) if not src.keep_name else ast.Name(id=value_node.id, ctx=ast.Load())
            self.env[name] = v
            return
        prealloc = isinstance(value_node, ast.Call) and dotted(value_node.func) in (
            ('numpy', 'empty'), ('np', 'empty'), ('numpy', 'zeros'), ('np', 'zeros'))
        self.env[name] = Val(self.quiet_tx(value_node), self.inline(value_node), keep_name=prealloc)

    def unknown_loop(self, st, why):
        self.loops.append(([('unknown', self.bad(st, why)[1])], ('unknown', ''), ('unknown', '')))

    def block(self, body, binders, in_loop: bool):
        body = list(body)
        i = 0
        while i < len(body):
            st = body[i]
            i += 1
            if isinstance(st, ast.Expr) and isinstance(st.value, ast.Constant) and isinstance(st.value.value, str):
                continue                                    # docstring
            if isinstance(st, (ast.Pass, ast.Assert, ast.Nonlocal, ast.Global)) or self.is_log(st):
                continue                                    # do not change values
            if isinstance(st, ast.FunctionDef):
                if st.name == HELPER and self.helper is None and not in_loop:
                    self.helper = st
                else:
                    self.unknown_loop(st, 'a local function other than the one _add_triangles helper')
                continue
            if in_loop and isinstance(st, (ast.Assign, ast.AnnAssign, ast.AugAssign)):
                # what a loop body does to a variable of the enclosing scope would have to be carried from one iteration
                # to the next and out of the loop: outside the fragment (the source only binds fresh locals there)
                tg = st.targets[0] if isinstance(st, ast.Assign) and len(st.targets) == 1 else getattr(st, 'target', None)
                base = tg
                while isinstance(base, (ast.Subscript, ast.Attribute)):
                    base = base.value
                if not isinstance(tg, ast.Name) or any(tg.id in names for names in self.outer) \
                        or isinstance(st, ast.AugAssign):
                    self.unknown_loop(st, 'a loop body changes a variable of the enclosing scope')
                    continue
            if isinstance(st, ast.AnnAssign) and st.value is not None and isinstance(st.target, ast.Name):
                self.assign(st.target.id, st.value)
                continue
            if isinstance(st, ast.Assign) and len(st.targets) == 1:
                t = st.targets[0]
                if isinstance(t, ast.Name):
                    self.assign(t.id, st.value)
                    continue
                if isinstance(t, ast.Subscript) and isinstance(t.value, ast.Name) and t.value.id in self.env \
                        and not isinstance(t.slice, (ast.Slice, ast.Tuple)) and int_lit(st.value) is not None \
                        and int_lit(st.value) >= 0:
                    # x[idx] = literal: the local is rebound to the updated value; sound only when the object is not
                    # visible under another name
                    x = self.env[t.value.id]
                    shared = [k for k, v in self.env.items() if k != t.value.id and v.oid == x.oid]
                    if shared:
                        self.unknown_loop(st, f'the assigned array is also visible as {shared[0]}')
                        continue
                    idx = self.quiet_tx(t.slice)
                    if x.term is not None and idx is not None:
                        new = Val(('setAt', x.term, idx, int_lit(st.value)), None, oid=x.oid)
                        new.mutated = True
                        self.env[t.value.id] = new
                        continue
                self.unknown_loop(st, 'assignment not understood')
                continue
            if isinstance(st, ast.AugAssign) and isinstance(st.target, ast.Name) and st.target.id in self.env:
                self.env[st.target.id].mutated = True
                self.env[st.target.id].term = None
                continue
            if isinstance(st, ast.If) and in_loop and not st.orelse and len(st.body) == 1 \
                    and isinstance(st.body[0], ast.Continue) and isinstance(st.test, ast.Compare) \
                    and len(st.test.ops) == 1 and isinstance(st.test.ops[0], ast.Eq):
                a, b = st.test.left, st.test.comparators[0]
                if int_lit(a) == 0:
                    a, b = b, a
                if int_lit(b) == 0:
                    # `if x == 0: continue`: the rest of the body runs unless x is 0
                    self.block(body[i:], binders + [('unlessZero', self.tx(a))], True)
                    return
                self.unknown_loop(st, 'guard not understood')
                continue
            if isinstance(st, ast.For) and not st.orelse:
                saved_env, saved_n = dict(self.env), self.nvars
                self.outer.append(set(self.env))
                it = st.iter
                if isinstance(st.target, ast.Name):
                    b = ('each', self.tx(it))
                    self.env[st.target.id] = Val(('loopVar', self.nvars))
                    self.nvars += 1
                elif isinstance(st.target, ast.Tuple) and len(st.target.elts) == 2 \
                        and all(isinstance(e, ast.Name) for e in st.target.elts) \
                        and isinstance(it, ast.Call) and dotted(it.func) == ('zip',) and 'zip' not in self.env \
                        and len(it.args) == 2 and not it.keywords:
                    b = ('zip', self.tx(it.args[0]), self.tx(it.args[1]))
                    for e in st.target.elts:
                        self.env[e.id] = Val(('loopVar', self.nvars))
                        self.nvars += 1
                else:
                    self.outer.pop()
                    self.unknown_loop(st, 'loop header not understood')
                    continue
                self.block(st.body, binders + [b], True)
                self.outer.pop()
                # what a loop body assigns is not visible after the loop in this fragment (nothing of it is used there)
                self.env, self.nvars = saved_env, saved_n
                continue
            if isinstance(st, ast.Expr) and isinstance(st.value, ast.Call) and dotted(st.value.func) == (HELPER,):
                c = st.value
                if self.helper is None or c.keywords or len(c.args) != 2:
                    self.unknown_loop(st, 'call of the helper not understood')
                    continue
                self.loops.append((list(binders), self.tx(c.args[0]), self.tx(c.args[1])))
                continue
            if isinstance(st, ast.Return) and not in_loop and self.ret is None and st.value is not None:
                self.ret = st
                if i < len(body):
                    self.bad(body[i], 'statements after the return')
                return
            self.unknown_loop(st, 'statement outside the fragment')

    # ---- the helper and the pre-allocation ------------------------------------------------------
    def helper_text(self):
        """canonical text of the pre-allocation and of the helper's body; and the names of the arrays that hold the
        face indexes / the triangle coordinates"""
        h = self.helper
        if h is None:
            self.bad(f'{FUNCTION}: no local helper {HELPER}')
            return ['<no helper>'], None, None
        a = h.args
        if a.vararg or a.kwarg or a.kwonlyargs or a.posonlyargs or a.defaults or len(a.args) != 2:
            self.bad(f'{HELPER}: signature not understood')
            return ['<signature>'], None, None
        params = {p.arg: f'P{k}' for k, p in enumerate(a.args)}
        local_names: dict[str, str] = {}
        free: dict[str, str] = {}
        nonlocals = {n for st in h.body if isinstance(st, (ast.Nonlocal, ast.Global)) for n in st.names}
        assigned = set()
        for st in h.body:
            for n in ast.walk(st):
                if isinstance(n, ast.Name) and isinstance(n.ctx, ast.Store) and n.id not in nonlocals:
                    assigned.add(n.id)
        builtins = {'len', 'int', 'range', 'slice'}

        def rename(name):
            if name in params:
                return params[name]
            if name in assigned:
                return local_names.setdefault(name, f'L{len(local_names)}')
            if name in builtins and name not in self.env:
                return name
            return free.setdefault(name, f'F{len(free)}')

        class Ren(ast.NodeTransformer):
            def visit_Name(self, n):
                return ast.Name(id=rename(n.id), ctx=n.ctx)

            def visit_Nonlocal(self, n):
                return ast.Nonlocal(names=[rename(x) for x in n.names])

            def visit_Global(self, n):
                return ast.Global(names=[rename(x) for x in n.names])

        lines = []
        for st in h.body:
            if isinstance(st, ast.Expr) and isinstance(st.value, ast.Constant) and isinstance(st.value.value, str):
                continue
            if self.is_log(st):
                continue
            lines.append(snippet(Ren().visit(copy.deepcopy(st))))
        # which enclosing variable receives P0 / P1
        faces = coords = None
        for st in h.body:
            if isinstance(st, ast.Assign) and len(st.targets) == 1 and isinstance(st.targets[0], ast.Subscript) \
                    and isinstance(st.targets[0].value, ast.Name) and isinstance(st.value, ast.Name):
                if params.get(st.value.id) == 'P0':
                    faces = st.targets[0].value.id
                if params.get(st.value.id) == 'P1':
                    coords = st.targets[0].value.id
        # the pre-allocation of the enclosing variables the helper uses, in the order of their F-numbers
        pre = []
        # the row count is labelled TOTAL: the (inlined) text of the local whose term is the total
        total_text = None
        for w in self.env.values():
            if w.term is not None and self.total is not None and w.term == self.total and w.py is not None:
                total_text = snippet(w.py)
        for name, label in free.items():
            v = self.env.get(name)
            if v is None or v.py is None:
                pre.append(f'{label} = <not a local of {FUNCTION}>')
                continue
            txt = snippet(v.py)
            if total_text:
                txt = txt.replace(total_text, 'TOTAL')
            pre.append(f'{label} = {txt}')
        return pre + lines, faces, coords

    # ---- the vertex table -----------------------------------------------------------------------
    def table(self, faces_name, coords_name):
        t = {'vertexIndex': '?', 'vertexSeries': '?', 'vertexCoords': '?', 'columns': [], 'joins': [],
             'triangleColumns': [], 'faceColumn': '?', 'result': []}
        if self.ret is None:
            self.bad(f'{FUNCTION}: no return statement reached')
            return t
        rv = self.ret.value
        if not isinstance(rv, ast.Tuple) or len(rv.elts) != 3:
            self.bad(self.ret, 'the result is not a tuple of three')
            return t
        r_vertices, r_triangles, r_faces = (self.inline(e) for e in rv.elts)

        def to_numpy_of(node):
            """`X.to_numpy()` -> X"""
            if isinstance(node, ast.Call) and not node.args and not node.keywords \
                    and isinstance(node.func, ast.Attribute) and node.func.attr == 'to_numpy':
                return node.func.value
            return None

        tri_sel, face_sel = to_numpy_of(r_triangles), to_numpy_of(r_faces)
        joined = None
        if isinstance(tri_sel, ast.Subscript) and isinstance(tri_sel.slice, ast.List) \
                and all(isinstance(e, ast.Constant) and isinstance(e.value, str) for e in tri_sel.slice.elts):
            t['triangleColumns'] = [e.value for e in tri_sel.slice.elts]
            joined = tri_sel.value
            t['result'].append('vertices')      # position 0 is checked below
            t['result'].append('triangles')
        else:
            self.bad(rv.elts[1], 'the second result is not <frame>[[columns]].to_numpy()')
            t['result'] += ['vertices', '?']
        if isinstance(face_sel, ast.Subscript) and isinstance(face_sel.slice, ast.Constant) \
                and isinstance(face_sel.slice.value, str) and joined is not None \
                and ast.dump(face_sel.value) == ast.dump(joined):
            t['faceColumn'] = face_sel.slice.value
            t['result'].append('faces')
        else:
            self.bad(rv.elts[2], 'the third result is not <the same frame>[column].to_numpy()')
            t['result'].append('?')
        # the chain of joins
        series = []
        node = joined
        joins = []
        while isinstance(node, ast.Call) and isinstance(node.func, ast.Attribute) and node.func.attr == 'join':
            kw = {k.arg: k.value for k in node.keywords}
            ok = len(node.args) == 1 and set(kw) == {'on'} and isinstance(kw['on'], ast.List) \
                and all(isinstance(e, ast.Constant) and isinstance(e.value, str) for e in kw['on'].elts)
            other = node.args[0] if node.args else None
            if ok and isinstance(other, ast.Call) and isinstance(other.func, ast.Attribute) and other.func.attr == 'rename' \
                    and len(other.args) == 1 and not other.keywords and isinstance(other.args[0], ast.Constant) \
                    and isinstance(other.args[0].value, str):
                joins.append((other.args[0].value, [e.value for e in kw['on'].elts]))
                series.append(other.func.value)
            else:
                joins.append((f'<{snippet(node.args[0]) if node.args else "?"}>', [f'<{snippet(node)}>']))
                self.bad(snippet(node)[:200], 'join not understood')
            node = node.func.value
        t['joins'] = list(reversed(joins))
        # the data frame
        if isinstance(node, ast.Call) and dotted(node.func) == ('pandas', 'DataFrame') and len(node.args) == 1 \
                and isinstance(node.args[0], ast.Dict) and {k.arg for k in node.keywords} <= {'copy'}:
            for k, v in zip(node.args[0].keys, node.args[0].values):
                name = k.value if isinstance(k, ast.Constant) and isinstance(k.value, str) else f'<{snippet(k)}>'
                col = ('unknown', snippet(v))
                if isinstance(v, ast.Call) and dotted(v.func) == ('pandas', 'Series') and len(v.args) == 1 and not v.keywords:
                    x = v.args[0]
                    if isinstance(x, ast.Name) and faces_name is not None and x.id == faces_name:
                        col = ('faces',)
                    elif isinstance(x, ast.Subscript) and isinstance(x.value, ast.Name) and coords_name is not None \
                            and x.value.id == coords_name and isinstance(x.slice, ast.Tuple) and len(x.slice.elts) == 3 \
                            and isinstance(x.slice.elts[0], ast.Slice) and x.slice.elts[0].lower is None \
                            and x.slice.elts[0].upper is None and x.slice.elts[0].step is None \
                            and int_lit(x.slice.elts[1]) is not None and int_lit(x.slice.elts[2]) is not None \
                            and int_lit(x.slice.elts[1]) >= 0 and int_lit(x.slice.elts[2]) >= 0:
                        col = ('coord', int_lit(x.slice.elts[1]), int_lit(x.slice.elts[2]))
                if col[0] == 'unknown':
                    self.bad(v, 'data-frame column not understood')
                t['columns'].append((name, col))
        else:
            self.bad(snippet(node)[:200] if node is not None else 'frame', 'the joined frame does not start from pandas.DataFrame({...})')
        # the vertex series: pandas.Series(numpy.arange(len(X)), index=X)
        vi = None
        if series and all(ast.dump(s) == ast.dump(series[0]) for s in series):
            s = series[0]
            if isinstance(s, ast.Call) and dotted(s.func) == ('pandas', 'Series') and len(s.args) == 1 \
                    and [k.arg for k in s.keywords] == ['index']:
                a = s.args[0]
                if isinstance(a, ast.Call) and dotted(a.func) in (('numpy', 'arange'), ('np', 'arange')) \
                        and len(a.args) == 1 and not a.keywords and isinstance(a.args[0], ast.Call) \
                        and dotted(a.args[0].func) == ('len',) and len(a.args[0].args) == 1 \
                        and ast.dump(a.args[0].args[0]) == ast.dump(s.keywords[0].value):
                    vi = s.keywords[0].value
            if vi is None:
                t['vertexSeries'] = snippet(s)
                self.bad(snippet(s)[:200], 'vertex series not understood')
        elif series:
            self.bad('the joins use different series')
        if vi is not None:
            key = ast.dump(vi)

            class Lab(ast.NodeTransformer):
                def visit(self, n):
                    if isinstance(n, ast.AST) and ast.dump(n) == key:
                        return ast.Name(id='VERTEX_INDEX', ctx=ast.Load())
                    return super().visit(n)

            t['vertexIndex'] = snippet(vi)
            t['vertexSeries'] = snippet(Lab().visit(copy.deepcopy(series[0])))
            t['vertexCoords'] = snippet(Lab().visit(copy.deepcopy(r_vertices)))
        else:
            t['vertexCoords'] = snippet(r_vertices)
        return t

    def run(self):
        a = self.fn.args
        if a.vararg or a.kwarg or a.kwonlyargs or a.posonlyargs or a.defaults or len(a.args) != 1:
            self.bad(f'{FUNCTION}: signature not understood')
        self.block(self.fn.body, [], False)
        # the row count: the argument of the pre-allocation, found as the local whose term is a `sum`
        for name, v in self.env.items():
            if v.term is not None and v.term[0] == 'sum':
                self.total = v.term
        if self.total is None:
            self.total = self.bad(f'{FUNCTION}: no local holding numpy.sum(…) (the row count)')
        body, faces, coords = self.helper_text()
        table = self.table(faces, coords)
        return {'loops': self.loops, 'total': self.total, 'add': body, 'table': table,
                'complaints': list(self.complaints)}


# --------------------------------------------------------------------------------------------------
# rendering

def r_expr(t) -> str:
    k = t[0]
    if k == 'polygons':
        return '.polygons'
    if k == 'unknown':
        return f'(.unknown {lean_str(t[1])})'
    if k == 'loopVar':
        return f'(.loopVar {t[1]})'
    if k == 'setAt':
        return f'(.setAt {r_expr(t[1])} {r_expr(t[2])} {t[3]})'
    if k == 'subLit':
        return f'(.subLit {r_expr(t[1])} {t[2]})'
    if k in ('ne', 'eq', 'take'):
        return f'(.{k} {r_expr(t[1])} {r_expr(t[2])})'
    if k in ('numCoords', 'convexHull', 'flatnonzero', 'nonzero', 'unique', 'sum', 'toInt', 'fanBatch', 'earOne'):
        return f'(.{k} {r_expr(t[1])})'
    return f'(.unknown {lean_str(repr(t))})'


def r_binder(b) -> str:
    if b[0] == 'each':
        return f'.each {r_expr(b[1])}'
    if b[0] == 'zip':
        return f'.zip {r_expr(b[1])} {r_expr(b[2])}'
    if b[0] == 'unlessZero':
        return f'.unlessZero {r_expr(b[1])}'
    return f'.unknown {lean_str(str(b[1]))}'


def r_column(c) -> str:
    if c[0] == 'faces':
        return '.faces'
    if c[0] == 'coord':
        return f'.coord {c[1]} {c[2]}'
    return f'.unknown {lean_str(c[1])}'


def r_strs(xs) -> str:
    return '[' + ', '.join(lean_str(x) for x in xs) + ']'


def failure_file(text: str) -> str:
    s = lean_str(text)
    return ('import EmsModel.Core.TriDatasetSrc\n'
            '/- GENERATED by harness/trans_tridataset.py from the source text of the working tree. Do not edit. -/\n'
            'namespace Ems.Gen\nopen Ems\n\n'
            f'def triDatasetLoops : List TdLoop := [{{ binders := [.unknown {s}], face := .unknown "", tris := .unknown "" }}]\n\n'
            f'def triDatasetTotal : TdExpr := .unknown {s}\n\n'
            f'def triDatasetAddBody : List String := [{s}]\n\n'
            'def triDatasetTable : TdTable :=\n'
            '  { vertexIndex := "?", vertexSeries := "?", vertexCoords := "?", columns := [], joins := [],\n'
            '    triangleColumns := [], faceColumn := "?", result := [] }\n\n'
            f'def triDatasetComplaints : List String := [{s}]\n\nend Ems.Gen\n')


def collect() -> dict:
    import importlib
    import inspect
    from harness import pipelines as P
    P.ensure_source_tree()              # honours EMSARRAY_VERIF_SRC exactly as check.py does
    module = importlib.import_module(MODULE)
    tree = ast.parse(inspect.getsource(module))
    fn = next((st for st in tree.body if isinstance(st, ast.FunctionDef) and st.name == FUNCTION), None)
    if fn is None:
        raise LookupError(f'no function {FUNCTION} in the source of {MODULE}')
    return Walker(fn).run()


def render() -> str:
    try:
        it = collect()
        lines = [
            'import EmsModel.Core.TriDatasetSrc',
            '/- GENERATED by harness/trans_tridataset.py from the source text of the working tree. Do not edit. -/',
            'namespace Ems.Gen',
            'open Ems',
            '',
            f'/-- the `{HELPER}(face, triangles)` calls of `{MODULE}.{FUNCTION}` with the loops and guards around them -/',
            'def triDatasetLoops : List TdLoop := [',
        ]
        rows = []
        for binders, face, tris in it['loops']:
            rows.append('  { binders := [\n      ' + ',\n      '.join(r_binder(b) for b in binders) + '],\n'
                        f'    face := {r_expr(face)},\n    tris := {r_expr(tris)} }}')
        lines.append(',\n'.join(rows) + ']')
        lines += [
            '',
            '/-- the number of rows pre-allocated (`total_triangles`) -/',
            f'def triDatasetTotal : TdExpr := {r_expr(it["total"])}',
            '',
            f'/-- the pre-allocation and the body of `{HELPER}` (parameters `P0 P1`, locals `L…`, enclosing variables `F…`) -/',
            'def triDatasetAddBody : List String := [\n  ' + ',\n  '.join(lean_str(x) for x in it['add']) + ']',
            '',
            '/-- the wiring of the vertex table and of the index join -/',
            'def triDatasetTable : TdTable :=',
            f'  {{ vertexIndex := {lean_str(it["table"]["vertexIndex"])}',
            f'    vertexSeries := {lean_str(it["table"]["vertexSeries"])}',
            f'    vertexCoords := {lean_str(it["table"]["vertexCoords"])}',
            '    columns := [' + ', '.join(f'({lean_str(n)}, {r_column(c)})' for n, c in it['table']['columns']) + ']',
            '    joins := [' + ', '.join(f'({lean_str(n)}, {r_strs(on)})' for n, on in it['table']['joins']) + ']',
            f'    triangleColumns := {r_strs(it["table"]["triangleColumns"])}',
            f'    faceColumn := {lean_str(it["table"]["faceColumn"])}',
            f'    result := {r_strs(it["table"]["result"])} }}',
            '',
            '/-- what the translator could not render (Python text); empty when everything was understood -/',
            'def triDatasetComplaints : List String := [' + (
                '\n  ' + ',\n  '.join(lean_str(c) for c in it['complaints']) if it['complaints'] else '') + ']',
            '',
            'end Ems.Gen',
            '',
        ]
        return '\n'.join(lines)
    except Exception as e:                  # never crash: a file that builds and a precise complaint
        return failure_file(f'{FUNCTION}: {type(e).__name__}: {e}')


if __name__ == '__main__':
    import sys
    sys.path.insert(0, str(VERIF))
    from harness import translators
    print('rewritten' if translators.write_if_changed(OUT, render()) else 'unchanged')
    for c in collect()['complaints']:
        print('unsupported:', c)
